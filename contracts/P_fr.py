"""P_fr -- C16: the FillRequest adapter beyond `_run_fill_compute` (contracts/C16.py).  Sidecar contracts of
lena/core/adapters.py (FillRequest.__init__ / fill / request / reset / _run_run / _run_fill_compute with element states)."""
from pyvc.contracts import Contract, LoopSpec, ClassSpec

AD = "lena/core/adapters.py"


def register_specs(ix):
    """block reference of the property text (bounded/C16.py `blocks_spec`), over the element interface:
      fold_fill_at(e, s, xs, lo, k)   state of e after filling xs[lo..lo+k) in order, starting from s
      fr_start(e, s0, xs, n, lo, rs)  state of e when the block that starts at offset lo (a multiple of n) begins: s0 for the
                                      first block; afterwards the state the request of the previous (complete) block left,
                                      or el_reset(e) when the element is reset between blocks (rs)
      fr_outlen(e, s0, xs, n, lo, rs) number of results of the complete blocks before offset lo"""
    from pyvc.smt import T
    from pyvc.sym import Num, Opaque, Bool
    from pyvc.speclib import lst_term, obj_term, st_term

    def decls(reg):
        sort = reg.lst("V")
        reg.ufun("el_fill", ["Obj", "St", "V"], "St")
        reg.ufun("el_reset", ["Obj"], "St")
        reg.ufun("el_request_state", ["Obj", "St"], "St")
        reg.ufun("el_request", ["Obj", "St"], sort)
        reg.fun_decl("fold_fill_at",
                     "(define-fun-rec fold_fill_at ((e Obj) (s St) (xs %s) (lo Int) (k Int)) St "
                     "(ite (<= k 0) s (el_fill e (fold_fill_at e s xs lo (- k 1)) (select (arr_%s xs) (+ lo (- k 1))))))" % (sort, sort))
        reg.fun_decl("fr_start",
                     "(define-fun-rec fr_start ((e Obj) (s0 St) (xs %s) (n Int) (lo Int) (rs Bool)) St "
                     "(ite (or (<= lo 0) (<= n 0)) s0 (ite rs (el_reset e) "
                     "(el_request_state e (fold_fill_at e (fr_start e s0 xs n (- lo n) rs) xs (- lo n) n)))))" % sort)
        reg.fun_decl("fr_outlen",
                     "(define-fun-rec fr_outlen ((e Obj) (s0 St) (xs %s) (n Int) (lo Int) (rs Bool)) Int "
                     "(ite (or (<= lo 0) (<= n 0)) 0 (+ (fr_outlen e s0 xs n (- lo n) rs) "
                     "(len_%s (el_request e (fold_fill_at e (fr_start e s0 xs n (- lo n) rs) xs (- lo n) n))))))" % (sort, sort))
        return sort

    def sp_fold_fill_at(ip, st, pos, kws):
        sort = decls(ip.reg)
        xs = lst_term(ip, st, pos[2], sort)
        return Opaque(T("(fold_fill_at %s %s %s %s %s)" % (obj_term(pos[0]).s, st_term(pos[1]).s, xs.s, ip.num(pos[3]).s,
                                                          ip.num(pos[4]).s), "St"))

    def args6(ip, st, pos):
        sort = decls(ip.reg)
        xs = lst_term(ip, st, pos[2], sort)
        return "%s %s %s %s %s %s" % (obj_term(pos[0]).s, st_term(pos[1]).s, xs.s, ip.num(pos[3]).s, ip.num(pos[4]).s,
                                      ip.truth(st, pos[5]).s)

    def sp_fr_start(ip, st, pos, kws):
        return Opaque(T("(fr_start %s)" % args6(ip, st, pos), "St"))

    def sp_fr_outlen(ip, st, pos, kws):
        return Num(T("(fr_outlen %s)" % args6(ip, st, pos), "Int"))
    ix.spec_names["fold_fill_at"] = sp_fold_fill_at
    ix.spec_names["fr_start"] = sp_fr_start
    ix.spec_names["fr_outlen"] = sp_fr_outlen


def register(ix):
    register_specs(ix)
    F = {"_el": "Obj", "_el_fill": "MethodOf[_el,fill]", "_el_request": "MethodOf[_el,request]",
         "_el_reset": "MethodOf[_el,reset]", "bufsize": "Int", "_reset": "Bool", "_yield_on_remainder": "Bool"}
    ix.add(Contract(AD, "FillRequest.reset", props=["C16"], ghost={"elstate": True},
                    params={"self": "Self[FillRequest]"},
                    ensures=["elstate(self._el) == el_reset(self._el)"]))

    # ------------------------------------------------------------------ FillRequest.__init__
    ix.add_class(ClassSpec("FillRequest0", AD, fields={}, alias_of="FillRequest"))
    HAS_RUN = "callable_m(el, 'run')"
    TYPE_BAD = ("((reset and not callable_m(el, reset_name)) or (not callable_m(el, fill) and not %s) or "
                "(callable_m(el, fill) and reset is None) or "
                "(not callable_m(el, request) and not callable_m(el, 'compute') and not %s))" % (HAS_RUN, HAS_RUN))
    VALUE_BAD = "(bufsize < 1 or (not yield_on_remainder and (1 if buffer_input else 0) + (1 if buffer_output else 0) != 1))"

    def init_case(rty, bity, boty):
        return Contract(
            AD, "FillRequest.__init__", name="FillRequest.__init__[reset:%s buffer_input:%s buffer_output:%s]" % (rty, bity, boty),
            params={"self": "Self[FillRequest0]", "el": "Obj", "bufsize": "Int", "reset": rty, "buffer_input": bity,
                    "buffer_output": boty, "yield_on_remainder": "Bool", "fill": "Str", "request": "Str", "reset_name": "Str"},
            raises={"LenaTypeError": "?", "LenaValueError": "?"},
            exc_ensures={"LenaTypeError": [TYPE_BAD], "LenaValueError": [VALUE_BAD]},
            ensures=["not %s" % TYPE_BAD, "not %s" % VALUE_BAD,
                     "self._el is el", "self.bufsize == bufsize", "self._reset == (True if reset else False)",
                     "self._yield_on_remainder == yield_on_remainder",
                     "self._buffer_input == (True if buffer_input else False)"],
            modifies=["self._el_reset", "self.reset", "self._reset", "self._buffer_input", "self.run", "self._el_fill",
                      "self._n_count", "self._buffer_in", "self._buffer_out", "self.fill", "self._el_request", "self.request",
                      "self.bufsize", "self._yield_on_remainder", "self._el"])
    ix.add(Contract(AD, "FillRequest.__init__", props=["C16"],
                    cases=[init_case(r, bi, bo) for r in ("Bool", "None") for bi, bo in
                           (("Bool", "Bool"), ("None", "None"), ("Bool", "None"), ("None", "Bool"))]))

    # ------------------------------------------------------------------ fill / request, buffer_output
    FO = dict(F, _n_count="Int", _buffer_input="Bool", _buffer_out="Lst[V]")
    ix.add_class(ClassSpec("FillRequest_out", AD, fields=FO, alias_of="FillRequest",
                           invariant=["self.bufsize >= 1", "not self._buffer_input", "0 <= self._n_count <= self.bufsize"]))
    REQ = "el_request(self._el, old(elstate(self._el)))"
    ix.add(Contract(
        AD, "FillRequest.request", qualkey="FillRequest_out.request", name="FillRequest.request[buffer_output, nothing buffered]",
        props=["C16"], ghost={"elstate": True},
        params={"self": "Self[FillRequest_out]"}, generator=True, yields="V",
        requires=["not self._yield_on_remainder", "len(self._buffer_out) == 0"],
        loops={0: LoopSpec(invariant=["len(out) == _i", "all(out[k] == %s[k] for k in range(_i))" % REQ]),
               1: LoopSpec(invariant=["_i == 0", "len(out) == _o1", "all(out[k] == %s[k] for k in range(_o1))" % REQ],
                           ghost={"_o1": "Int"}, init_ghost={"_o1": "len(out)"})},
        ensures=["old(self._n_count) < self.bufsize implies len(out) == 0 and elstate(self._el) == old(elstate(self._el)) "
                 "and self._n_count == old(self._n_count)",
                 "old(self._n_count) == self.bufsize implies len(out) == len(%s) and "
                 "all(out[k] == %s[k] for k in range(len(out)))" % (REQ, REQ),
                 "old(self._n_count) == self.bufsize implies self._n_count == 0 and elstate(self._el) == "
                 "(el_reset(self._el) if self._reset else el_request_state(self._el, old(elstate(self._el))))",
                 "len(self._buffer_out) == 0"],
        modifies=["self._n_count"]))

    FILLED = ["elstate(self._el) == el_fill(self._el, old(elstate(self._el)), value)", "self._n_count == old(self._n_count) + 1"]
    ix.add(Contract(
        AD, "FillRequest.fill", qualkey="FillRequest_out.fill", name="FillRequest.fill[buffer_output, within block]",
        props=["C16"], ghost={"elstate": True},
        params={"self": "Self[FillRequest_out]", "value": "V"},
        requires=["self._n_count < self.bufsize"],
        raises={"LenaStopFill": "el_fill_stops(self._el, elstate(self._el), value)"}, raises_frame="pure",
        ensures=FILLED + ["same(self._buffer_out, old(self._buffer_out))"],
        modifies=["self._n_count"]))
    # ------------------------------------------------------------------ fill / request, buffer_input
    FI = dict(F, _n_count="Int", _buffer_input="Bool", _buffer_in="Lst[V]")
    ix.add_class(ClassSpec("FillRequest_in", AD, fields=FI, alias_of="FillRequest",
                           invariant=["self.bufsize >= 1", "self._buffer_input", "0 <= self._n_count <= self.bufsize",
                                      "self._n_count < self.bufsize implies len(self._buffer_in) == 0"]))
    ix.add(Contract(
        AD, "FillRequest.fill", qualkey="FillRequest_in.fill", name="FillRequest.fill[buffer_input]",
        props=["C16"], ghost={"elstate": True},
        params={"self": "Self[FillRequest_in]", "value": "V"},
        raises={"LenaStopFill": "self._n_count < self.bufsize and el_fill_stops(self._el, elstate(self._el), value)"},
        raises_frame="pure",
        ensures=["old(self._n_count) < self.bufsize implies " + " and ".join(FILLED) + " and len(self._buffer_in) == 0",
                 # the element holds a complete block that was not requested yet: the value waits in the buffer, in order
                 "old(self._n_count) == self.bufsize implies elstate(self._el) == old(elstate(self._el)) and "
                 "self._n_count == old(self._n_count) and len(self._buffer_in) == old(len(self._buffer_in)) + 1 and "
                 "self._buffer_in[old(len(self._buffer_in))] == value and "
                 "all(self._buffer_in[k] == old(self._buffer_in)[k] for k in range(old(len(self._buffer_in))))"],
        modifies=["self._n_count", "self._buffer_in"]))

    # ------------------------------------------------------------------ _run_fill_compute with element states
    ARGS = "self._el, old(elstate(self._el)), content(flow), self.bufsize, {lo}, self._reset"
    START = lambda lo: "fr_start(%s)" % ARGS.format(lo=lo)
    OUTLEN = lambda lo: "fr_outlen(%s)" % ARGS.format(lo=lo)
    LO = "(_nblk - 1) * self.bufsize"
    CUR = "fold_fill_at(self._el, %s, content(flow), %s, pulled(flow) - %s)" % (START(LO), LO, LO)
    BLK = "pulled(flow) == _nblk * self.bufsize"
    INBLK = ["_nblk >= 1", "pulled(flow) >= 1", "elstate(self._el) == " + CUR]
    ix.add(Contract(
        AD, "FillRequest._run_fill_compute", qualkey="FillRequest._run_fill_compute#state",
        name="FillRequest._run_fill_compute[element states]", props=["C16"],
        params={"self": "Self[FillRequest]", "flow": "Iter[V]"}, generator=True, yields="V",
        requires=["pulled(flow) == 0"], ghost={"elstate": True},
        raises={"LenaStopFill": "?"},
        loops={
            0: LoopSpec(invariant=[BLK, "_nblk >= 0", "len(out) == " + OUTLEN("pulled(flow)"),
                                   # between blocks: the element is in the state the reference prescribes (reset iff reset is set)
                                   "elstate(self._el) == " + START("pulled(flow)")],
                        init_ghost={"_nblk": "0"}, body_ghost={"_nblk": "_nblk + 1"}, ghost={"_nblk": "Int"},
                        decreases="len(content(flow)) - pulled(flow)"),
            1: LoopSpec(invariant=INBLK + ["1 <= nfills <= self.bufsize", "pulled(flow) == %s + nfills" % LO,
                                           "len(out) == " + OUTLEN(LO)]),
            2: LoopSpec(invariant=["_nblk >= 1", "pulled(flow) >= 1", "pulled(flow) == len(content(flow))", "pulled(flow) < _nblk * self.bufsize",
                                   "pulled(flow) > " + LO, "self._yield_on_remainder", "len(out) == %s + _i" % OUTLEN(LO),
                                   "elstate(self._el) == el_request_state(self._el, %s)" % CUR]),
            3: LoopSpec(invariant=[BLK, "_nblk >= 1", "pulled(flow) >= 1", "len(out) == %s + _i" % OUTLEN(LO),
                                   "elstate(self._el) == el_request_state(self._el, %s)" % CUR]),
        },
        at_call={
            # every value is filled exactly once, in the order of the flow: the value filled is the one just pulled
            "fill": ["call_args[0] == content(flow)[pulled(flow) - 1]"],
            # one request per block, made when the element holds exactly the values of that block (folded in order from the
            # state the block started with) and nothing beyond the block has been pulled
            "request": ["elstate(self._el) == " + CUR,
                        "pulled(flow) == _nblk * self.bufsize or (self._yield_on_remainder and pulled(flow) == len(content(flow)) "
                        "and %s < pulled(flow) < _nblk * self.bufsize)" % LO,
                        "len(out) == " + OUTLEN(LO)],
            # reset only when reset is set, right after the request of a complete block
            "reset": ["self._reset", BLK, "elstate(self._el) == el_request_state(self._el, %s)" % CUR]},
        at_yield=[
            # the k-th result of block j sits at position (results of the blocks before) + k and is the k-th result of the
            # request made on the state folded from exactly that block
            "0 <= len(out) - %s < len(el_request(self._el, %s))" % (OUTLEN(LO), CUR),
            "yielded == el_request(self._el, %s)[len(out) - %s]" % (CUR, OUTLEN(LO)),
            "pulled(flow) <= _nblk * self.bufsize"],
        ensures=["pulled(flow) == len(content(flow))"],
        modifies=["flow"]))
