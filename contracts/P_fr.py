"""P_fr -- C16: the FillRequest adapter beyond the block discipline of `_run_fill_compute` (contracts/C16.py).
Sidecar contracts of lena/core/adapters.py (FillRequest.__init__ / fill / request / reset / _run_run, and _run_fill_compute
once more WITH element states), lena/core/fill_request_seq.py (request, reset), fill_compute_seq.py (compute),
fill_seq.py (_Fill.fill), lena_sequence.py (__len__).

Element interface: el_fill / el_request / el_request_state / el_reset / el_run (+ el_run_reads for run elements that pull
from the iterator they are given, pyvc/lib_run.py).  Reference of the property text (bounded/C16.py `blocks_spec`) as
recursive specification functions: fold_fill_at, fr_start, fr_outlen (register_specs).

fill()/request() are proved per REGION of the protocol state (views FillRequest_in / FillRequest_out with the invariant
`_n_count` = values of the current block held by the element, <= bufsize; buffered input only behind a complete block):
the regions in which the unchanged tree satisfies the property carry props=["C16"]; the clauses of the property that the
unchanged tree violates (known_findings.json, C16) are stated in full, un-weakened, in contracts with props=[] at the end
of this file (run them with tools/dbg.py: each ends in `failed` obligations).

Not reached: FillRequest._run_run with buffer_output (an instance of a class defined inside the function, whose generator
__iter__ sets a counter when it is exhausted, is iterated by the wrapped element), FillRequestSeq.__init__ /
_init_sequence_with_el (FillSeq construction)."""
from pyvc.contracts import Contract, LoopSpec, ClassSpec

AD = "lena/core/adapters.py"


def register_specs(ix):
    """block reference of the property text (bounded/C16.py `blocks_spec`), over the element interface:
      fold_fill_at(e, s, xs, lo, k)   state of e after filling xs[lo..lo+k) in order, starting from s
      fr_start(e, s0, xs, n, lo, rs)  state of e when the block that starts at offset lo (a multiple of n) begins: s0 for the
                                      first block; afterwards the state the request of the previous (complete) block left,
                                      or el_reset(e) when the element is reset between blocks (rs)
      fr_outlen(e, s0, xs, n, lo, rs) number of results of the complete blocks before offset lo"""
    from pyvc.smt import T
    from pyvc.sym import Num, Opaque, Bool
    from pyvc.speclib import lst_term, obj_term, st_term

    def decls(reg):
        sort = reg.lst("V")
        reg.ufun("el_fill", ["Obj", "St", "V"], "St")
        reg.ufun("el_reset", ["Obj"], "St")
        reg.ufun("el_request_state", ["Obj", "St"], "St")
        reg.ufun("el_request", ["Obj", "St"], sort)
        reg.fun_decl("fold_fill_at",
                     "(define-fun-rec fold_fill_at ((e Obj) (s St) (xs %s) (lo Int) (k Int)) St "
                     "(ite (<= k 0) s (el_fill e (fold_fill_at e s xs lo (- k 1)) (select (arr_%s xs) (+ lo (- k 1))))))" % (sort, sort))
        reg.fun_decl("fr_start",
                     "(define-fun-rec fr_start ((e Obj) (s0 St) (xs %s) (n Int) (lo Int) (rs Bool)) St "
                     "(ite (or (<= lo 0) (<= n 0)) s0 (ite rs (el_reset e) "
                     "(el_request_state e (fold_fill_at e (fr_start e s0 xs n (- lo n) rs) xs (- lo n) n)))))" % sort)
        reg.fun_decl("fr_outlen",
                     "(define-fun-rec fr_outlen ((e Obj) (s0 St) (xs %s) (n Int) (lo Int) (rs Bool)) Int "
                     "(ite (or (<= lo 0) (<= n 0)) 0 (+ (fr_outlen e s0 xs n (- lo n) rs) "
                     "(len_%s (el_request e (fold_fill_at e (fr_start e s0 xs n (- lo n) rs) xs (- lo n) n))))))" % (sort, sort))
        return sort

    def sp_fold_fill_at(ip, st, pos, kws):
        sort = decls(ip.reg)
        xs = lst_term(ip, st, pos[2], sort)
        return Opaque(T("(fold_fill_at %s %s %s %s %s)" % (obj_term(pos[0]).s, st_term(pos[1]).s, xs.s, ip.num(pos[3]).s,
                                                          ip.num(pos[4]).s), "St"))

    def args6(ip, st, pos):
        sort = decls(ip.reg)
        xs = lst_term(ip, st, pos[2], sort)
        return "%s %s %s %s %s %s" % (obj_term(pos[0]).s, st_term(pos[1]).s, xs.s, ip.num(pos[3]).s, ip.num(pos[4]).s,
                                      ip.truth(st, pos[5]).s)

    def sp_fr_start(ip, st, pos, kws):
        return Opaque(T("(fr_start %s)" % args6(ip, st, pos), "St"))

    def sp_fr_outlen(ip, st, pos, kws):
        return Num(T("(fr_outlen %s)" % args6(ip, st, pos), "Int"))
    def sp_whole_blocks(ip, st, pos, kws):
        """whole_blocks(m, n): m is a multiple of the block size n (m == q * n for some q >= 0)"""
        ip.reg.fun_decl("whole_blocks", "(define-fun-rec whole_blocks ((m Int) (n Int)) Bool "
                                        "(ite (or (<= m 0) (<= n 0)) (= m 0) (whole_blocks (- m n) n)))")
        return Bool(T("(whole_blocks %s %s)" % (ip.num(pos[0]).s, ip.num(pos[1]).s), "Bool"))
    ix.spec_names["whole_blocks"] = sp_whole_blocks
    # (FillRequest._run_run has a local variable called el_run, which hides the specification function of that name)
    from pyvc.speclib import sp_el_run
    ix.spec_names["run_results"] = sp_el_run
    ix.spec_names["fold_fill_at"] = sp_fold_fill_at
    ix.spec_names["fr_start"] = sp_fr_start
    ix.spec_names["fr_outlen"] = sp_fr_outlen


def register(ix):
    register_specs(ix)
    F = {"_el": "Obj", "_el_fill": "MethodOf[_el,fill]", "_el_request": "MethodOf[_el,request]",
         "_el_reset": "MethodOf[_el,reset]", "bufsize": "Int", "_reset": "Bool", "_yield_on_remainder": "Bool"}
    ix.add(Contract(AD, "FillRequest.reset", props=["C16"], ghost={"elstate": True},
                    params={"self": "Self[FillRequest]"},
                    ensures=["elstate(self._el) == el_reset(self._el)"]))

    # ------------------------------------------------------------------ FillRequest.__init__
    ix.add_class(ClassSpec("FillRequest0", AD, fields={}, alias_of="FillRequest"))
    HAS_RUN = "callable_m(el, 'run')"
    TYPE_BAD = ("((reset and not callable_m(el, reset_name)) or (not callable_m(el, fill) and not %s) or "
                "(callable_m(el, fill) and reset is None) or "
                "(not callable_m(el, request) and not callable_m(el, 'compute') and not %s))" % (HAS_RUN, HAS_RUN))
    VALUE_BAD_INT = "(bufsize < 1 or (not yield_on_remainder and (1 if buffer_input else 0) + (1 if buffer_output else 0) != 1))"

    def init_case(rty, bity, boty, nty="Int"):
        VALUE_BAD = VALUE_BAD_INT if nty == "Int" else "(bufsize != int(bufsize) or %s)" % VALUE_BAD_INT
        return Contract(
            AD, "FillRequest.__init__", name="FillRequest.__init__[reset:%s buffer_input:%s buffer_output:%s%s]" % (
                rty, bity, boty, "" if nty == "Int" else " bufsize:" + nty),
            params={"self": "Self[FillRequest0]", "el": "Obj", "bufsize": nty, "reset": rty, "buffer_input": bity,
                    "buffer_output": boty, "yield_on_remainder": "Bool", "fill": "Str", "request": "Str", "reset_name": "Str"},
            raises={"LenaTypeError": "?", "LenaValueError": "?"},
            exc_ensures={"LenaTypeError": [TYPE_BAD], "LenaValueError": [VALUE_BAD]},
            ensures=["not %s" % TYPE_BAD, "not %s" % VALUE_BAD,
                     "self._el is el", "self.bufsize == bufsize", "self._reset == (True if reset else False)",
                     "self._yield_on_remainder == yield_on_remainder",
                     "self._buffer_input == (True if buffer_input else False)",
                     # which methods of el the adapter uses, and which of its own methods it disables
                     "callable_m(el, reset_name) implies self._el_reset is method(el, reset_name)",
                     "not callable_m(el, reset_name) implies self.reset is None",
                     # a Run element is run block by block; otherwise the flow is filled / requested block by block
                     "%s implies self.run is self._run_run" % HAS_RUN,
                     "not %s implies self.run is self._run_fill_compute" % HAS_RUN,
                     "callable_m(el, fill) implies self._el_fill is method(el, fill) and self._n_count == 0",
                     "callable_m(el, fill) and buffer_input implies len(self._buffer_in) == 0",
                     "callable_m(el, fill) and not buffer_input implies len(self._buffer_out) == 0",
                     "not callable_m(el, fill) implies self.fill is None",
                     # request is preferred to compute
                     "callable_m(el, request) implies self._el_request is method(el, request)",
                     "not callable_m(el, request) and callable_m(el, 'compute') implies self._el_request is method(el, 'compute')",
                     "not callable_m(el, request) and not callable_m(el, 'compute') implies self.request is None"],
            modifies=["self._el_reset", "self.reset", "self._reset", "self._buffer_input", "self.run", "self._el_fill",
                      "self._n_count", "self._buffer_in", "self._buffer_out", "self.fill", "self._el_request", "self.request",
                      "self.bufsize", "self._yield_on_remainder", "self._el"])
    ix.add(Contract(AD, "FillRequest.__init__", props=["C16"],
                    cases=[init_case(r, bi, bo) for r in ("Bool", "None") for bi, bo in
                           (("Bool", "Bool"), ("None", "None"), ("Bool", "None"), ("None", "Bool"))] +
                    # `bufsize must be a natural number`: a float is accepted iff it is integral
                    [init_case("Bool", "Bool", "Bool", "Real")]))

    # ------------------------------------------------------------------ fill / request, buffer_output
    FO = dict(F, _n_count="Int", _buffer_input="Bool", _buffer_out="Lst[V]")
    ix.add_class(ClassSpec("FillRequest_out", AD, fields=FO, alias_of="FillRequest",
                           invariant=["self.bufsize >= 1", "not self._buffer_input", "0 <= self._n_count <= self.bufsize"]))
    REQ = "el_request(self._el, old(elstate(self._el)))"
    ix.add(Contract(
        AD, "FillRequest.request", qualkey="FillRequest_out.request", name="FillRequest.request[buffer_output, nothing buffered]",
        props=["C16"], ghost={"elstate": True},
        params={"self": "Self[FillRequest_out]"}, generator=True, yields="V",
        requires=["not self._yield_on_remainder", "len(self._buffer_out) == 0"],
        loops={0: LoopSpec(invariant=["len(out) == _i", "all(out[k] == %s[k] for k in range(_i))" % REQ]),
               1: LoopSpec(invariant=["_i == 0", "len(out) == _o1", "all(out[k] == %s[k] for k in range(_o1))" % REQ],
                           ghost={"_o1": "Int"}, init_ghost={"_o1": "len(out)"})},
        ensures=["old(self._n_count) < self.bufsize implies len(out) == 0 and elstate(self._el) == old(elstate(self._el)) "
                 "and self._n_count == old(self._n_count)",
                 "old(self._n_count) == self.bufsize implies len(out) == len(%s) and "
                 "all(out[k] == %s[k] for k in range(len(out)))" % (REQ, REQ),
                 "old(self._n_count) == self.bufsize implies self._n_count == 0 and elstate(self._el) == "
                 "(el_reset(self._el) if self._reset else el_request_state(self._el, old(elstate(self._el))))",
                 "len(self._buffer_out) == 0"],
        modifies=["self._n_count"]))

    FILLED = ["elstate(self._el) == el_fill(self._el, old(elstate(self._el)), value)", "self._n_count == old(self._n_count) + 1"]
    ix.add(Contract(
        AD, "FillRequest.fill", qualkey="FillRequest_out.fill", name="FillRequest.fill[buffer_output, within block]",
        props=["C16"], ghost={"elstate": True},
        params={"self": "Self[FillRequest_out]", "value": "V"},
        requires=["self._n_count < self.bufsize"],
        raises={"LenaStopFill": "el_fill_stops(self._el, elstate(self._el), value)"}, raises_frame="pure",
        ensures=FILLED + ["same(self._buffer_out, old(self._buffer_out))"],
        modifies=["self._n_count"]))
    # ------------------------------------------------------------------ fill / request, buffer_input
    FI = dict(F, _n_count="Int", _buffer_input="Bool", _buffer_in="Lst[V]")
    ix.add_class(ClassSpec("FillRequest_in", AD, fields=FI, alias_of="FillRequest",
                           invariant=["self.bufsize >= 1", "self._buffer_input", "0 <= self._n_count <= self.bufsize",
                                      "self._n_count < self.bufsize implies len(self._buffer_in) == 0"]))
    ix.add(Contract(
        AD, "FillRequest.fill", qualkey="FillRequest_in.fill", name="FillRequest.fill[buffer_input]",
        props=["C16"], ghost={"elstate": True},
        params={"self": "Self[FillRequest_in]", "value": "V"},
        raises={"LenaStopFill": "self._n_count < self.bufsize and el_fill_stops(self._el, elstate(self._el), value)"},
        raises_frame="pure",
        ensures=["old(self._n_count) < self.bufsize implies " + " and ".join(FILLED) + " and len(self._buffer_in) == 0",
                 # the element holds a complete block that was not requested yet: the value waits in the buffer, in order
                 "old(self._n_count) == self.bufsize implies elstate(self._el) == old(elstate(self._el)) and "
                 "self._n_count == old(self._n_count) and len(self._buffer_in) == old(len(self._buffer_in)) + 1 and "
                 "self._buffer_in[old(len(self._buffer_in))] == value and "
                 "all(self._buffer_in[k] == old(self._buffer_in)[k] for k in range(old(len(self._buffer_in))))"],
        modifies=["self._n_count", "self._buffer_in"]))

    # ------------------------------------------------------------------ _run_fill_compute with element states
    ARGS = "self._el, old(elstate(self._el)), content(flow), self.bufsize, {lo}, self._reset"
    START = lambda lo: "fr_start(%s)" % ARGS.format(lo=lo)
    OUTLEN = lambda lo: "fr_outlen(%s)" % ARGS.format(lo=lo)
    LO = "(_nblk - 1) * self.bufsize"
    CUR = "fold_fill_at(self._el, %s, content(flow), %s, pulled(flow) - %s)" % (START(LO), LO, LO)
    BLK = "pulled(flow) == _nblk * self.bufsize"
    # (at an exit the ghost block counter is the witness q + 1 of: len(flow) == q * bufsize + r with 0 <= r < bufsize)
    REM = "fold_fill_at(self._el, %s, content(flow), %s, len(content(flow)) - %s)" % (START(LO), LO, LO)
    # ghost call counters: every value pulled is filled once; one request per block started; a reset after each complete block iff reset
    CC = lambda nreq, nres: ["call_count('fill') == pulled(flow)", "call_count('request') == " + nreq,
                             "call_count('reset') == (%s if self._reset else 0)" % nres]
    INBLK = ["_nblk >= 1", "pulled(flow) >= 1", "elstate(self._el) == " + CUR]
    ix.add(Contract(
        AD, "FillRequest._run_fill_compute", qualkey="FillRequest._run_fill_compute#state",
        name="FillRequest._run_fill_compute[element states]", props=["C16"],
        params={"self": "Self[FillRequest]", "flow": "Iter[V]"}, generator=True, yields="V",
        requires=["pulled(flow) == 0"], ghost={"elstate": True, "call_count": True},
        raises={"LenaStopFill": "?"},
        loops={
            0: LoopSpec(invariant=CC("_nblk", "_nblk") + [BLK, "_nblk >= 0", "len(out) == " + OUTLEN("pulled(flow)"),
                                   # between blocks: the element is in the state the reference prescribes (reset iff reset is set)
                                   "elstate(self._el) == " + START("pulled(flow)")],
                        init_ghost={"_nblk": "0"}, body_ghost={"_nblk": "_nblk + 1"}, ghost={"_nblk": "Int"},
                        decreases="len(content(flow)) - pulled(flow)"),
            1: LoopSpec(invariant=CC("_nblk - 1", "_nblk - 1") + INBLK + ["1 <= nfills <= self.bufsize", "pulled(flow) == %s + nfills" % LO,
                                           "len(out) == " + OUTLEN(LO)]),
            2: LoopSpec(invariant=CC("_nblk", "_nblk - 1") + ["_nblk >= 1", "pulled(flow) >= 1", "pulled(flow) == len(content(flow))", "pulled(flow) < _nblk * self.bufsize",
                                   "pulled(flow) > " + LO, "self._yield_on_remainder", "len(out) == %s + _i" % OUTLEN(LO),
                                   "elstate(self._el) == el_request_state(self._el, %s)" % CUR]),
            3: LoopSpec(invariant=CC("_nblk", "_nblk - 1") + [BLK, "_nblk >= 1", "pulled(flow) >= 1", "len(out) == %s + _i" % OUTLEN(LO),
                                   "elstate(self._el) == el_request_state(self._el, %s)" % CUR]),
        },
        at_call={
            # every value is filled exactly once, in the order of the flow: the value filled is the one just pulled
            "fill": ["call_args[0] == content(flow)[pulled(flow) - 1]"],
            # one request per block, made when the element holds exactly the values of that block (folded in order from the
            # state the block started with) and nothing beyond the block has been pulled
            "request": ["elstate(self._el) == " + CUR,
                        "pulled(flow) == _nblk * self.bufsize or (self._yield_on_remainder and pulled(flow) == len(content(flow)) "
                        "and %s < pulled(flow) < _nblk * self.bufsize)" % LO,
                        "len(out) == " + OUTLEN(LO)],
            # reset only when reset is set, right after the request of a complete block
            "reset": ["self._reset", BLK, "elstate(self._el) == el_request_state(self._el, %s)" % CUR]},
        at_yield=[
            # the k-th result of block j sits at position (results of the blocks before) + k and is the k-th result of the
            # request made on the state folded from exactly that block
            "0 <= len(out) - %s < len(el_request(self._el, %s))" % (OUTLEN(LO), CUR),
            "yielded == el_request(self._el, %s)[len(out) - %s]" % (CUR, OUTLEN(LO)),
            "pulled(flow) <= _nblk * self.bufsize"],
        ensures=["pulled(flow) == len(content(flow))", "call_count('fill') == len(content(flow))",
                 # nothing but the results of the complete blocks, plus those of the final partial block iff yield_on_remainder
                 ("_nblk >= 1 and %s <= len(content(flow)) < %s + self.bufsize" % (LO, LO)).replace("_nblk", "local(_nblk)"),
                 ("len(out) == %s + (len(el_request(self._el, %s)) if self._yield_on_remainder and len(content(flow)) > %s else 0)" % (
                     OUTLEN(LO), REM, LO)).replace("_nblk", "local(_nblk)")],
        modifies=["flow"]))

    # ------------------------------------------------------------------ request, buffer_input
    S0 = "old(elstate(self._el))"
    B0 = "old(self._buffer_in)"
    S1 = "(el_reset(self._el) if self._reset else el_request_state(self._el, %s))" % S0
    L0 = "len(el_request(self._el, %s))" % S0
    BARGS = "self._el, %s, %s, self.bufsize, {lo}, self._reset" % (S1, B0)
    BSTART = lambda lo: "fr_start(%s)" % BARGS.format(lo=lo)
    BOUTLEN = lambda lo: "fr_outlen(%s)" % BARGS.format(lo=lo)
    BLO = "(len(%s) - len(self._buffer_in))" % B0
    BCUR = lambda k: "fold_fill_at(self._el, %s, %s, %s, %s)" % (BSTART(BLO), B0, BLO, k)
    WINV = ["buffer_in is self._buffer_in", "bufsize == self.bufsize", "self._n_count == 0",
            "len(self._buffer_in) <= len(%s)" % B0, "whole_blocks(len(self._buffer_in), self.bufsize)",
            "all(self._buffer_in[k] == %s[%s + k] for k in range(len(self._buffer_in)))" % (B0, BLO)]
    ix.add(Contract(
        AD, "FillRequest.request", qualkey="FillRequest_in.request", name="FillRequest.request[buffer_input, complete blocks]",
        props=["C16"], ghost={"elstate": True},
        params={"self": "Self[FillRequest_in]"}, generator=True, yields="V",
        # the request comes at a block boundary: the element holds a complete block and the buffer holds whole blocks
        requires=["not self._yield_on_remainder", "self._n_count == self.bufsize", "whole_blocks(len(self._buffer_in), self.bufsize)"],
        loops={0: LoopSpec(invariant=["len(out) == _i", "self._n_count == self.bufsize", "same(self._buffer_in, %s)" % B0,
                                      "elstate(self._el) == el_request_state(self._el, %s)" % S0]),
               3: LoopSpec(invariant=WINV + ["0 <= nfills <= self.bufsize", "nfills <= len(self._buffer_in)",
                                             "elstate(self._el) == " + BCUR("nfills"),
                                             "len(out) == %s + %s" % (L0, BOUTLEN(BLO))],
                           decreases="2 * len(self._buffer_in) - nfills"),
               4: LoopSpec(invariant=WINV + ["nfills == self.bufsize", "nfills <= len(self._buffer_in)",
                                             "elstate(self._el) == el_request_state(self._el, %s)" % BCUR("self.bufsize"),
                                             "len(out) == %s + %s + _i" % (L0, BOUTLEN(BLO))])},
        at_yield=["in_loop(0) implies len(out) < %s and yielded == el_request(self._el, %s)[len(out)]" % (L0, S0),
                  "not in_loop(0) implies 0 <= len(out) - %s - %s < len(el_request(self._el, %s))" % (L0, BOUTLEN(BLO), BCUR("self.bufsize")),
                  "not in_loop(0) implies yielded == el_request(self._el, %s)[len(out) - %s - %s]" % (BCUR("self.bufsize"), L0, BOUTLEN(BLO))],
        ensures=["len(out) == %s + %s" % (L0, BOUTLEN("len(%s)" % B0)),
                 "self._n_count == 0", "len(self._buffer_in) == 0",
                 "elstate(self._el) == " + BSTART("len(%s)" % B0)],
        modifies=["self._n_count", "self._buffer_in"]))

    UNREACHABLE = LoopSpec(invariant=["False"])        # (proved at the loop's entry: no execution of this case gets there)
    UNTOUCHED = ["len(out) == 0", "self._n_count == old(self._n_count)", "len(self._buffer_in) == 0"]
    ix.add(Contract(
        AD, "FillRequest.request", qualkey="FillRequest_in.request#incomplete",
        name="FillRequest.request[buffer_input, incomplete block]", props=["C16"], ghost={"elstate": True},
        params={"self": "Self[FillRequest_in]"}, generator=True, yields="V",
        # (with reset set and a partly filled element the clause fails on the unchanged tree: see below)
        requires=["not self._yield_on_remainder", "self._n_count < self.bufsize", "not self._reset or self._n_count == 0"],
        loops={0: UNREACHABLE, 4: UNREACHABLE,
               3: LoopSpec(invariant=["buffer_in is self._buffer_in", "nfills == 0", "len(out) == 0", "len(self._buffer_in) == 0",
                                      "same(self._buffer_in, old(self._buffer_in))",
                                      "self._n_count == old(self._n_count)", "elstate(self._el) == old(elstate(self._el))"],
                           decreases="2 * len(self._buffer_in) - nfills")},
        # nothing is yielded before the block is complete, and the values filled so far stay in the element
        ensures=UNTOUCHED + ["old(self._n_count) > 0 implies elstate(self._el) == old(elstate(self._el))",
                             "elstate(self._el) == old(elstate(self._el)) or (self._reset and elstate(self._el) == el_reset(self._el))"],
        modifies=[]))
    # ------------------------------------------------------------------ _run_run (run elements)
    FR = {"_el": "Obj", "_el_reset": "MethodOf[_el,reset]", "bufsize": "Int", "_reset": "Bool",
          "_yield_on_remainder": "Bool", "_buffer_input": "Bool"}
    RBLK = "pulled(flow) == _nblk * self.bufsize"
    RLO = "(_nblk - 1) * self.bufsize"
    ISBLOCK = ["len(buffer) == self.bufsize", "all(buffer[k] == content(flow)[%s + k] for k in range(self.bufsize))" % RLO]
    ix.add_class(ClassSpec("FillRequest_run_in", AD, fields=FR, alias_of="FillRequest",
                           invariant=["self.bufsize >= 1", "not self._yield_on_remainder", "self._buffer_input"]))
    RUN_IN = Contract(
        AD, "FillRequest._run_run", name="FillRequest._run_run[buffer_input]",
        ghost={"elstate": True, "call_count": True},
        params={"self": "Self[FillRequest_run_in]", "flow": "Iter[V]"}, generator=True, yields="V",
        requires=["pulled(flow) == 0"],
        loops={
            3: LoopSpec(invariant=[RBLK, "_nblk >= 0", "bufsize == self.bufsize", "pulled(flow) == 0 implies len(out) == 0",
                                   "call_count('run') == _nblk", "call_count('reset') == (_nblk if self._reset else 0)"],
                        init_ghost={"_nblk": "0", "_base": "0"}, body_ghost={"_nblk": "_nblk + 1", "_base": "len(out)"},
                        ghost={"_nblk": "Int", "_base": "Int"}, decreases="len(content(flow)) - pulled(flow)"),
            4: LoopSpec(invariant=[RBLK, "_nblk >= 1", "bufsize == self.bufsize", "len(out) == _base + _i",
                                   "call_count('run') == _nblk", "call_count('reset') == (_nblk - 1 if self._reset else 0)"] + ISBLOCK),
        },
        at_call={
            # the element runs once per complete block, on exactly the values of that block (in order), when nothing
            # beyond the block has been pulled and before anything of the block is yielded
            "run": [RBLK, "call_count('run') == _nblk - 1", "len(out) == _base", "pulled(call_args[0]) == 0", "len(content(call_args[0])) == self.bufsize",
                    "all(content(call_args[0])[k] == content(flow)[%s + k] for k in range(self.bufsize))" % RLO],
            "reset": ["self._reset", RBLK, "call_count('reset') == _nblk - 1"]},
        at_yield=[RBLK] + ISBLOCK + ["0 <= len(out) - _base < len(run_results(self._el, buffer))",
                                     "yielded == run_results(self._el, buffer)[len(out) - _base]"],
        # an incomplete last block is read but gives nothing
        ensures=["pulled(flow) == len(content(flow))", "len(content(flow)) < self.bufsize implies len(out) == 0"],
        modifies=["flow"])
    # ---- yield_on_remainder: the element gets chain([first value], islice(flow, bufsize - 1)) and pulls from the flow itself
    ix.add_class(ClassSpec("FillRequest_run_yor", AD, fields=dict(F, _buffer_input="Bool"), alias_of="FillRequest",
                           invariant=["self.bufsize >= 1", "self._yield_on_remainder"]))
    XS = "run_input(loop_iter(1))"
    YBLOCK = ["len({xs}) >= 1", "%s + len({xs}) <= len(content(flow))" % RLO, "len({xs}) <= self.bufsize",
              "len({xs}) == self.bufsize or %s + len({xs}) == len(content(flow))" % RLO,
              "all({xs}[k] == content(flow)[%s + k] for k in range(len({xs})))" % RLO]
    YBLOCK = [c.format(xs=XS) for c in YBLOCK]

    def run_yor(name, extra_requires, props):
        return Contract(
            AD, "FillRequest._run_run", name="FillRequest._run_run[yield_on_remainder%s]" % name,
            ghost={"elstate": True, "call_count": True, "run_consumes": True},
            params={"self": "Self[FillRequest_run_yor]", "flow": "Iter[V]"}, generator=True, yields="V",
            requires=["pulled(flow) == 0"] + extra_requires,
            loops={
                # every block starts at a multiple of bufsize (or the flow is exhausted)
                0: LoopSpec(invariant=["_nblk >= 0", "bufsize == self.bufsize", "call_count('run') == _nblk",
                                       RBLK + " or (pulled(flow) == len(content(flow)) and pulled(flow) < _nblk * self.bufsize)",
                                       "pulled(flow) == 0 implies len(out) == 0",
                                       "self._reset and _nblk >= 1 implies elstate(self._el) == el_reset(self._el)",
                                       "not self._reset implies elstate(self._el) == old(elstate(self._el))"],
                            init_ghost={"_nblk": "0", "_base": "0"}, body_ghost={"_nblk": "_nblk + 1", "_base": "len(out)"},
                            ghost={"_nblk": "Int", "_base": "Int"}, decreases="len(content(flow)) - pulled(flow)"),
                # the element was given exactly the values of the block (all of bufsize, or what is left of the flow)
                1: LoopSpec(invariant=["_nblk >= 1", "bufsize == self.bufsize", "call_count('run') == _nblk", "len(out) == _base + _i",
                                       "%s + 1 <= pulled(flow) <= %s + len(%s)" % (RLO, RLO, XS),
                                       "same(content(loop_iter(1)), run_results(self._el, %s))" % XS,
                                       "not self._reset implies elstate(self._el) == old(elstate(self._el))"] + YBLOCK),
            },
            at_call={"run": ["call_count('run') == _nblk - 1", "pulled(flow) == %s + 1" % RLO, "len(out) == _base"]},
            at_yield=["pulled(flow) <= _nblk * self.bufsize",
                      "0 <= len(out) - _base < len(run_results(self._el, %s))" % XS,
                      "yielded == run_results(self._el, %s)[len(out) - _base]" % XS],
            ensures=["pulled(flow) == len(content(flow))", "len(content(flow)) == 0 implies len(out) == 0"],
            modifies=["flow"])
    # the elements the property speaks about read the block they are given to its end
    RUN_YOR = run_yor("", ["reads_all(self._el)"], None)
    ix.add(Contract(AD, "FillRequest._run_run", props=["C16"], cases=[RUN_IN, RUN_YOR]))
    # ------------------------------------------------------------------ FillRequestSeq / FillComputeSeq / FillSeq wiring
    FRS = "lena/core/fill_request_seq.py"
    FCS = "lena/core/fill_compute_seq.py"
    FS = "lena/core/fill_seq.py"
    AFTER = "seq_run(self._after._data_seq, {src}, len(self._after._data_seq))"
    # a Sequence as FillRequestSeq.request sees it: its truth value is len(self._seq) != 0 (LenaSequence.__len__), its run
    # goes over _data_seq, the elements of _seq that process data (LenaSequence.__init__ drops the others: invariant)
    LS = "lena/core/lena_sequence.py"
    ix.add_class(ClassSpec("Sequence_t", "lena/core/sequence.py", fields={"_data_seq": "Lst[Obj]", "_seq": "Lst[Obj]"},
                           alias_of="Sequence", bases=["LenaSequence"], invariant=["len(self._data_seq) <= len(self._seq)"]))
    # The truth value of a sequence is `len(self._seq) != 0` (LenaSequence.__len__): pyvc no longer takes an instance of a
    # class with __len__ / __bool__ for true.  The Sequence view of C01 gets the field that decides it, and the two Source views
    # whose tail is a Sequence get what Source.__init__ establishes (a Sequence tail is only made from >= 1 elements), so that
    # `if self._tail:` in Source.__call__ is decided as before -- now from a stated invariant instead of an engine shortcut.
    if "Sequence" in ix.classes:
        ix.classes["Sequence"].fields.setdefault("_seq", "Lst[Obj]")
        for view in ("Source_with_tail", "Source_iterable"):
            if view in ix.classes and "len(self._tail._seq) >= 1" not in ix.classes[view].invariant:
                ix.classes[view].invariant.append("len(self._tail._seq) >= 1")
    ix.add(Contract(LS, "LenaSequence.__len__", props=["C16", "C01"], params={"self": "Self[Sequence]"}, result="Int",
                    ensures=["result == len(self._seq)"]))
    ix.add_class(ClassSpec("FillRequestSeq", FRS, fields={"_fill_request": "Obj", "_after": "Inst[Sequence_t]"}))
    ix.add(Contract(
        FRS, "FillRequestSeq.request", props=["C16"], ghost={"elstate": True, "call_count": True},
        params={"self": "Self[FillRequestSeq]"}, result="Iter[V]",
        requires=["len(self._after._data_seq) <= len(self._after._seq)"],      # (the invariant of the Sequence view)
        # `Request the results ...; if the sequence after FillRequest is not empty, it postprocesses the results`:
        # one request of the element per request, its results pass through the elements that follow it, in order
        ensures=["pulled(result) == 0",
                 "same(content(result), %s)" % AFTER.format(src="el_request(self._fill_request, old(elstate(self._fill_request)))"),
                 "elstate(self._fill_request) == el_request_state(self._fill_request, old(elstate(self._fill_request)))",
                 "call_count('request') == 1", "call_count('reset') == 0", "call_count('fill') == 0"]))
    ix.add(Contract(
        FRS, "FillRequestSeq.reset", props=["C16"], ghost={"elstate": True, "call_count": True},
        params={"self": "Self[FillRequestSeq]"},
        ensures=["elstate(self._fill_request) == el_reset(self._fill_request)", "call_count('reset') == 1",
                 "call_count('request') == 0", "call_count('fill') == 0"]))
    ix.add_class(ClassSpec("FillComputeSeq", FCS, fields={"_fill_compute": "Obj", "_after": "Inst[Sequence_t]"}))
    ix.add(Contract(
        FCS, "FillComputeSeq.compute", props=["C16"], ghost={"elstate": True, "call_count": True},
        params={"self": "Self[FillComputeSeq]"}, result="Iter[V]",
        ensures=["pulled(result) == 0",
                 "same(content(result), %s)" % AFTER.format(src="el_compute(self._fill_compute, elstate(self._fill_compute))"),
                 "elstate(self._fill_compute) == old(elstate(self._fill_compute))", "call_count('compute') == 1"]))
    # a preprocessing step of FillSeq (the `fill` of FillRequestSeq / FillComputeSeq): the value is transformed once by
    # the FillInto adapter of a callable and fills the next element once
    ix.add_class(ClassSpec("_Fill", FS, fields={"_fill_into_el": "Inst[FillInto1]", "_fill_el": "Obj"}))
    ix.add(Contract(
        FS, "_Fill.fill", props=["C16"], ghost={"elstate": True},
        params={"self": "Self[_Fill]", "value": "V"},
        raises={"LenaStopFill": "?"},
        ensures=["elstate(self._fill_el) == el_fill(self._fill_el, old(elstate(self._fill_el)), el_call(self._fill_into_el._el, value))"]))
    # ------------------------------------------------------------------ clauses of the property that FAIL on the unchanged tree
    # (known_findings.json, C16; registered with props=[]: they are not part of the check of C16, run them with tools/dbg.py)
    # (1) fill() past a complete block with buffer_output: `every call returns in finite time` -- the results of the block
    #     are to be buffered, the element (reset iff reset) takes the value.  The real code extends _buffer_out by a
    #     generator that iterates _buffer_out itself.
    ix.add(Contract(
        AD, "FillRequest.fill", qualkey="FillRequest_out.fill#past-full-block",
        name="FillRequest.fill[buffer_output, past a complete block] (FAILS: known finding)",
        props=[], ghost={"elstate": True},
        params={"self": "Self[FillRequest_out]", "value": "V"},
        requires=["self._n_count == self.bufsize", "len(self._buffer_out) == 0", "not self._yield_on_remainder"],
        raises={"LenaStopFill": "?"},
        ensures=["len(self._buffer_out) == len(%s)" % REQ,
                 "all(self._buffer_out[k] == %s[k] for k in range(len(self._buffer_out)))" % REQ,
                 "elstate(self._el) == el_fill(self._el, %s, value)" % S1, "self._n_count == 1"],
        modifies=["self._n_count", "self._buffer_out"]))
    # (2) request() before the block is complete (buffer_input, reset): `every value is accounted for exactly once` -- the
    #     values filled so far must stay in the element.  The real code resets the element at the end of request().
    ix.add(Contract(
        AD, "FillRequest.request", qualkey="FillRequest_in.request#partly-filled",
        name="FillRequest.request[buffer_input, partly filled element] (FAILS: known finding)", props=[], ghost={"elstate": True},
        params={"self": "Self[FillRequest_in]"}, generator=True, yields="V",
        requires=["not self._yield_on_remainder", "0 < self._n_count < self.bufsize"],
        loops={0: UNREACHABLE, 4: UNREACHABLE,
               3: LoopSpec(invariant=["buffer_in is self._buffer_in", "nfills == 0", "len(out) == 0", "len(self._buffer_in) == 0",
                                      "same(self._buffer_in, old(self._buffer_in))",
                                      "self._n_count == old(self._n_count)", "elstate(self._el) == old(elstate(self._el))"],
                           decreases="2 * len(self._buffer_in) - nfills")},
        ensures=UNTOUCHED + ["elstate(self._el) == old(elstate(self._el))"],
        modifies=[]))
    # (3) request() with a partial block waiting in the input buffer: the complete block is yielded, the buffered values move
    #     into the element exactly once, counted (so that the next fills complete THIS block).  The real code fills them into
    #     the element, keeps them in the buffer as well, does not count them and (reset) clears the element.
    ix.add(Contract(
        AD, "FillRequest.request", qualkey="FillRequest_in.request#partial-buffer",
        name="FillRequest.request[buffer_input, partial block buffered] (FAILS: known finding)", props=[], ghost={"elstate": True},
        params={"self": "Self[FillRequest_in]"}, generator=True, yields="V",
        requires=["not self._yield_on_remainder", "self._n_count == self.bufsize", "0 < len(self._buffer_in) < self.bufsize"],
        loops={0: LoopSpec(invariant=["len(out) == _i", "self._n_count == self.bufsize", "same(self._buffer_in, %s)" % B0,
                                      "elstate(self._el) == el_request_state(self._el, %s)" % S0]),
               4: UNREACHABLE,
               3: LoopSpec(invariant=["buffer_in is self._buffer_in", "bufsize == self.bufsize", "0 <= nfills <= len(self._buffer_in)",
                                      "same(self._buffer_in, %s)" % B0, "len(out) == " + L0, "self._n_count == 0",
                                      "elstate(self._el) == fold_fill_at(self._el, %s, %s, 0, nfills)" % (S1, B0)],
                           decreases="2 * len(self._buffer_in) - nfills")},
        ensures=["len(out) == " + L0, "self._n_count == len(%s)" % B0, "len(self._buffer_in) == 0",
                 "elstate(self._el) == fold_fill_at(self._el, %s, %s, 0, len(%s))" % (S1, B0, B0)],
        modifies=["self._n_count", "self._buffer_in"]))
    # (4) run() around a run element that stops reading its block early (e.g. lena.flow.Slice(1)), yield_on_remainder: `yields
    #     block by block ... for each consecutive block of n values` -- every block must start at a multiple of bufsize.
    #     The real code starts the next block where the element stopped reading.  (buffer_output: not reached, see the report)
    PART = run_yor(", element may stop reading early] (FAILS: known finding)", [], None)
    PART.qualkey = "FillRequest._run_run#partial-consumer"
    PART.props = []
    ix.add(PART)
    # (5) NEW (docstring of FillRequest.__init__: with yield_on_remainder `the output will be yielded even if the element was
    #     filled less than bufsize times (but at least once)`; run(): `nothing is yielded` for no fill): request() of an element
    #     that holds no value yields nothing.  The real code calls el.request() unconditionally when yield_on_remainder is set.
    ix.add(Contract(
        AD, "FillRequest.request", qualkey="FillRequest_out.request#yor-empty",
        name="FillRequest.request[yield_on_remainder, nothing filled] (FAILS: new finding)", props=[], ghost={"elstate": True},
        params={"self": "Self[FillRequest_out]"}, generator=True, yields="V",
        requires=["self._yield_on_remainder", "self._n_count == 0", "len(self._buffer_out) == 0"],
        loops={0: UNREACHABLE, 1: LoopSpec(invariant=["_i == 0", "len(out) == 0"]), 2: LoopSpec(invariant=["len(out) == _i"])},
        ensures=["len(out) == 0", "elstate(self._el) == old(elstate(self._el))"],
        modifies=[]))
