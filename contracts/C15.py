"""C15 -- selectors evaluate compositionally.  Sidecar contracts of lena/flow/selectors.py.

A leaf selector is an abstract callable: el_call(leaf, v) is what it returns, el_call_raises(leaf, v) whether it raises."""
from pyvc.contracts import Contract, LoopSpec, ClassSpec

SE = "lena/flow/selectors.py"
RAISES = "el_call_raises(self._selector, value)"


def register(ix):
    ix.add_class(ClassSpec("Selector", SE, fields={"_selector": "Obj", "_raise_on_error": "Bool"}))
    ix.add(Contract(
        SE, "Selector.__call__", props=["C15"], inline=True,
        params={"self": "Self[Selector]", "value": "V"}, result="Any",
        # with raise_on_error the leaf's exception propagates, otherwise it counts as "not selected"
        raises={"Exception": "self._raise_on_error and %s" % RAISES},
        ensures=["not %s implies result is el_call(self._selector, value)" % RAISES,
                 "%s implies result is False" % RAISES]))
    ix.add_class(ClassSpec("Not", SE, fields={"_selector": "Obj", "_raise_on_error": "Bool"}, bases=["Selector"]))
    ix.add(Contract(
        SE, "Not.__call__", props=["C15"],
        params={"self": "Self[Not]", "value": "V"}, result="Bool",
        raises={"Exception": "self._raise_on_error and %s" % RAISES},
        ensures=["not %s implies result == (not el_call(self._selector, value))" % RAISES,
                 "%s implies result == True" % RAISES]))      # full negation: an error counts as "not selected", negated
    for cls, q in (("And", "all"), ("Or", "any")):
        ix.add_class(ClassSpec(cls, SE, fields={"_selectors": "Lst[Obj]"}))
        ix.add(Contract(
            SE, "%s.__call__" % cls, props=["C15"],
            params={"self": "Self[%s]" % cls, "val": "V"}, result="Bool",
            ensures=["result == %s(el_call(self._selectors[k], val) for k in range(len(self._selectors)))" % q],
            notes="members are Selector objects that handle their own errors (raise_on_error is given to each at construction)"))
