"""C13 -- static context: ownership obligations.  Sidecar contracts of lena/core/lena_sequence.py, lena/core/split.py,
lena/meta/elements.py, lena/output/make_filename.py.

"No later or sibling element can change what an earlier element saw": a sequence hands the SAME dictionary on to later
elements (SetContext updates it in place), so every consumer must retain a deep copy, every exported context must be a
deep copy, and a Split must hand every branch its own deep copy.  `is_deep_copy(x)`: x was made by copy.deepcopy during
the call (shares no mutable object, at any depth, with what existed before)."""
from pyvc.contracts import Contract, LoopSpec, ClassSpec

LS = "lena/core/lena_sequence.py"
SP = "lena/core/split.py"
ME = "lena/meta/elements.py"
MF = "lena/output/make_filename.py"


def getctx(file, cls):
    return Contract(
        file, "%s._get_context" % cls, props=["C13"],
        cases=[
            Contract(file, "%s._get_context" % cls, name="%s._get_context[context set]" % cls,
                     params={"self": "Self[%s_set]" % cls}, result="Dict",
                     ensures=["result == self._static_context", "is_deep_copy(result)"]),
            Contract(file, "%s._get_context" % cls, name="%s._get_context[unresolved key]" % cls,
                     params={"self": "Self[%s_exc]" % cls}, result="Dict",
                     raises={"LenaKeyError": "True"}),
        ])


def register(ix):
    for file, cls in ((LS, "LenaSequence"), (ME, "SetContext")):
        ix.add_class(ClassSpec("%s_set" % cls, file, fields={"_static_context": "Dict"}, alias_of=cls))
        ix.add_class(ClassSpec("%s_exc" % cls, file, fields={"_exc": "Exc[LenaKeyError]"}, alias_of=cls))
        ix.add(getctx(file, cls))
    # consumers keep a deep copy of what they are given
    for file, cls, field in ((ME, "StoreContext", "context"), (ME, "UpdateContextFromStatic", "_context"),
                             (MF, "MakeFilename", "_context")):
        ix.add_class(ClassSpec(cls + "_c", file, fields={}, alias_of=cls))
        ix.add(Contract(file, "%s._set_context" % cls, props=["C13"],
                        params={"self": "Self[%s_c]" % cls, "context": "Dict"}, result=None,
                        ensures=["self.%s == context" % field, "is_deep_copy(self.%s)" % field,
                                 "context == old(context)"],
                        modifies=["self." + field]))
    # a Split hands every branch its own deep copy
    ix.add_class(ClassSpec("LenaSplit", SP, fields={"_seqs": "Lst[Obj]"}))
    ix.add(Contract(SP, "LenaSplit._set_context", props=["C13"],
                    params={"self": "Self[LenaSplit]", "context": "Dict"}, result=None,
                    raises={"LenaKeyError": "?"}, ghost={"elstate": True},
                    loops={0: LoopSpec(invariant=["context == old(context)"])},
                    at_call={"_set_context": ["is_deep_copy(call_args[0])", "made_in_iteration(call_args[0], 0)",
                                              "call_args[0] == context"]},
                    ensures=["context == old(context)"]))
    register_split_export(ix)


# ---------------------------------------------------------------------------------------------------- Split exports
def register_split_export(ix):
    """LenaSplit._get_context: the intersection of the contexts of ALL branches that have one (also empty contexts)"""
    from pyvc.smt import T
    from pyvc.sym import Opaque
    from pyvc.speclib import lst_term
    from pyvc.dicts import dterm

    CF = "lena/context/functions.py"

    def sp_inter_all(ip, st, pos, kws):
        """inter_all(cs): lena.context.intersection of the list of dictionaries cs (reference: greatest common
        sub-dictionary; its own contract is the subject of C07)"""
        reg = ip.reg
        reg.need_val()
        ls = reg.lst("Val")
        f = reg.ufun("inter_all", [ls], "Val")
        return Opaque(T("(%s %s)" % (f, lst_term(ip, st, pos[0], ls).s), "Val"))

    def sp_branch_contexts(ip, st, pos, kws):
        """branch_contexts(seqs, n): [s._get_context() for s in seqs[:n] if hasattr(s, '_get_context')] in branch order"""
        from pyvc.builtins_ import obj_preds
        from pyvc.calls import elem_state
        reg = ip.reg
        reg.need_val()
        obj_preds(ip)
        ls, lo = reg.lst("Val"), reg.lst("Obj")
        reg.need("St")
        reg.ufun("el_getctx", ["Obj", "St"], "Val")
        k = reg.key("_get_context").s
        reg.fun_decl("branch_contexts",
                     "(define-fun-rec branch_contexts ((ss {lo}) (es (Array Obj St)) (n Int)) {ls} "
                     "(ite (<= n 0) {empty} "
                     "(let ((p (branch_contexts ss es (- n 1))) (s (select (arr_{lo} ss) (- n 1)))) "
                     "(ite (has_attr_Obj s {k}) "
                     "(mk_{ls} (store (arr_{ls} p) (len_{ls} p) (el_getctx s (select es s))) (+ (len_{ls} p) 1)) p))))".format(
                         lo=lo, ls=ls, k=k, empty=reg.l_empty_canonical(ls).s))
        if "$elst" not in st.env:
            elem_state(ip, st, Opaque(reg.new("anyel", "Obj")))
        return ip.lst_view(T("(branch_contexts %s %s %s)" % (lst_term(ip, st, pos[0], lo).s, st.env["$elst"].t.s,
                                                               ip.num(pos[1]).s), ls))

    ix.spec_names["inter_all"] = sp_inter_all
    ix.spec_names["branch_contexts"] = sp_branch_contexts
    inter = Contract(CF, "intersection", name="intersection[list of dictionaries]", props=[], trusted=True,
                     qualkey="intersection#variadic",
                     params={"dicts": "Lst[Val]"}, result="Dict",
                     ensures=["result == inter_all(dicts)"],
                     notes="assumed at the call in LenaSplit._get_context: what intersection computes is the subject of C07")
    ix.add(inter)
    if (CF, "intersection") not in ix.by_key:
        ix.by_key[(CF, "intersection")] = inter        # (P_ctx.py registers the verified 2-dictionary contract under this key)
    ix.add(Contract(
        SP, "LenaSplit._get_context", props=["C13"],
        params={"self": "Self[LenaSplit]"}, result="Dict", ghost={"elstate": True},
        local_types={"contexts": "Lst[Val]"},
        raises={"LenaKeyError": "?"},
        loops={0: LoopSpec(invariant=["same(contexts, branch_contexts(self._seqs, _i))"])},
        # a Split exports the intersection of its branches' contexts: every branch that has a context counts, also an
        # empty one (a branch that sets nothing makes the intersection empty)
        ensures=["result == inter_all(branch_contexts(self._seqs, len(self._seqs)))"]))
