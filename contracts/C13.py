"""C13 -- static context: ownership obligations.  Sidecar contracts of lena/core/lena_sequence.py, lena/core/split.py,
lena/meta/elements.py, lena/output/make_filename.py.

"No later or sibling element can change what an earlier element saw": a sequence hands the SAME dictionary on to later
elements (SetContext updates it in place), so every consumer must retain a deep copy, every exported context must be a
deep copy, and a Split must hand every branch its own deep copy.  `is_deep_copy(x)`: x was made by copy.deepcopy during
the call (shares no mutable object, at any depth, with what existed before)."""
from pyvc.contracts import Contract, LoopSpec, ClassSpec

LS = "lena/core/lena_sequence.py"
SP = "lena/core/split.py"
ME = "lena/meta/elements.py"
MF = "lena/output/make_filename.py"


def getctx(file, cls):
    return Contract(
        file, "%s._get_context" % cls, props=["C13"],
        cases=[
            Contract(file, "%s._get_context" % cls, name="%s._get_context[context set]" % cls,
                     params={"self": "Self[%s_set]" % cls}, result="Dict",
                     ensures=["result == self._static_context", "is_deep_copy(result)"]),
            Contract(file, "%s._get_context" % cls, name="%s._get_context[unresolved key]" % cls,
                     params={"self": "Self[%s_exc]" % cls}, result="Dict",
                     raises={"LenaKeyError": "True"}),
        ])


def register(ix):
    for file, cls in ((LS, "LenaSequence"), (ME, "SetContext")):
        ix.add_class(ClassSpec("%s_set" % cls, file, fields={"_static_context": "Dict"}, alias_of=cls))
        ix.add_class(ClassSpec("%s_exc" % cls, file, fields={"_exc": "Exc[LenaKeyError]"}, alias_of=cls))
        ix.add(getctx(file, cls))
    # consumers keep a deep copy of what they are given
    for file, cls, field in ((ME, "StoreContext", "context"), (ME, "UpdateContextFromStatic", "_context"),
                             (MF, "MakeFilename", "_context")):
        ix.add_class(ClassSpec(cls + "_c", file, fields={}, alias_of=cls))
        ix.add(Contract(file, "%s._set_context" % cls, props=["C13"],
                        params={"self": "Self[%s_c]" % cls, "context": "Dict"}, result=None,
                        ensures=["self.%s == context" % field, "is_deep_copy(self.%s)" % field,
                                 "context == old(context)"],
                        modifies=["self." + field]))
    # a Split hands every branch its own deep copy
    ix.add_class(ClassSpec("LenaSplit", SP, fields={"_seqs": "Lst[Obj]"}))
    ix.add(Contract(SP, "LenaSplit._set_context", props=["C13"],
                    params={"self": "Self[LenaSplit]", "context": "Dict"}, result=None,
                    raises={"LenaKeyError": "?"}, ghost={"elstate": True},
                    loops={0: LoopSpec(invariant=["context == old(context)"])},
                    at_call={"_set_context": ["is_deep_copy(call_args[0])", "made_in_iteration(call_args[0], 0)",
                                              "call_args[0] == context"]},
                    ensures=["context == old(context)"]))
