"""C14 -- variables.  Sidecar contracts of lena/variables/variable.py.

Proved: Variable.__call__ returns getter(data), keeps the value's context object, changes nothing of it but
context.variable, and hands a DEEP COPY of its own var_context to _update_context (so applying a variable never changes
the variable: repeated application gives equal results).  The dictionary surgery of _update_context (compose lists,
type sub-contexts) stores Python lists inside the context, which the Val encoding does not model: its frame is an
assumed contract here and its content is the bounded part of C14."""
from pyvc.contracts import Contract, LoopSpec, ClassSpec

VA = "lena/variables/variable.py"
FRAME = "all_keys(lambda k: k == 'variable' or item({new}, k) == item({old}, k))"


def register(ix):
    ix.add_class(ClassSpec("Variable", VA, fields={"getter": "Obj", "var_context": "Dict"},
                           invariant=["isdict(self.var_context)"]))
    ix.add(Contract(
        VA, "Variable._update_context", props=[], trusted=True,
        params={"context": "Dict", "var_context": "Dict"}, result=None,
        # ownership: the callee stores var_context inside the value's context, so the caller must give it a deep copy
        requires=["is_deep_copy(var_context)", "isdict(context)"],
        ensures=["isdict(context)", FRAME.format(new="context", old="old(context)")],
        modifies=["context"], self_class="static",
        notes="assumed frame of the static method (only context['variable'] is assigned); content bounded"))
    ix.add(Contract(
        VA, "Variable.__call__", props=["C14"], dict_model="Val",
        cases=[
            Contract(VA, "Variable.__call__", name="Variable.__call__[(data, context)]", dict_model="Val",
                     params={"self": "Self[Variable]", "value": "Tuple[V,Dict]"}, result="Tuple[V,Dict]",
                     requires=["isdict(value[1])"],
                     ensures=["result[0] == el_call(self.getter, value[0])",
                              "result[1] is value[1]",
                              FRAME.format(new="result[1]", old="old(value[1])"),
                              "self.var_context == old(self.var_context)"],
                     modifies=["value[1]"]),
            Contract(VA, "Variable.__call__", name="Variable.__call__[bare data]", dict_model="Val",
                     params={"self": "Self[Variable]", "value": "V"}, result="Tuple[V,Dict]",
                     requires=["not v_has_context(value)"],
                     ensures=["result[0] == el_call(self.getter, value)",
                              FRAME.format(new="result[1]", old="emptydict()"),
                              "self.var_context == old(self.var_context)"]),
        ]))
    # ------------------------------------------------------------------ getters of Compose and Combine (nested functions)
    ix.add_class(ClassSpec("Compose", VA, fields={"_vars": "Lst[Obj]"}))
    ix.add(Contract(
        VA, "Compose.__init__.getter", props=["C14"],
        params={"value": "V"}, closure={"self": "Self[Compose]"}, result="V",
        loops={0: LoopSpec(invariant=["value == compose_getters(self._vars, old(value), _i)"])},
        # Compose(v1..vn) produces vn.getter(...v1.getter(x)...)
        ensures=["result == compose_getters(self._vars, value, len(self._vars))"]))

