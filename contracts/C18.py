"""C18 -- Cache replays exactly the stored flow and never serves a truncated one.
Sidecar contracts of lena/flow/cache.py over the ghost file system (DESIGN 2.3): fs maps a path to `absent` or to the
sequence of pickled values; open / pickle.dump / pickle.load / os.replace / os.remove / os.access are library contracts.

Crash points: `on_abandon` clauses are proved for the generator being abandoned at EVERY yield (the consumer stops after
k values, or a downstream element raises -> GeneratorExit at the yield), `exc_ensures[UpstreamError]` for an upstream
element raising while the next value is pulled -- after running through the function's own try/finally."""
from pyvc.contracts import Contract, LoopSpec, ClassSpec

CA = "lena/flow/cache.py"
# The generators are suspended at every yield while other code runs; an element shared by two pipelines may get a new
# static context (and with it a new `_filename`) meanwhile -- ghost `suspended_changes`.  The flow being stored was computed
# under the name the Cache had when the run started: every clause speaks about NAME = old(self._filename).
NAME = "old(self._filename)"
PART = "(old(self._filename) + '.part')"
SUSP = {"fs": True, "suspended_changes": ["self._filename"]}


def register(ix):
    ix.add_class(ClassSpec("Cache", CA, fields={
        "_filename": "Str", "_recompute": "Bool", "protocol": "Int",
        "_dump": "Lib[pickle.dump]", "_load": "Lib[pickle.load]"}))
    UNTOUCHED = ["fs_entry(" + NAME + ") == old(fs_entry(self._filename))",      # no truncated cache: the old state stays
                 "not fs_exists(%s)" % PART]
    ix.add(Contract(
        CA, "Cache._dump_flow_and_yield", props=["C18"],
        params={"self": "Self[Cache]", "flow": "Iter[V]"}, generator=True, yields="V",
        ghost=SUSP, upstream_raises=True,
        requires=["pulled(flow) == 0"],
        loops={0: LoopSpec(invariant=[
            "len(out) == _i", "pulled(flow) == _i",
            "all(out[k] == content(flow)[k] for k in range(_i))",
            # the values seen so far are in the temporary file; the cache name still holds what it held before
            "fs_exists(%s)" % PART, "len(fs_content(%s)) == _i" % PART,
            "all(fs_content(%s)[k] == content(flow)[k] for k in range(_i))" % PART,
            "fs_entry(" + NAME + ") == old(fs_entry(self._filename))",
            "not complete"])},
        at_yield=["pulled(flow) == len(out) + 1",           # laziness (C02): one value pulled per value handed on
                  "yielded is val"],                       # the flow passes unaltered
        # the first complete run stores the whole flow under the cache name
        ensures=["len(out) == len(content(flow))",
                 "all(out[k] == content(flow)[k] for k in range(len(out)))",
                 "fs_exists(" + NAME + ")", "len(fs_content(" + NAME + ")) == len(content(flow))",
                 "all(fs_content(" + NAME + ")[k] == content(flow)[k] for k in range(len(content(flow))))",
                 "not fs_exists(%s)" % PART],
        on_abandon=UNTOUCHED,
        raises={"UpstreamError": "?"}, exc_ensures={"UpstreamError": UNTOUCHED},
        modifies=["flow", "fs"]))
    ix.add(Contract(
        CA, "Cache._load_flow", props=["C18"],
        params={"self": "Self[Cache]"}, generator=True, yields="V", ghost={"fs": True},
        requires=["fs_exists(self._filename)"],
        loops={0: LoopSpec(
            invariant=["f.pos == len(out)", "len(out) <= len(fs_content(self._filename))",
                       "all(out[k] == fs_content(self._filename)[k] for k in range(len(out)))",
                       "fs() == old(fs())"],
            decreases="len(fs_content(self._filename)) - len(out)")},
        ensures=["len(out) == len(fs_content(self._filename))",
                 "all(out[k] == fs_content(self._filename)[k] for k in range(len(out)))"]))
    ix.add(Contract(
        CA, "Cache.cache_exists", props=["C18"],
        params={"self": "Self[Cache]"}, result="Bool", ghost={"fs": True},
        ensures=["result == (not self._recompute and fs_exists(self._filename))"]))
    ix.add(Contract(
        CA, "Cache.run", props=["C18", "C02"],
        params={"self": "Self[Cache]", "flow": "Iter[V]"}, result="Iter[V]", ghost={"fs": True},
        requires=["pulled(flow) == 0"],
        ensures=[
            # a later run replays exactly the stored values and does not pull a single value from upstream
            "not self._recompute and old(fs_exists(self._filename)) implies pulled(flow) == 0 and fs() == old(fs()) and "
            "len(content(result)) == len(old(fs_content(self._filename))) and "
            "all(content(result)[k] == old(fs_content(self._filename))[k] for k in range(len(content(result))))",
            # otherwise (first run, recompute=True, or dropped cache) the incoming flow passes unaltered
            "self._recompute or not old(fs_exists(self._filename)) implies len(content(result)) == len(content(flow)) and "
            "all(content(result)[k] == content(flow)[k] for k in range(len(content(result))))"],
        modifies=["flow", "fs"]))
    ix.add(Contract(
        CA, "Cache.drop_cache", props=["C18"],
        params={"self": "Self[Cache]"}, result=None, ghost={"fs": True},
        raises={"OSError": "not fs_exists(self._filename)"},
        ensures=["not fs_exists(self._filename)"],
        modifies=["fs"]))
