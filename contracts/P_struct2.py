"""sidecar contracts (see tools/CONTRACTS_GUIDE.md)

P_struct2 -- helpers of the graph / histogram structures that the contracts of P_hist*.py / P_sib.py / P_sel.py execute in
place or assume (properties C12, C06, C11): graph._get_err_indices, graph._parse_error_names, graph.__add__, graph.__eq__,
graph.rows / __iter__, Graph (deprecated), histogram.__eq__, lena.math.utils.clip / _isclose, lena.math.meshes."""
from pyvc.contracts import Contract, LoopSpec, ClassSpec
from contracts.P_hist2 import GR, HF, HI, gname, graph_fields, graph_inv, GRAPH_SHAPES, is_err, belongs

MU = "lena/math/utils.py"
MM = "lena/math/meshes.py"


def register(ix):
    register_err_indices(ix)
    register_parse_error_names(ix)
    register_graph_add(ix)
    register_graph_eq(ix)
    register_graph_iter(ix)
    register_utils(ix)
    register_hist_eq(ix)
    register_unify(ix)
    register_md_map3(ix)
    register_flatten(ix)
    register_Graph(ix)
    register_mesh(ix)
    register_refine_mesh(ix)
    register_example_bin_numbers(ix)


# ---------------------------------------------------------------------------------------------- graph._get_err_indices
def subsets(e):
    for m in range(2 ** e):
        yield [k for k in range(e) if m >> k & 1]


def register_err_indices(ix):
    """graph._get_err_indices docstring: `Get error indices corresponding to a coordinate.`  C12: `the last coordinate and
    its error columns`.  The error columns of a coordinate are the fields number dim + k whose parsed error (established by
    graph.__init__: `_parsed_error_names[k][1]` names THE coordinate the k-th error field belongs to) names that
    coordinate: the result lists exactly those column numbers, in increasing order, each once."""
    cases = []
    for d, e in GRAPH_SHAPES:
        ens = []
        belongs = lambda k: "self._parsed_error_names[%d][1] == coord_name" % k
        for sub in subsets(e):
            hyp = " and ".join(("(%s)" if k in sub else "not (%s)") % belongs(k) for k in range(e)) or "True"
            ens.append("(%s) implies len(result) == %d" % (hyp, len(sub)))
            for pos, k in enumerate(sub):
                ens.append("(%s) implies result[%d] == %d" % (hyp, pos, d + k))
        ens.append("is_fresh(result)")
        cases.append(Contract(
            GR, "graph._get_err_indices", name="graph._get_err_indices[%d coordinates, %d error fields]" % (d, e),
            params={"self": "Self[%s]" % gname(d, e, True), "coord_name": "Str"}, result="Lst[Int]",
            ensures=ens, modifies=[]))
    ix.add(Contract(GR, "graph._get_err_indices", props=["C12"], qualkey="graph._get_err_indices#contract", cases=cases))


# ---------------------------------------------------------------------------------------------- graph._parse_error_names
def register_parse_error_names(ix):
    """graph.__init__ docstring: `Error fields must go after all other coordinates.  Name of a coordinate error is "error_"
    appended by coordinate name.  Further error details are appended after '_'` (+ `each field name must be unique`, which
    __init__ checks before it parses).  For field names of a given shape (d coordinates, then e error fields, pairwise
    different coordinate names): LenaValueError iff some error field belongs to no coordinate or to several; otherwise one
    entry ("error", coordinate, details, column) per error field, in order, naming THE coordinate it belongs to.
    For any naming: the method returns only if no error field precedes a coordinate field."""
    cases = []
    fn = lambda k: "field_names[%d]" % k
    for d, e in GRAPH_SHAPES:
        n = d + e
        shape = ["not " + is_err(fn(k)) for k in range(d)] + [is_err(fn(k)) for k in range(d, n)]
        shape += ["%s != %s" % (fn(a), fn(b)) for a in range(d) for b in range(a + 1, d)]
        count = lambda k: " + ".join("(1 if %s else 0)" % belongs(fn(d + k), fn(c)) for c in range(d))
        badname = " or ".join("(%s) != 1" % count(k) for k in range(e)) or "False"
        ens = ["len(result) == %d" % e]
        for k in range(e):
            pe = "result[%d]" % k
            ens += ["%s[0] == 'error'" % pe, "%s[3] == %d" % (pe, d + k),
                    "(" + " or ".join("%s[1] == %s" % (pe, fn(c)) for c in range(d)) + ")"]
            ens += ["%s implies %s[1] == %s" % (belongs(fn(d + k), fn(c)), pe, fn(c)) for c in range(d)]
            ens.append("%s[2] == %s[6:][len(%s[1]) + 1:]" % (pe, fn(d + k), pe))
        cases.append(Contract(
            GR, "graph._parse_error_names", name="graph._parse_error_names[%d coordinates, %d error fields]" % (d, e),
            params={"self": "Self[graph0]", "field_names": "Tuple[%s]" % ",".join(["Str"] * n)},
            result="PyList[%d,Tuple[Str,Str,Str,Int]]" % e, requires=shape,
            raises={"LenaValueError": badname}, ensures=ens, modifies=[]))
    for n in (2, 3, 4):
        misordered = " or ".join("(%s and not %s)" % (is_err(fn(i)), is_err(fn(j))) for i in range(n) for j in range(i + 1, n))
        cases.append(Contract(
            GR, "graph._parse_error_names", name="graph._parse_error_names[%d fields in any naming]" % n,
            params={"self": "Self[graph0]", "field_names": "Tuple[%s]" % ",".join(["Str"] * n)}, result="Any",
            requires=["%s != %s" % (fn(a), fn(b)) for a in range(n) for b in range(a + 1, n)],          # checked by __init__ before
            raises={"LenaValueError": "?"}, ensures=["not (%s)" % misordered], modifies=[]))
    ix.add(Contract(GR, "graph._parse_error_names", props=["C12"], qualkey="graph._parse_error_names#contract", cases=cases,
                    ghost={"select_by_requires": True}))


# ---------------------------------------------------------------------------------------------- graph.__add__
def register_graph_add(ix):
    """graph.__add__ docstring: `Add last (highest) coordinates of two graphs.  A new graph is returned.  Error fields are
    ignored.`  C12 (arithmetic keeps every cell): every point kept once and in order, the other coordinates are those of
    self, the last coordinate is the pointwise sum, the operands are unchanged and share no list with the result.  The
    scale of a sum of two graphs of known scale is the sum of the scales (linearity of whatever norm the scale is),
    unknown otherwise.  The graphs must have the same dimension and the same number of points (the `assert`s)."""
    cases = []
    # graphs without error fields, as graph.__init__ admits them: the names of the coordinates are no error names
    sname = lambda d, scaled: "graphS_%dc0e_%s" % (d, "scaled" if scaled else "unscaled")
    for d in (1, 2, 3):
        for scaled in (True, False):
            ix.add_class(ClassSpec(sname(d, scaled), GR, alias_of="graph", fields=graph_fields(d, 0, "Real" if scaled else "None"),
                                   invariant=graph_inv(d, 0) + ["not " + is_err("self.field_names[%d]" % k) for k in range(d)]))
    for d in (1, 2, 3):
        for s0 in (True, False):
            for s1 in (True, False):
                both = s0 and s1
                req = ["len(other.coords[%d]) == len(self.coords[%d])" % (k, k) for k in range(d)]
                req += ["len(self.coords[%d]) == len(self.coords[0])" % k for k in range(1, d)]
                ens = ["result is not self", "result is not other", "result.dim == %d" % d,
                       "result.field_names == self.field_names",
                       "result._scale == self._scale + other._scale" if both else "result._scale is None"]
                for k in range(d):
                    ens.append("len(result.coords[%d]) == len(self.coords[%d])" % (k, k))
                    ens.append("is_fresh(result.coords[%d])" % k)
                    if k < d - 1:
                        ens.append("all(result.coords[%d][i] == self.coords[%d][i] for i in range(len(self.coords[%d])))" % (k, k, k))
                    else:
                        ens.append("all(result.coords[%d][i] == self.coords[%d][i] + other.coords[%d][i] "
                                   "for i in range(len(self.coords[%d])))" % (k, k, k, k))
                ens.append("is_fresh(result.coords)")
                cases.append(Contract(
                    GR, "graph.__add__", name="graph.__add__[%d coordinates, scale %s + scale %s]"
                    % (d, "known" if s0 else "unknown", "known" if s1 else "unknown"),
                    params={"self": "Self[%s]" % sname(d, s0), "other": "Inst[%s]" % sname(d, s1)},
                    result="Inst[%s]" % sname(d, both), requires=req, ensures=ens, modifies=[]))
    # (comment in the source: `emulating numeric types`) a value that is no graph: NotImplemented, nothing is changed
    for other, what in (("Real", "a number"), ("None", "None"), ("Lst[Real]", "a list of numbers")):
        cases.append(Contract(
            GR, "graph.__add__", name="graph.__add__[2 coordinates, other: %s]" % what,
            params={"self": "Self[%s]" % sname(2, True), "other": other}, result="Sentinel[builtins.NotImplemented]",
            ensures=["result is NotImplemented"], modifies=[]))
    ix.add(Contract(GR, "graph.__add__", props=["C12"], cases=cases))
    # FINDING (props=[]: fails on the unchanged tree): `Error fields are ignored` -- a graph with an error field cannot be
    # added at all: the new graph gets dim columns but all the field names, and graph.__init__ raises LenaValueError
    ix.add_class(ClassSpec("graphS_2c1e_scaled", GR, alias_of="graph", fields=graph_fields(2, 1, "Real"),
                           invariant=graph_inv(2, 1) + ["not " + is_err("self.field_names[0]"), "not " + is_err("self.field_names[1]"),
                                                        is_err("self.field_names[2]")]))
    from contracts.P_hist2 import add_cases
    # docstring of graph.__init__: `field_names must have as many elements as coords ... In case of incorrect initialization
    # arguments, LenaTypeError or LenaValueError is raised`
    add_cases(ix, (GR, "graph.__init__"), [Contract(
        GR, "graph.__init__", name="graph.__init__[2 coords, 3 field names]",
        params={"self": "Self[graph0]", "coords": "PyList[2,Lst[Real]]", "field_names": "Tuple[Str,Str,Str]", "scale": "Real"},
        defaults={"scale": None}, raises={"LenaValueError": "True"},
        modifies=["self.coords", "self._scale", "self.field_names", "self._parsed_error_names", "self._coord_names", "self.dim"])])
    ix.add(Contract(GR, "graph.__add__", props=[], qualkey="graph.__add__#error fields are ignored", cases=[Contract(
        GR, "graph.__add__", name="graph.__add__[2 coordinates, 1 error field: a new graph is returned]",
        params={"self": "Self[graphS_2c1e_scaled]", "other": "Inst[graphS_2c1e_scaled]"}, result="Any",
        requires=["len(other.coords[%d]) == len(self.coords[0])" % k for k in range(3)]
        + ["len(self.coords[%d]) == len(self.coords[0])" % k for k in range(1, 3)],
        ensures=["result is not self", "result is not other"], modifies=[])]))


# ---------------------------------------------------------------------------------------------- graph.__eq__
def col_eq(a, b):
    return "(len(%s) == len(%s) and all(%s[i] == %s[i] for i in range(len(%s))))" % (a, b, a, b, a)


def register_graph_eq(ix):
    """graph.__eq__ docstring: `Two graphs are equal, if and only if they have equal coordinates, field names and scales.
    If other is not a graph, return False.`"""
    cases = []
    for d, e in GRAPH_SHAPES:
        n = d + e
        for s0 in (True, False):
            for s1 in (True, False):
                eq = [col_eq("self.coords[%d]" % k, "other.coords[%d]" % k) for k in range(n)]
                eq += ["self.field_names[%d] == other.field_names[%d]" % (k, k) for k in range(n)]
                if s0 and s1:
                    eq.append("self._scale == other._scale")
                elif s0 != s1:
                    eq.append("False")
                cases.append(Contract(
                    GR, "graph.__eq__", name="graph.__eq__[%d coordinates, %d error fields, scale %s, other: the same shape, scale %s]"
                    % (d, e, "known" if s0 else "unknown", "known" if s1 else "unknown"),
                    params={"self": "Self[%s]" % gname(d, e, s0), "other": "Inst[%s]" % gname(d, e, s1)}, result="Bool",
                    ensures=["result == (%s)" % " and ".join(eq)], modifies=[]))
    for d, e in GRAPH_SHAPES:
        for other, what in (("Real", "a number"), ("None", "None"), ("Lst[Real]", "a list of numbers")):
            cases.append(Contract(
                GR, "graph.__eq__", name="graph.__eq__[%d coordinates, %d error fields, other: %s]" % (d, e, what),
                params={"self": "Self[%s]" % gname(d, e, True), "other": other}, result="Bool",
                ensures=["result == False"], modifies=[]))
    # graphs of different shapes are not equal
    for (d, e), (d2, e2) in (((2, 0), (3, 0)), ((2, 0), (1, 1)), ((2, 1), (2, 0)), ((1, 0), (2, 0)), ((2, 2), (3, 1))):
        cases.append(Contract(
            GR, "graph.__eq__", name="graph.__eq__[%d coordinates, %d error fields, other: %d coordinates, %d error fields]" % (d, e, d2, e2),
            params={"self": "Self[%s]" % gname(d, e, True), "other": "Inst[%s]" % gname(d2, e2, True)}, result="Bool",
            ensures=(["result == False"] if d + e != d2 + e2 else []), modifies=[]))
    ix.add(Contract(GR, "graph.__eq__", props=["C12"], cases=cases))


# ---------------------------------------------------------------------------------------------- graph.__iter__, graph.rows
def register_graph_iter(ix):
    """graph.__iter__ docstring: `Iterate graph coords one by one` (class docstring: `A graph can be iterated yielding tuples
    of numbers for each point`; `Numeric arrays of equal size`); graph.rows: `Return an iterable on rows of the graph.  Each
    row is a tuple of graph coordinates.`  C12 (conversions keep every cell once and in order): point number k is
    (coords[0][k], ..., coords[n-1][k]), one tuple per point, in order; the graph is not changed."""
    cases, rcases = [], []
    for d, e in GRAPH_SHAPES:
        n = d + e
        pt = "(%s,)" % ", ".join("self.coords[%d][k]" % c for c in range(n))
        eqlen = ["len(self.coords[%d]) == len(self.coords[0])" % c for c in range(1, n)]
        body = " and ".join("out[k][%d] == self.coords[%d][k]" % (c, c) for c in range(n))
        cases.append(Contract(
            GR, "graph.__iter__", name="graph.__iter__[%d coordinates, %d error fields]" % (d, e),
            params={"self": "Self[%s]" % gname(d, e, True)}, generator=True, yields="Tuple[%s]" % ",".join(["Real"] * n),
            requires=eqlen,
            loops={0: LoopSpec(invariant=["len(out) == _i0", "all(%s for k in range(len(out)))" % body])},
            at_yield=["len(yielded) == %d" % n] + ["yielded[%d] == self.coords[%d][len(out)]" % (c, c) for c in range(n)],
            out_def=("len(self.coords[0])", "k", pt),
            ensures=["len(out) == len(self.coords[0])", "all(out[k] == %s for k in range(len(out)))" % pt], modifies=[]))
    ix.add(Contract(GR, "graph.__iter__", props=["C12"], cases=cases))
    for d, e in GRAPH_SHAPES:
        n = d + e
        pt = "(%s,)" % ", ".join("self.coords[%d][k]" % c for c in range(n))
        rcases.append(Contract(
            GR, "graph.rows", name="graph.rows[%d coordinates, %d error fields]" % (d, e),
            params={"self": "Self[%s]" % gname(d, e, True)}, result="Iter[Tuple[%s]]" % ",".join(["Real"] * n),
            requires=["len(self.coords[%d]) == len(self.coords[0])" % c for c in range(1, n)],
            ensures=["len(content(result)) == len(self.coords[0])", "pulled(result) == 0",
                     "all(content(result)[k] == %s for k in range(len(self.coords[0])))" % pt], modifies=[]))
    ix.add(Contract(GR, "graph.rows", props=["C12"], cases=rcases))


# ---------------------------------------------------------------------------------------------- lena.math.utils clip, _isclose
def register_utils(ix):
    """clip docstring: `Given an interval (a_min, a_max), values of a outside the interval are clipped to the interval edges.
    ... If a_min > a_max or if interval has length more than 2, LenaValueError is raised.  If interval is not a container,
    LenaTypeError is raised.`
    _isclose (histogram.add's edge tolerance; isclose docstring: `rel_tol is the relative tolerance.  It is multiplied by the
    greater of the magnitudes of the two arguments ... abs_tol is the absolute tolerance.  If the difference is less than
    either of those tolerances, the values are considered equal`, PEP 485): abs(a-b) <= max(rel_tol*max(|a|,|b|), abs_tol),
    symmetric in a and b."""
    from contracts.P_hist import CLOSE
    CLIPPED = "(interval[0] if a < interval[0] else (interval[1] if a > interval[1] else a))"
    ix.add(Contract(MU, "clip", props=["C06"], cases=[
        Contract(MU, "clip", name="clip[number, (a_min, a_max)]", params={"a": "Real", "interval": "Tuple[Real,Real]"},
                 result="Real", raises={"LenaValueError": "interval[0] > interval[1]"},
                 ensures=["result == " + CLIPPED, "interval[0] <= result and result <= interval[1]"], modifies=[]),
        Contract(MU, "clip", name="clip[number, list of numbers]", params={"a": "Real", "interval": "Lst[Real]"},
                 result="Real", raises={"LenaValueError": "len(interval) != 2 or interval[0] > interval[1]"},
                 ensures=["result == " + CLIPPED, "interval[0] <= result and result <= interval[1]"], modifies=[]),
        Contract(MU, "clip", name="clip[number, three numbers]", params={"a": "Real", "interval": "Tuple[Real,Real,Real]"},
                 result="Real", raises={"LenaValueError": "True"}, modifies=[]),
        Contract(MU, "clip", name="clip[number, one number]", params={"a": "Real", "interval": "Tuple[Real]"},
                 result="Real", raises={"LenaValueError": "True"}, modifies=[]),
        Contract(MU, "clip", name="clip[number, interval is a number]", params={"a": "Real", "interval": "Real"},
                 result="Real", raises={"LenaTypeError": "True"}, modifies=[]),
    ]))
    ix.add(Contract(MU, "_isclose", props=["C12"], qualkey="_isclose#contract", cases=[
        Contract(MU, "_isclose", name="_isclose[numbers]",
                 params={"a": "Real", "b": "Real", "rel_tol": "Real", "abs_tol": "Real"}, result="Bool",
                 defaults={"rel_tol": 1e-09, "abs_tol": 0.0},
                 ensures=["result == " + CLOSE.format(a="a", b="b"), "result == " + CLOSE.format(a="b", b="a"),
                          "(a == b and (rel_tol >= 0 or abs_tol >= 0)) implies result",
                          "(rel_tol <= 0 and abs_tol <= 0 and a != b) implies not result"], modifies=[])]))


# ---------------------------------------------------------------------------------------------- histogram.__eq__
def register_hist_eq(ix):
    """histogram.__eq__ docstring: `Two histograms are equal, if and only if they have equal bins, edges and numbers of
    outliers.  If other is not a histogram, return False.`  (nothing else: the cached scale does not take part)"""
    E1 = col_eq("self.bins", "other.bins") + " and " + col_eq("self.edges", "other.edges") \
        + " and self.n_out_of_range == other.n_out_of_range"
    cases = [Contract(HI, "histogram.__eq__", name="histogram.__eq__[1-d histograms]",
                      params={"self": "Self[histogram_any]", "other": "Inst[histogram_any]"}, result="Bool",
                      ensures=["result == (%s)" % E1], modifies=[])]
    # ... whatever the cached scales
    for a, b in (("histogram_scaled", "histogram"), ("histogram_scaled", "histogram_scaled"), ("histogram", "histogram_scaled")):
        cases.append(Contract(HI, "histogram.__eq__", name="histogram.__eq__[1-d: %s == %s]" % (a, b),
                              params={"self": "Self[%s]" % a, "other": "Inst[%s]" % b}, result="Bool",
                              ensures=["result == (%s)" % E1], modifies=[]))
    C2 = lambda a, b: "(len(%s) == len(%s) and all(%s for i in range(len(%s))))" % (
        a, b, "(len({a}[i]) == len({b}[i]) and all({a}[i][j] == {b}[i][j] for j in range(len({a}[i]))))".format(a=a, b=b), a)
    E2 = C2("self.bins", "other.bins") + " and " + col_eq("self.edges[0]", "other.edges[0]") + " and " \
        + col_eq("self.edges[1]", "other.edges[1]") + " and self.n_out_of_range == other.n_out_of_range"
    cases.append(Contract(HI, "histogram.__eq__", name="histogram.__eq__[2-d histograms]",
                          params={"self": "Self[histogram2_any]", "other": "Inst[histogram2_any]"}, result="Bool",
                          ensures=["result == (%s)" % E2], modifies=[]))
    for other, what in (("Real", "a number"), ("None", "None"), ("Lst[Real]", "a list of numbers")):
        cases.append(Contract(HI, "histogram.__eq__", name="histogram.__eq__[1-d histogram, other: %s]" % what,
                              params={"self": "Self[histogram_any]", "other": other}, result="Bool",
                              ensures=["result == False"], modifies=[]))
    ix.add(Contract(HI, "histogram.__eq__", props=["C12"], cases=cases))


# ---------------------------------------------------------------------------------------------- unify_1_md
def register_unify(ix):
    """unify_1_md docstring: `Return a tuple of (bins, edges).  Bins and multidimensional edges return unchanged, while
    one-dimensional edges are inserted into a list.`  (executed in place by the contracts of P_hist.py)"""
    cases = []
    for bt, what in (("Lst[Real]", "numbers"), ("Lst[V]", "cells")):
        cases.append(Contract(
            HF, "unify_1_md", name="unify_1_md[1-d bins of %s, 1-d edges]" % what, params={"bins": bt, "edges": "Lst[Real]"},
            result="Tuple[%s,PyList[1,Lst[Real]]]" % bt, requires=["len(edges) >= 1"],
            ensures=["result[0] is bins", "len(result[1]) == 1", "result[1][0] is edges", "is_fresh(result[1])"], modifies=[]))
    for n in (2, 3):
        nest = "Lst[Real]"
        for _ in range(n - 1):
            nest = "Lst[%s]" % nest
        ety = "PyList[%d,Lst[Real]]" % n
        cases.append(Contract(
            HF, "unify_1_md", name="unify_1_md[%d-d bins, %d-d edges]" % (n, n), params={"bins": nest, "edges": ety},
            result="Tuple[%s,%s]" % (nest, ety),
            ensures=["result[0] is bins", "result[1] is edges", "len(result[1]) == %d" % n], modifies=[]))
    ix.add(Contract(HF, "unify_1_md", props=["C12", "C06"], qualkey="unify_1_md#contract", cases=cases))


# ---------------------------------------------------------------------------------------------- md_map (3-d, wrong arguments)
def register_md_map3(ix):
    """md_map docstring (quoted in P_hist2.register_md_map, which proves the 1- and 2-dimensional cases): `An item of arrays
    must be a list of (possibly nested) lists.  Its contents remain unchanged.  Returned array has same dimensions as those
    of the initial ones ...  If any of arrays is not a list, LenaTypeError is raised.`  Here: 3-dimensional arrays (C12:
    `all 1- to 3-dimensional histograms`; the recursive call on the planes uses the 2-dimensional clauses proved in
    md_map#contract) and the arguments that are no lists."""
    from contracts.P_hist2 import add_cases
    cur = ix.by_key[(MM, "md_map#contract")]
    assumed2 = Contract(MM, "md_map", props=[], trusted=True,
                        cases=[Contract(MM, "md_map", name=c.name, trusted=True, vararg="arrays", params=dict(c.params), result=c.result,
                                        requires=list(c.requires), ensures=list(c.ensures), modifies=[]) for c in cur.cases[:4]],
                        notes="the clauses of md_map#contract (proved there)")
    A1, A2 = "arrays[0]", "arrays[1]"
    L3 = "Lst[Lst[Lst[Real]]]"
    SH = ["len(result) == len(%s)" % A1, "all(len(result[i]) == len(%s[i]) for i in range(len(result)))" % A1,
          "all(all(len(result[i][j]) == len(%s[i][j]) for j in range(len(result[i]))) for i in range(len(result)))" % A1]
    ALL3 = "all(all(all({body} for k in range(len(result[i][j]))) for j in range(len(result[i]))) for i in range(len(result)))"
    new = [
        Contract(MM, "md_map", name="md_map[f, one 3-d list]", vararg="arrays",
                 params={"f": "Fn[Real,Real]", "arrays": "Tuple[%s]" % L3}, result=L3,
                 ensures=SH + [ALL3.format(body="result[i][j][k] == f(%s[i][j][k])" % A1)], modifies=[],
                 ghost={"fold_literals": True, "assumed_callees": {"md_map": assumed2}}),
        Contract(MM, "md_map", name="md_map[f, two 3-d lists]", vararg="arrays",
                 params={"f": "Fn[Real,Real,Real]", "arrays": "Tuple[%s,%s]" % (L3, L3)}, result=L3,
                 requires=["len(%s) >= len(%s)" % (A2, A1),
                           "all(len(%s[i]) >= len(%s[i]) for i in range(len(%s)))" % (A2, A1, A1),
                           "all(all(len(%s[i][j]) >= len(%s[i][j]) for j in range(len(%s[i]))) for i in range(len(%s)))"
                           % (A2, A1, A1, A1)],
                 ensures=SH + [ALL3.format(body="result[i][j][k] == f(%s[i][j][k], %s[i][j][k])" % (A1, A2))], modifies=[],
                 ghost={"fold_literals": True, "assumed_callees": {"md_map": assumed2}}),
        Contract(MM, "md_map", name="md_map[f, a number]", vararg="arrays",
                 params={"f": "Fn[Real,Real]", "arrays": "Tuple[Real]"}, result="Any",
                 raises={"LenaTypeError": "True"}, modifies=[], ghost={"fold_literals": True}),
        Contract(MM, "md_map", name="md_map[f, a list and a number]", vararg="arrays",
                 params={"f": "Fn[Real,Real,Real]", "arrays": "Tuple[Lst[Real],Real]"}, result="Any",
                 raises={"LenaTypeError": "len(arrays[0]) > 0"}, modifies=[], ghost={"fold_literals": True}),
        Contract(MM, "md_map", name="md_map[f, a tuple of numbers]", vararg="arrays",
                 params={"f": "Fn[Real,Real]", "arrays": "Tuple[Tuple[Real,Real]]"}, result="Any",
                 raises={"LenaTypeError": "True"}, modifies=[], ghost={"fold_literals": True}),
    ]
    add_cases(ix, (MM, "md_map#contract"), new)
    # `md_map keeps the nested shape` is also the mechanism behind C11 (MapBins: `a histogram of identical shape ... whose
    # every cell is the sequence applied to the corresponding cell`): the same cases, checked with that property as well
    import copy
    ix.add(Contract(MM, "md_map", props=["C11"], qualkey="md_map#contract (C11)", cases=[copy.copy(c) for c in cur.cases]))


# ---------------------------------------------------------------------------------------------- lena.math.meshes.flatten
def register_flatten(ix):
    """flatten docstring: `Flatten an array of arbitrary dimension.  array must be list or a tuple (can be nested).
    Depth-first flattening is used.  Return an iterator over the flattened array.  >>> list(flatten(arr)) == arr` for a
    flat list: every number once, in order; the array is not changed."""
    cases = [Contract(
        MM, "flatten", name="flatten[list of numbers]", params={"array": "Lst[Real]"}, generator=True, yields="Real",
        loops={0: LoopSpec(invariant=["len(out) == _i0", "all(out[k] == array[k] for k in range(len(out)))"])},
        at_yield=["yielded == array[len(out)]"], out_def=("len(array)", "k", "array[k]"),
        ensures=["len(out) == len(array)", "all(out[k] == array[k] for k in range(len(out)))"], modifies=[])]
    # rectangular 2-dimensional list (the bins of a 2-dimensional histogram): row by row (depth first); number k is the
    # cell (ri2(ny, k), ci2(ny, k)) of the row-major enumeration (reference functions of P_hist2.register_iter_bins_2d).
    # The recursive call on a row uses the clauses of the flat case above.
    flat = Contract(MM, "flatten", props=[], trusted=True, cases=[Contract(
        MM, "flatten", name="flatten[list of numbers]", trusted=True, params={"array": "Lst[Real]"}, generator=True, yields="Real",
        out_def=("len(array)", "k", "array[k]"),
        ensures=["len(out) == len(array)", "all(out[k] == array[k] for k in range(len(out)))"], modifies=[])],
        notes="the clauses of flatten#contract[list of numbers] (proved there)")
    NY = "len(array[0])"
    R, C = "ri2(%s, k)" % NY, "ci2(%s, k)" % NY
    cell = "out[k] == array[{r}][{c}] and 0 <= {r} < len(array) and 0 <= {c} < {ny}".format(r=R, c=C, ny=NY)
    ALLK = "all(%s for k in range(len(out)))" % cell
    L = "len(out) - 1"
    last = lambda r, c: "ri2(%s, %s) == %s and ci2(%s, %s) == %s" % (NY, L, r, NY, L, c)
    cases.append(Contract(
        MM, "flatten", name="flatten[rectangular 2-d list of numbers]", params={"array": "Lst[Lst[Real]]"}, generator=True,
        yields="Real", ghost={"assumed_callees": {"flatten": flat}},
        requires=["len(array) >= 1", "len(array[0]) >= 1", "all(len(array[i]) == len(array[0]) for i in range(len(array)))"],
        loops={0: LoopSpec(invariant=["len(out) == (_i0 * len(array[0]))", "_i0 <= len(array)", ALLK,
                                      "_i0 > 0 implies " + last("_i0 - 1", NY + " - 1"),
                                      "ri2(%s, len(out)) == _i0 and ci2(%s, len(out)) == 0" % (NY, NY)]),
               1: LoopSpec(invariant=["len(out) == (_i0 * len(array[0])) + _i1", "_i1 <= " + NY, "_i0 < len(array)",
                                      "_i1 < %s implies ri2(%s, len(out)) == _i0 and ci2(%s, len(out)) == _i1" % (NY, NY, NY),
                                      "_i1 == %s implies ri2(%s, len(out)) == _i0 + 1 and ci2(%s, len(out)) == 0" % (NY, NY, NY),
                                      ALLK,
                                      "_i1 > 0 implies " + last("_i0", "_i1 - 1"),
                                      "_i1 == 0 and _i0 > 0 implies " + last("_i0 - 1", NY + " - 1")])},
        at_yield=["yielded == array[ri2(%s, len(out))][ci2(%s, len(out))]" % (NY, NY)],
        out_def=("(len(array) * len(array[0]))", "k", "array[%s][%s]" % (R, C)),
        ensures=["len(out) == (len(array) * len(array[0]))",
                 "all(out[k] == array[%s][%s] for k in range(len(out)))" % (R, C),
                 "all(0 <= %s < len(array) and 0 <= %s < %s for k in range(len(out)))" % (R, C, NY)], modifies=[]))
    ix.add(Contract(MM, "flatten", props=["C12"], qualkey="flatten#contract", cases=cases))


# ---------------------------------------------------------------------------------------------- lena.math.meshes.mesh
def register_mesh(ix):
    """mesh docstring: `Generate equally spaced mesh of nbins cells in the given range.  ranges: a pair of (min, max) values
    for 1-dimensional range, or a list of ranges in corresponding dimensions.  nbins: number of bins for 1-dimensional
    range, or a list of number of bins in corresponding dimensions.  >>> mesh((0, 1), 2) [0, 0.5, 1]`: nbins + 1 edges, the
    first is min, the last is max (exactly), edge k is min + k * (max - min) / nbins (over the reals)."""
    EDGE = "{r}[k] == {lo} + k * (({hi} - {lo}) / {n})"
    def one(r, lo, hi, n):
        return ["len(%s) == %s + 1" % (r, n), "%s[0] == %s" % (r, lo), "%s[%s] == %s" % (r, n, hi),
                "all(%s for k in range(%s))" % (EDGE.format(r=r, lo=lo, hi=hi, n=n), n),
                # edges for a histogram (C06: `strictly increasing finite edges`): increasing whenever min < max
                "%s < %s implies all(%s[k] < %s[k + 1] for k in range(%s))" % (lo, hi, r, r, n)]
    cases = [Contract(
        MM, "mesh", name="mesh[(min, max), nbins]", params={"ranges": "Tuple[Real,Real]", "nbins": "Int"}, result="Lst[Real]",
        requires=["nbins >= 1"], ensures=one("result", "ranges[0]", "ranges[1]", "nbins") + ["is_fresh(result)"], modifies=[])]
    for dim in (1, 2, 3):
        ens = ["len(result) == %d" % dim, "is_fresh(result)"]
        for d in range(dim):
            ens += one("result[%d]" % d, "ranges[%d][0]" % d, "ranges[%d][1]" % d, "nbins[%d]" % d)
        for seq in ("Tuple", "PyList"):
            nty = "Tuple[%s]" % ",".join(["Int"] * dim) if seq == "Tuple" else "PyList[%d,Int]" % dim
            cases.append(Contract(
                MM, "mesh", name="mesh[%d ranges, %s of %d nbins]" % (dim, "tuple" if seq == "Tuple" else "list", dim),
                params={"ranges": "Tuple[%s]" % ",".join(["Tuple[Real,Real]"] * dim), "nbins": nty},
                result="PyList[%d,Lst[Real]]" % dim, requires=["nbins[%d] >= 1" % d for d in range(dim)], ensures=ens, modifies=[]))
    ix.add(Contract(MM, "mesh", props=["C06"], cases=cases))


# ---------------------------------------------------------------------------------------------- Graph (deprecated element)
def register_Graph(ix):
    """The deprecated `Graph` element (views `Graph` / `Graph_s`, the precondition and the raise conditions of
    Graph._update: contracts/P_acc2.py).  Class docstring: `One can get graph points as Graph.points attribute.  They will be
    sorted each time before return if sort was set to True.`"""
    import contracts.P_acc2 as A
    from contracts.P_acc2 import VM, CDIM
    CS = "self._cur_context.get('scale')"
    upd = ix.by_key[(GR, "Graph._update")]
    cases = []
    for uc, view in zip(upd.cases, ("Graph", "Graph_s")):
        cases.append(Contract(
            GR, "Graph.points", name="Graph.points[%s]" % view, params={"self": "Self[%s]" % view}, result="Lst[V]",
            ghost={"v_members": VM}, requires=list(uc.requires), raises=dict(uc.raises),
            ensures=["same(result, self._points)",
                     "self._sort implies same(result, sorted_of(old(self._points)))",
                     "not self._sort implies same(result, old(self._points))",
                     "self._cur_context == old(self._cur_context)"],
            modifies=list(uc.modifies)))
    ix.add(Contract(GR, "Graph.points", props=["C12"], cases=cases))
    # ---- scale(): `If other is None, return the scale. ... If one attempts to use scale which was not set,
    # LenaAttributeError is raised.`  (a scale found in the context of the flow is taken over first: Graph._update)
    scases = []
    for uc, view in zip(upd.cases, ("Graph", "Graph_s")):
        none_of = " and ".join("not (%s)" % v for v in uc.raises.values())
        final = "(%s if %s is not None else self._scale)" % (CS, CS)
        scases.append(Contract(
            GR, "Graph.scale", name="Graph.scale[get, %s]" % view, params={"self": "Self[%s]" % view, "other": "None"},
            defaults={"other": None}, result="None" if view == "Graph" else "Val",
            ghost={"v_members": VM}, requires=list(uc.requires),
            raises=dict(uc.raises, LenaAttributeError=none_of if view == "Graph" else "%s and %s is None" % (none_of, final)),
            ensures=["self._cur_context == old(self._cur_context)"]
            + (["result == old(%s)" % final, "result is not None", "self._scale == result"] if view == "Graph_s" else []),
            modifies=list(uc.modifies)))
    ix.add(Contract(GR, "Graph.scale", props=["C12"], cases=scases))
    # ---- __eq__ (no docstring of its own; as for graph.__eq__: equal points and equal scales; other kinds of values: False)
    ecases = []
    uc = upd.cases[1]
    oreq = [r.replace("self.", "other.") for r in uc.requires] + ["isdict(other._cur_context)", "other is not self"]
    PTS = lambda g: "(sorted_of(old(%s._points)) if %s._sort else old(%s._points))" % (g, g, g)
    FIN = lambda g: "old(%s._cur_context.get('scale') if %s._cur_context.get('scale') is not None else %s._scale)" % (g, g, g)
    # (two Graphs: not reached -- needs `sorted(sorted(xs)) == sorted(xs)` and has_vitem of sorted points, see the report)
    for other, what in (("Real", "a number"), ("None", "None"), ("Lst[Real]", "a list of numbers")):
        ecases.append(Contract(GR, "Graph.__eq__", name="Graph.__eq__[Graph_s, other: %s]" % what,
                               params={"self": "Self[Graph_s]", "other": other}, result="Bool",
                               ensures=["result == False"], modifies=[]))
    ix.add(Contract(GR, "Graph.__eq__", props=["C12"], cases=ecases))
    # ---- rows: `Each row is a flat tuple of coordinates and their values` -- the nested function that flattens one point
    # (coordinate, value), both of which may be tuples of numbers
    ucases = []
    for nc in (0, 1, 2, 3):
        for nv in (0, 1, 2):
            cty = "Real" if nc == 0 else "Tuple[%s]" % ",".join(["Real"] * nc)
            vty = "Real" if nv == 0 else "Tuple[%s]" % ",".join(["Real"] * nv)
            flat = (["pt[0]"] if nc == 0 else ["pt[0][%d]" % i for i in range(nc)]) + \
                (["pt[1]"] if nv == 0 else ["pt[1][%d]" % i for i in range(nv)])
            ucases.append(Contract(
                GR, "Graph.rows.unpack_pt", name="Graph.rows.unpack_pt[coordinate: %s, value: %s]"
                % ("a number" if nc == 0 else "%d numbers" % nc, "a number" if nv == 0 else "%d numbers" % nv),
                params={"pt": "Tuple[%s,%s]" % (cty, vty)}, result="Tuple[%s]" % ",".join(["Real"] * len(flat)),
                ensures=["len(result) == %d" % len(flat)] + ["result[%d] == %s" % (i, f) for i, f in enumerate(flat)],
                modifies=[]))
    ix.add(Contract(GR, "Graph.rows.unpack_pt", props=["C12"], cases=ucases))
    # ---- _rescale_value (Graph.scale: `rescale to other`; comment in Graph.__init__: `By default, it is multiplication of
    # rescale and the value (which must be a number)`; a (data, context) pair is rescaled in its data part)
    ix.add(Contract(GR, "_rescale_value", props=["C12"], cases=[
        Contract(GR, "_rescale_value", name="_rescale_value[number]", params={"rescale": "Real", "value": "Real"},
                 result="Real", ensures=["result == rescale * value"], modifies=[]),
        Contract(GR, "_rescale_value", name="_rescale_value[(number, context)]", dict_model="Val",
                 params={"rescale": "Real", "value": "Tuple[Real,Dict]"}, requires=["isdict(value[1])"],
                 result="Real", ensures=["result == rescale * value[0]"], modifies=[])]))


# ---------------------------------------------------------------------------------------------- lena.math.meshes.refine_mesh
def register_refine_mesh(ix):
    """refine_mesh docstring: `Refine (subdivide) one-dimensional mesh arr.  refinement is the number of subdivisions.  It
    must be not less than 1.`: every cell [arr[c], arr[c+1]] is cut into `refinement` equal parts; every old edge is kept
    (exactly) at position c * refinement, in order; arr is not changed."""
    R = "refinement"
    INNER = ("all(all({m}[c * %s + k + 1] == arr[c] + (k + 1) * ((arr[c + 1] - arr[c]) / %s) for k in range(%s - 1)) "
             "for c in range({n}))" % (R, R, R))
    OLD = "all({m}[(c + 1) * %s] == arr[c + 1] for c in range({n}))" % R
    def contract(inner, **kw):
        return Contract(
            MM, "refine_mesh", params={"arr": "Lst[Real]", "refinement": "Int"}, result="Lst[Real]",
            requires=["len(arr) >= 1", "refinement >= 1"],
            loops={0: LoopSpec(ghost={"new_mesh": "Lst[Real]"},
                               invariant=["len(new_mesh) == 1 + _i * %s" % R, "new_mesh[0] == arr[0]", "_i <= len(arr) - 1",
                                          OLD.format(m="new_mesh", n="_i")] +
                               # (arithmetic the solvers do not find by themselves: the cells before cell _i end before
                               #  position _i * refinement)
                               (["all((c + 1) * %s <= _i * %s for c in range(_i))" % (R, R),
                                 INNER.format(m="new_mesh", n="_i")] if inner else []))},
            ensures=["len(result) == 1 + (len(arr) - 1) * %s" % R, "result[0] == arr[0]",
                     OLD.format(m="result", n="len(arr) - 1"), "is_fresh(result)"] +
            ([INNER.format(m="result", n="len(arr) - 1")] if inner else []), modifies=[], **kw)
    ix.add(contract(False, props=["C06"]))
    # the points inside the cells (equally spaced): the preservation of this invariant is UNDECIDED (index arithmetic
    # c * refinement + k with two symbolic factors under a quantifier: no solver instantiates it) -- kept out of the property
    ix.add(contract(True, props=[], qualkey="refine_mesh#inner points", name="refine_mesh[inner points equally spaced]"))




# ---------------------------------------------------------------------------------------------- get_example_bin (numbers)
def register_example_bin_numbers(ix):
    """get_example_bin docstring: `Return bin with zero index on each axis of the histogram bins.  For example, if the
    histogram is two-dimensional, return hist[0][0].  struct can be a histogram or an array of bins.`  Histograms and
    arrays whose cells are numbers (P_sib.py proves the cases whose cells are flow values; P_sel.py ASSUMES the case of an
    abstract histogram -- not reached here, see the report)."""
    cases = [
        Contract(HF, "get_example_bin", name="get_example_bin[1-d histogram of numbers]",
                 params={"struct": "Inst[histogram_any]"}, result="Real", ensures=["result == struct.bins[0]"], modifies=[]),
        Contract(HF, "get_example_bin", name="get_example_bin[2-d histogram of numbers]", ghost={"fold_literals": True},
                 params={"struct": "Inst[histogram2_any]"}, result="Real", ensures=["result == struct.bins[0][0]"], modifies=[]),
        Contract(HF, "get_example_bin", name="get_example_bin[list of numbers]",
                 params={"struct": "Lst[Real]"}, result="Real", requires=["len(struct) >= 1"],
                 ensures=["result == struct[0]"], modifies=[]),
        Contract(HF, "get_example_bin", name="get_example_bin[2-d list of numbers]",
                 params={"struct": "Lst[Lst[Real]]"}, result="Real", requires=["len(struct) >= 1", "len(struct[0]) >= 1"],
                 ensures=["result == struct[0][0]"], modifies=[]),
        Contract(HF, "get_example_bin", name="get_example_bin[3-d list of numbers]",
                 params={"struct": "Lst[Lst[Lst[Real]]]"}, result="Real",
                 requires=["len(struct) >= 1", "len(struct[0]) >= 1", "len(struct[0][0]) >= 1"],
                 ensures=["result == struct[0][0][0]"], modifies=[]),
        Contract(HF, "get_example_bin", name="get_example_bin[a number]",
                 params={"struct": "Real"}, result="Real", ensures=["result == struct"], modifies=[]),
    ]
    ix.add(Contract(HF, "get_example_bin", qualkey="get_example_bin#numbers", props=["C11", "C12"], cases=cases))
