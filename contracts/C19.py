"""C19 -- output files match current data; nothing unchanged is redone.  Sidecar contracts of lena/output/write.py over the
ghost file system (a text file is a one-element content list holding its text).

Proved: the per-value decision logic of Write.run (the loop body) and Write._write_data.  Which values Write selects is the
abstract predicate `writable(data, context)` (its nested helper `is_writable`, assumed), the path is what `_make_filename`
returns (assumed: bounded part).  LaTeXToPDF / PDFToPNG (process pools, subprocess) and MakeFilename's template handling are
bounded only.  Known finding (known_findings.json): a file that had to be CREATED leaves output.changed as it was -- the
`changed` clauses below therefore speak about existing files only."""
from pyvc.contracts import Contract, LoopSpec, ClassSpec
from pyvc.smt import T
from pyvc.sym import Bool

WR = "lena/output/write.py"


def sp_writable(ip, st, pos, kws):
    """writable(data, context): what Write.run's helper is_writable decides (context allows writing and the data is a
    string or has a write method)"""
    from pyvc.dicts import dterm
    f = ip.reg.ufun("writable", ["V", "Val"], "Bool")
    return Bool(T("(%s %s %s)" % (f, pos[0].t.s, dterm(ip, st, pos[1]).s), "Bool"))


def register(ix):
    ix.spec_names["writable"] = sp_writable
    ix.add_class(ClassSpec("Write", WR, fields={"_existing_unchanged": "Bool", "_overwrite": "Bool", "_verbose": "Bool",
                                                "output_directory": "Str", "_output_filename": "Str"},
                           invariant=["not (self._existing_unchanged and self._overwrite)"]))
    ix.add(Contract(WR, "Write.run.is_writable", props=[], trusted=True,
                    params={"data": "V", "context": "Dict"}, result="Bool",
                    ensures=["result == writable(data, context)"],
                    notes="assumed: the selection predicate of Write (a nested helper); what it selects is checked by the "
                          "bounded part of C10 / C19"))
    ix.add(Contract(WR, "Write._make_filename", props=[], trusted=True,
                    params={"self": "Self[Write]", "outputc": "Dict"}, result="Tuple[Str,Str,Str,Str]",
                    raises={"LenaRuntimeError": "?"},
                    notes="assumed: returns (dirname, filename, fileext, filepath); naming rules are bounded (C19 harness)"))
    ix.add(Contract(WR, "Write._write_data", props=["C19"], ghost={"fs": True},
                    params={"self": "Self[Write]", "filepath": "Str", "data": "V"}, result=None,
                    ensures=["fs_exists(filepath)", "len(fs_content(filepath)) == 1", "fs_content(filepath)[0] == data",
                             # nothing else on disk changes
                             "all_keys(lambda p: p == filepath or fs_entry(p) == old(fs_entry(p)))"],
                    modifies=["fs"]))
    WROTE = "yielded is not val"
    OBJ = "has_attr(data, 'write')"           # objects that write themselves: content unspecified
    ix.add(Contract(
        WR, "Write.run", props=["C19", "C10"], dict_model="Val",
        ghost={"fs": True, "ctx_wf": ["not ('output' in c) or isdict(c['output'])"]},
        params={"self": "Self[Write]", "flow": "Iter[V]"}, generator=True, yields="Any",
        requires=["pulled(flow) == 0"],
        raises={"LenaRuntimeError": "?"},
        loops={0: LoopSpec(invariant=["pulled(flow) == _i"],
                           body_ghost={"_fs0": "fs()"})},
        at_yield=[
            "pulled(flow) == _i + 1",
            # C10: a value that is not selected passes as the very same object and nothing on disk is touched
            "not writable(data, vctx(val)) implies yielded is val",
            "yielded is val implies fs() == _fs0",
            # C19: after the yield the file named by the yielded value holds exactly the current data ...
            # (existing_unchanged is the user's promise that existing files are up to date: they are not even read)
            WROTE + " and not " + OBJ + " and not (self._existing_unchanged and fs_exists_in(_fs0, filepath)) "
            "implies fs_exists(filepath) and fs_content(filepath)[0] == data",
            WROTE + " implies fs_exists(filepath)",
            # ... and nothing else on disk was touched
            WROTE + " implies all_keys(lambda p: p == filepath or fs_entry(p) == fs_entry_in(_fs0, p))",
            # nothing unchanged is redone: an existing file with the same content is not rewritten (unless overwrite),
            # an existing file is never rewritten with existing_unchanged
            WROTE + " and not " + OBJ + " and not self._overwrite and fs_exists_in(_fs0, filepath) and "
            "fs_content_in(_fs0, filepath)[0] == data implies fs() == _fs0",
            WROTE + " and not " + OBJ + " and self._existing_unchanged and fs_exists_in(_fs0, filepath) implies fs() == _fs0",
            # output.changed of an EXISTING file: true when it was rewritten, otherwise what came from upstream
            WROTE + " and not " + OBJ + " and fs_exists_in(_fs0, filepath) and fs_entry(filepath) != fs_entry_in(_fs0, filepath) "
            "implies outputc['changed'] == True",
            WROTE + " and not " + OBJ + " and not self._overwrite and fs_exists_in(_fs0, filepath) and fs() == _fs0 "
            "implies outputc['changed'] == changed",
            WROTE + " and self._overwrite and fs_exists_in(_fs0, filepath) implies outputc['changed'] == True",
            WROTE + " implies outputc['filepath'] == filepath and yielded[0] == filepath and yielded[1] is context",
        ],
        modifies=["flow", "fs"],
        notes="`changed` at the last clause is the local read from context.output.changed (default False) before writing"))
