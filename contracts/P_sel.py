"""P_sel -- property C10 for the selective elements that C02 (RunIf) and C19 (Write) do not cover.

DRAFT"""
from pyvc.contracts import Contract, LoopSpec, ClassSpec
from pyvc.smt import T
from pyvc.sym import Bool, Opaque

CF = "lena/context/functions.py"
PP = "lena/output/pdf_to_png.py"


def _ufun_spec(name, arg_sorts, res_sort):
    """an uninterpreted specification function name(args) of the given SMT sorts"""
    def sp(ip, st, pos, kws):
        from pyvc.dicts import dterm
        f = ip.reg.ufun(name, arg_sorts, res_sort)
        ts = []
        for v, so in zip(pos, arg_sorts):
            if so == "Val":
                ts.append(dterm(ip, st, v).s)
            elif so == "Key":
                ts.append(ip.key_term(v).s)
            else:
                ts.append(v.t.s)
        t = T("(%s %s)" % (f, " ".join(ts)), res_sort)
        return Bool(t) if res_sort == "Bool" else Opaque(t)
    return sp


def register_get_recursively(ix):
    """get_recursively(d, "a.b", default): the form every selection test of the output elements uses.  A further case of
    the C08 contract (same reference `walk`), proved like its siblings."""
    gr = ix.by_key[(CF, "get_recursively")]
    W = "walk(d, dot_components(keys), 0, len(dot_components(keys)))"
    gr.cases.append(Contract(
        CF, "get_recursively", name="get_recursively[dotted string, default]",
        params={"d": "Val", "keys": "Str", "default": "Val"}, result="Val",
        raises={"LenaTypeError": "not isdict(d)"},
        ensures=[W + " != absent() implies present(result) == " + W,
                 W + " == absent() implies result == default"],
        loops={2: LoopSpec(invariant=[
            "isdict(d)",
            "walk(d, keys, _i, len(keys)) == walk(old(d), keys, 0, len(keys))"])}))


def sp_ctx_get(ip, st, pos, kws):
    """ctx_get(c, 'a', 'b', ...): the item context.a.b... as an optional value -- absent() when a component is missing or
    the path runs through something that is not a dictionary (the dotted notation of the docstrings, written out)"""
    from pyvc.dicts import dterm
    ip.reg.need_val()
    cur = "(some %s)" % dterm(ip, st, pos[0]).s
    for k in pos[1:]:
        kt = ip.key_term(k).s
        cur = ("(let ((cx %s)) (ite (and (not (= cx none)) (isD (the cx)) (vhas (the cx) %s)) "
               "(select (dm (the cx)) %s) none))" % (cur, kt, kt))
    return Opaque(T(cur, "Opt"))


PDF_SEL = "ctx_get(vctx(val), 'output', 'filetype') == present('pdf')"
CTX_WF = ["not ('output' in c) or isdict(c['output'])"]


def register_pdf_to_png(ix):
    ix.spec_names["pdf_stem"] = _ufun_spec("pdf_stem", ["V"], "Key")
    ix.add_class(ClassSpec("PDFToPNG", PP, fields={"_format": "Str", "_timeoutsec": "Int", "_overwrite": "Bool",
                                                   "_verbose": "Bool"}))
    ix.add(Contract(PP, "_run_command", props=[], trusted=True, ghost={"fs": True},
                    params={"command": "Any", "verbose": "Any", "timeoutsec": "Any"}, result=None,
                    modifies=["fs"],
                    notes="assumed: the external program pdftoppm may change anything on disk, and nothing else"))
    PNG = "pdf_stem(vdata(val)) + ('.' + self._format)"
    REDO = ("not fs_exists_in(_fs0, %s) or self._overwrite or "
            "_c0['output'].get('changed', False)" % PNG)
    ix.add(Contract(
        PP, "PDFToPNG.run", props=["C10"], dict_model="Val",
        ghost={"fs": True, "ctx_wf": CTX_WF},
        params={"self": "Self[PDFToPNG]", "flow": "Iter[V]"}, generator=True, yields="Any",
        requires=["pulled(flow) == 0"],
        # the selected branch strips ".pdf" from the data part (a string method of an opaque flow value)
        abstract={"data": ("Str", "data == pdf_stem(pdf_name)")},
        loops={0: LoopSpec(invariant=["pulled(flow) == _i", "yield_count() == _i"],
                           body_ghost={"_fs0": "fs()", "_c0": "snapshot(vctx(val))"})},
        at_yield=[
            # order / laziness: the k-th result is handed on when exactly k values have been pulled
            "pulled(flow) == _i + 1", "yield_count() == _i",
            # a value that is not a pdf passes as the very same object; disk and its context stay as they were
            "not (%s) implies yielded is val" % PDF_SEL,
            "not (%s) implies fs() == _fs0" % PDF_SEL,
            "not (%s) implies snapshot(context) == vctx(val)" % PDF_SEL,
            # a pdf: the result is a function of the current value and the element's settings
            "%s implies yielded[1] is context and yielded[0] == %s" % (PDF_SEL, PNG),
            "%s implies context['output']['filetype'] == 'png'" % PDF_SEL,
            # conversion is redone iff the image is missing, overwrite is set or the pdf changed; the flag says which
            "%s and (%s) implies context['output']['changed'] == True" % (PDF_SEL, REDO),
            "%s and not (%s) implies context['output']['changed'] == False and fs() == _fs0" % (PDF_SEL, REDO),
            # nothing else of the value's context changes
            "%s implies all_keys(lambda k: k == 'output' or item(context, k) == item(_c0, k))" % PDF_SEL,
            "%s implies all_keys(lambda k: k == 'filetype' or k == 'changed' or "
            "item(context['output'], k) == item(_c0['output'], k))" % PDF_SEL,
        ],
        ensures=["pulled(flow) == len(content(flow))", "yield_count() == len(content(flow))"],
        modifies=["flow", "fs"]))


def register(ix):
    ix.spec_names["ctx_get"] = sp_ctx_get
    register_get_recursively(ix)
    register_pdf_to_png(ix)
