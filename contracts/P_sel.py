"""P_sel -- property C10 "Elements pass values they do not select through unchanged" for the selective elements that
C02 (RunIf.run) and C19 (Write.run) do not cover: PDFToPNG, RenderLaTeX (user select_data / default _is_csv), ToCSV,
HistToGraph, IterateBins, MapBins, MapGroup (map_scalars off), LaTeXToPDF -- each `run` generator under contract.

Every contract states, per value of the flow (clauses at the yields, loop invariants, per-iteration postconditions):
  (1) a value the element does not select is yielded as the VERY SAME object (`yielded is val`), when exactly the values
      up to it have been pulled (`pulled(flow) == _i + 1`), exactly once (yield_count(): one yield per input for the
      one-to-one elements, `yield_count() == <count at the start of the iteration> + 1` for the others): identity, no
      drop, no duplicate, unchanged relative order;
  (2) for such a value nothing on disk changes (`fs() == _fs0`, ghost file system), no field of self changes (frame:
      `modifies` names no field), and nothing of its context changes (`ctx_now(val) == vctx(val)`);
  (3) what is yielded for a selected value is written from the CURRENT value and the element's fields only.  The loop is
      cut at its invariant, every local the body assigns is unknown at the loop head, so a result that used a local
      carried over from an earlier iteration (or a field changed in one) could not be proved equal to these expressions.
The SELECTION TEST of every element (isinstance, context keys through get_recursively, hasattr, the bin selector) is
executed from the real AST; `selected` in the clauses is written independently from the docstrings (ctx_get = the dotted
path written out, is_instance_of, has_attr, el_call of the user's selector).  What is abstracted in the branches for
SELECTED values is listed per contract (abstract= locals, assumed callee contracts, opaque regions) and appears among the
assumptions of the unit.

"""
from pyvc.contracts import Contract, LoopSpec, ClassSpec
from pyvc.smt import T
from pyvc.sym import Bool, Opaque

CF = "lena/context/functions.py"
PP = "lena/output/pdf_to_png.py"
RL = "lena/output/render_latex.py"
TC = "lena/output/to_csv.py"
SE = "lena/structures/elements.py"


def _ufun_spec(name, arg_sorts, res_sort):
    """an uninterpreted specification function name(args) of the given SMT sorts"""
    def sp(ip, st, pos, kws):
        from pyvc.dicts import dterm
        f = ip.reg.ufun(name, arg_sorts, res_sort)
        ts = []
        for v, so in zip(pos, arg_sorts):
            if so == "Val":
                ts.append(dterm(ip, st, v).s)
            elif so == "Key":
                ts.append(ip.key_term(v).s)
            else:
                ts.append(v.t.s)
        t = T("(%s %s)" % (f, " ".join(ts)), res_sort)
        return Bool(t) if res_sort == "Bool" else Opaque(t)
    return sp


def register_get_recursively(ix):
    """get_recursively(d, "a.b", default): the form every selection test of the output elements uses.  A further case of
    the C08 contract (same reference `walk`), proved like its siblings."""
    gr = ix.by_key[(CF, "get_recursively")]
    W = "walk(d, dot_components(keys), 0, len(dot_components(keys)))"
    gr.cases.append(Contract(
        CF, "get_recursively", name="get_recursively[dotted string, default]",
        params={"d": "Val", "keys": "Str", "default": "Val"}, result="Val",
        raises={"LenaTypeError": "not isdict(d)"},
        ensures=[W + " != absent() implies present(result) == " + W,
                 W + " == absent() implies result == default"],
        loops={2: LoopSpec(invariant=[
            "isdict(d)",
            "walk(d, keys, _i, len(keys)) == walk(old(d), keys, 0, len(keys))"])}))


def sp_ctx_get(ip, st, pos, kws):
    """ctx_get(c, 'a', 'b', ...): the item context.a.b... as an optional value -- absent() when a component is missing or
    the path runs through something that is not a dictionary (the dotted notation of the docstrings, written out)"""
    from pyvc.dicts import dterm
    ip.reg.need_val()
    cur = "(some %s)" % dterm(ip, st, pos[0]).s
    for k in pos[1:]:
        kt = ip.key_term(k).s
        cur = ("(let ((cx %s)) (ite (and (not (= cx none)) (isD (the cx)) (vhas (the cx) %s)) "
               "(select (dm (the cx)) %s) none))" % (cur, kt, kt))
    return Opaque(T(cur, "Opt"))


PDF_SEL = "ctx_get(vctx(val), 'output', 'filetype') == present('pdf')"


def register_pdf_to_png(ix):
    ix.spec_names["pdf_stem"] = _ufun_spec("pdf_stem", ["V"], "Key")
    ix.add_class(ClassSpec("PDFToPNG", PP, fields={"_format": "Str", "_timeoutsec": "Int", "_overwrite": "Bool",
                                                   "_verbose": "Bool"}))
    ix.add(Contract(PP, "_run_command", props=[], trusted=True, ghost={"v_copy_distinct": True, "fs": True},
                    params={"command": "Any", "verbose": "Any", "timeoutsec": "Any"}, result=None,
                    modifies=["fs"],
                    notes="assumed: the external program pdftoppm may change anything on disk, and nothing else"))
    PNG = "pdf_stem(vdata(val)) + ('.' + self._format)"
    PNG_TEST = "pdf_stem(vdata(val)) + '.' + self._format"      # (the same string; concatenation is uninterpreted)
    REDO = ("not fs_exists_in(_fs0, %s) or self._overwrite or "
            "_c0['output'].get('changed', False)" % PNG_TEST)
    ix.add(Contract(
        PP, "PDFToPNG.run", props=["C10"], dict_model="Val",
        ghost={"v_copy_distinct": True, "fs": True},
        params={"self": "Self[PDFToPNG]", "flow": "Iter[V]"}, generator=True, yields="Any",
        requires=["pulled(flow) == 0"],
        # the selected branch strips ".pdf" from the data part (a string method of an opaque flow value)
        abstract={"data": ("Str", "data == pdf_stem(pdf_name)")},
        loops={0: LoopSpec(invariant=["pulled(flow) == _i", "yield_count() == _i"],
                           body_ghost={"_fs0": "fs()", "_c0": "snapshot(vctx(val))"})},
        at_yield=[
            # order / laziness: the k-th result is handed on when exactly k values have been pulled
            "pulled(flow) == _i + 1", "yield_count() == _i",
            # a value that is not a pdf passes as the very same object; disk and its context stay as they were
        ] + unselected(PDF_SEL) + [
            # a pdf: the result is a function of the current value and the element's settings
            "%s implies yielded[1] is context and yielded[0] == %s" % (PDF_SEL, PNG),
            "%s implies context['output']['filetype'] == 'png'" % PDF_SEL,
            # conversion is redone iff the image is missing, overwrite is set or the pdf changed; the flag says which
            "%s and (%s) implies context['output']['changed'] == True" % (PDF_SEL, REDO),
            "%s and not (%s) implies context['output']['changed'] == False and fs() == _fs0" % (PDF_SEL, REDO),
            # nothing else of the value's context changes
            "%s implies all_keys(lambda k: k == 'output' or item(context, k) == item(_c0, k))" % PDF_SEL,
            "%s implies all_keys(lambda k: k == 'filetype' or k == 'changed' or "
            "item(context['output'], k) == item(_c0['output'], k))" % PDF_SEL,
        ],
        ensures=["pulled(flow) == len(content(flow))", "yield_count() == len(content(flow))"],
        modifies=["flow", "fs"]))


def register_pdf_to_png_docstring(ix):
    """FINDING (kept out of every property: props=[]).  Docstring of PDFToPNG.run: `Context is updated with
    output.filetype set to format`; the code stores the literal "png" whatever the format (jpeg, tiff) is."""
    ix.add(Contract(
        PP, "PDFToPNG.run", props=[], dict_model="Val", qualkey="PDFToPNG.run#docstring-filetype",
        name="PDFToPNG.run[docstring: output.filetype is set to format]", ghost={"fs": True},
        params={"self": "Self[PDFToPNG]", "flow": "Iter[V]"}, generator=True, yields="Any",
        requires=["pulled(flow) == 0"],
        abstract={"data": ("Str", "data == pdf_stem(pdf_name)")},
        loops={0: LoopSpec(invariant=["pulled(flow) == _i"])},
        at_yield=["%s implies context['output']['filetype'] == self._format" % PDF_SEL],
        modifies=["flow", "fs"]))


def sp_ctx_now(ip, st, pos, kws):
    """ctx_now(v): the CURRENT content of the context object the flow value v carries ({} for bare data); vctx(v) is the
    content it arrived with"""
    from pyvc.smt import ITE
    v = pos[0]
    ip.reg.need_val()
    f = ip.reg.ufun("vctx", ["V"], "Val")
    hc = ip.reg.ufun("v_has_context", ["V"], "Bool")
    tab = st.notes.get("vctx", {})
    cur = ip.deref(st, tab[v.t.s]) if v.t.s in tab else T("(%s %s)" % (f, v.t.s), "Val")
    return Opaque(ITE(T("(%s %s)" % (hc, v.t.s), "Bool"), cur, T("(D emptymap)", "Val")))


def sp_jinja_render(ip, st, pos, kws):
    """jinja_render(template, x): the text template.render(x) returns, x a context (dictionary) or a data part"""
    from pyvc.dicts import dterm
    tm, x = pos
    if isinstance(x, Opaque) and x.sort == "V":
        f = ip.reg.ufun("jinja_render_data", ["Obj", "V"], "V")
        return Opaque(T("(%s %s %s)" % (f, tm.t.s, x.t.s), "V"))
    f = ip.reg.ufun("jinja_render_ctx", ["Obj", "Val"], "V")
    return Opaque(T("(%s %s %s)" % (f, tm.t.s, dterm(ip, st, x).s), "V"))


def _upd_defs(ip, st, d, lit):
    """definition of the reference function upd (contracts/C07.py) at (d, lit) and, since `lit` is a dictionary display,
    at the nested dictionaries it reaches (upd_item unfolds to upd of the sub-dictionaries)"""
    from pyvc.dicts import dterm
    from pyvc.sym import Ref, PyDictCell
    from contracts.C07 import declare_upd, upd_def
    declare_upd(ip.reg)
    o = dterm(ip, st, lit)
    if not ip.bound_stack:
        ax = T(upd_def(d.s, o.s), "Bool")
        if not any(x.s == ax.s for x in st.pc):
            st.pc.append(ax)
    if isinstance(lit, Ref) and isinstance(st.heap.get(lit.cid), PyDictCell):
        for k, sub in st.heap[lit.cid].items.items():
            if isinstance(sub, Ref) and isinstance(st.heap.get(sub.cid), PyDictCell):
                kt = ip.reg.key(k).s
                dk = T("(ite (isD (vget {d} {k})) (vget {d} {k}) (D emptymap))".format(d=d.s, k=kt), "Val")
                _upd_defs(ip, st, dk, sub)
    return T("(upd %s %s)" % (d.s, o.s), "Val")


def sp_upd_chain(ip, st, pos, kws):
    """upd_chain(c, o1, o2, ...): the context after update_recursively(c, o1), update_recursively(c, o2), ... (reference
    function upd of property C07), o_i dictionary displays"""
    from pyvc.dicts import dterm
    cur = dterm(ip, st, pos[0])
    for lit in pos[1:]:
        cur = _upd_defs(ip, st, cur, lit)
    return Opaque(cur)


def unselected(sel):
    """the pass-through clauses of C10 for a value the element does not select (checked at every yield)"""
    return ["not (%s) implies yielded is val" % sel,            # the very same object
            "not (%s) implies fs() == _fs0" % sel,              # nothing on disk is touched
            "not (%s) implies ctx_now(val) == vctx(val)" % sel]  # nothing of its context is modified


CSV_SEL = "ctx_get(vctx(val), 'output', 'filetype') == present('csv')"


def register_render_latex(ix):
    ix.spec_names["jinja_template"] = _ufun_spec("jinja_template", ["Obj", "V"], "Obj")
    ix.spec_names["jinja_render"] = sp_jinja_render
    ix.add(Contract(RL, "_is_csv", props=["C10"], dict_model="Val",
                    params={"value": "V"}, result="Bool",
                    # docstring: test whether context.output.filetype is "csv"
                    ensures=["result == (ctx_get(vctx(value), 'output', 'filetype') == present('csv'))",
                             "ctx_now(value) == old(ctx_now(value))"]))      # (its context is only read)
    FIELDS = {"_select_template": "Obj", "_environment": "Obj", "_from_data": "Bool", "_verbose": "Int"}
    ix.add_class(ClassSpec("RenderLaTeX", RL, fields=dict(FIELDS, _select_data="Obj")))
    ix.add_class(ClassSpec("RenderLaTeX_csv", RL, alias_of="RenderLaTeX",
                           fields=dict(FIELDS, _select_data="Def[lena.output.render_latex._is_csv]")))
    TEMPLATE = "jinja_template(self._environment, el_call(self._select_template, val))"
    for spec, sel, qk, what in (("RenderLaTeX", "el_call(self._select_data, val)", None, "select_data: any user callable"),
                                ("RenderLaTeX_csv", CSV_SEL, "RenderLaTeX_csv.run", "default select_data (_is_csv)")):
        ix.add(Contract(
            RL, "RenderLaTeX.run", props=["C10"], dict_model="Val", qualkey=qk, name="RenderLaTeX.run[%s]" % what,
            ghost={"v_copy_distinct": True, "fs": True},
            params={"self": "Self[%s]" % spec, "flow": "Iter[V]"}, generator=True, yields="Any",
            requires=["pulled(flow) == 0"],
            # jinja2 (third party): the template is a function of the environment and the template name, the rendered text
            # a function of the template and what is rendered; their exceptions are not modelled
            abstract={"template": ("Obj", "template == " + TEMPLATE),
                      "data": ("V", "data == jinja_render(template, render_context)")},
            loops={0: LoopSpec(invariant=["pulled(flow) == _i", "yield_count() == _i"],
                               body_ghost={"_fs0": "fs()", "_c0": "snapshot(vctx(val))"})},
            at_yield=[
                "pulled(flow) == _i + 1", "yield_count() == _i",
            ] + unselected(sel) + [
                # a selected value: rendered from the current value and the element's settings only
                "(%s) and self._from_data implies yielded[0] == jinja_render(%s, vdata(val) if v_has_context(val) else val)"
                % (sel, TEMPLATE),
                "(%s) and not self._from_data implies yielded[0] == jinja_render(%s, snapshot(context))" % (sel, TEMPLATE),
                "(%s) implies yielded[1] is context and fs() == _fs0" % sel,
                # docstring: context.output.filetype updates to "tex" (and the file extension with it), nothing else
                "(%s) implies snapshot(context) == upd_chain(_c0, {'output': {'filetype': 'tex'}}, "
                "{'output': {'fileext': 'tex'}})" % sel,
                "(%s) implies ctx_get(context, 'output', 'filetype') == present('tex') and "
                "ctx_get(context, 'output', 'fileext') == present('tex')" % sel,
                "(%s) implies all_keys(lambda k: k == 'output' or item(context, k) == item(_c0, k))" % sel,
                "(%s) and ctx_get(_c0, 'output') != absent() and isdict(_c0['output']) implies all_keys(lambda k: "
                "k == 'filetype' or k == 'fileext' or item(context['output'], k) == item(_c0['output'], k))" % sel,
            ],
            ensures=["pulled(flow) == len(content(flow))", "yield_count() == len(content(flow))"],
            modifies=["flow"]))


# ------------------------------------------------------------------------------------------------------------ ToCSV
def sp_dataof(ip, st, pos, kws):
    """dataof(v): the data part of the flow value v (v itself for bare data)"""
    from pyvc.smt import ITE
    v = pos[0]
    hc = ip.reg.ufun("v_has_context", ["V"], "Bool")
    fd = ip.reg.ufun("vdata", ["V"], "V")
    return Opaque(ITE(T("(%s %s)" % (hc, v.t.s), "Bool"), T("(%s %s)" % (fd, v.t.s), "V"), v.t))


def sp_vattr(ip, st, pos, kws):
    """vattr(x, 'name'): the data attribute x.name of a flow value (declared in ghost v_members)"""
    from pyvc.vmembers import attr_value
    r = attr_value(ip, pos[0], pos[1].s)
    if r is None:
        from pyvc.interp import Unsupported
        raise Unsupported("vattr: attribute %s is not declared in v_members" % pos[1].s)
    return r


def sp_vcall(ip, st, pos, kws):
    """vcall(x, 'name'): what the method x.name() of a flow value returns (declared in ghost v_members)"""
    f = ip.reg.ufun("vcall_%s" % pos[1].s, ["V"], "V")
    return Opaque(T("(%s %s)" % (f, pos[0].t.s), "V"))


def sp_vctxupd(ip, st, pos, kws):
    """vctxupd(x, 'name', c): the content of the dictionary c after x.name(c) (declared in ghost v_members)"""
    from pyvc.dicts import dterm
    ip.reg.need_val()
    f = ip.reg.ufun("vctxupd_%s" % pos[1].s, ["V", "Val"], "Val")
    return Opaque(T("(%s %s %s)" % (f, pos[0].t.s, dterm(ip, st, pos[2]).s), "Val"))


def sp_callable_attr(ip, st, pos, kws):
    """callable_attr(x, 'name'): callable(x.name) for a flow value x"""
    ip.reg.need_val()
    f = ip.reg.ufun("callable_attr_V", ["V", "Key"], "Bool")
    return Bool(T("(%s %s %s)" % (f, pos[0].t.s, ip.reg.key(pos[1].s).s), "Bool"))


def register_to_csv(ix):
    for n, f in (("dataof", sp_dataof), ("vattr", sp_vattr), ("vcall", sp_vcall), ("vctxupd", sp_vctxupd),
                 ("callable_attr", sp_callable_attr)):
        ix.spec_names[n] = f
    ix.spec_names["csv_lines1"] = _ufun_spec("csv_lines1", ["V", "Val", "Key", "Val"], "V")
    ix.spec_names["csv_lines2"] = _ufun_spec("csv_lines2", ["V", "Val", "Key", "Val"], "V")
    ix.spec_names["table_of"] = _ufun_spec("table_of", ["V", "Key", "Val", "Key"], "V")
    ix.spec_names["csv_join"] = _ufun_spec("csv_join", ["Key", "V"], "Key")
    # update_recursively(d, "a.b.value"): docstring -- str_to_dict converts the string, then as for a dictionary.  The two
    # parts are proved (C08 str_to_dict[s], C07 update_recursively); their two-line composition is assumed here.
    ur = ix.by_key[(CF, "update_recursively")]
    if not ur.cases:
        import copy
        base = copy.copy(ur)
        base.cases = None
        ur.cases = [base]
    if not any(c.name == "update_recursively[d, 'output.filetype.csv']" for c in ur.cases):
        ur.cases.insert(0, Contract(
            CF, "update_recursively", name="update_recursively[d, 'output.filetype.csv']", props=[], trusted=True,
            dict_model="Val", params={"d": "Dict", "other": "Str['output.filetype.csv']"}, result=None,
            requires=["isdict(d)"],
            ensures=["d == upd_chain(old(d), {'output': {'filetype': 'csv'}})"], modifies=["d"],
            notes="assumed: the dotted-string form is the dictionary form after str_to_dict (docstring)"))
    for k in (1, 2):
        ix.add(Contract(TC, "hist%dd_to_csv" % k, props=[], trusted=True,
                        params={"hist": "V", "header": "Val", "separator": "Str", "duplicate_last_bin": "Val"}, result="V",
                        ensures=["result == csv_lines%d(hist, header, separator, duplicate_last_bin)" % k],
                        notes="assumed: the lines are a function of the histogram and the three settings (a generator "
                              "function: calling it runs nothing)"))
    ix.add(Contract(TC, "iterable_to_table", props=[], trusted=True,
                    params={"iterable": "V", "row_separator": "Str", "header": "Val", "row_end": "Str"}, result="V",
                    ensures=["result == table_of(iterable, row_separator, header, row_end)", "result"],
                    notes="assumed: a generator function -- the call raises nothing and returns a generator object "
                          "(always true in a test), whose lines are a function of the rows and the three settings"))
    ix.add_class(ClassSpec("ToCSV", TC, fields={"_separator": "Str", "_header": "Val", "_row_end": "Str",
                                                "_last_row_end": "Str", "_duplicate_last_bin": "Val"}))
    D = "dataof(val)"
    ALLOWED = ("(ctx_get(vctx(val), 'output', 'to_csv') == absent() or the(ctx_get(vctx(val), 'output', 'to_csv')))")
    HIST = "is_instance_of(%s, 'histogram')" % D
    H1 = "(%s and %s and vattr(%s, 'dim') == 1)" % (ALLOWED, HIST, D)
    H2 = "(%s and %s and vattr(%s, 'dim') == 2)" % (ALLOWED, HIST, D)
    ROWS = "(%s and not %s and has_attr(%s, 'rows'))" % (ALLOWED, HIST, D)
    SEL = "(%s or %s or %s)" % (H1, H2, ROWS)
    G = "ctx_get(_c0, 'output', 'duplicate_last_bin')"
    DUP = "(the(%s) if (%s != absent() and the(%s) is not _sentinel) else self._duplicate_last_bin)" % (G, G, G)
    UPC = "(has_attr(%s, '_update_context') and callable_attr(%s, '_update_context'))" % (D, D)
    CSVC = "{'output': {'filetype': 'csv'}}"
    ix.add(Contract(
        TC, "ToCSV.run", props=["C10"], dict_model="Val",
        ghost={"v_copy_distinct": True, "fs": True, "v_members": {"dim": "attr:Int", "rows": "method0:V", "_update_context": "ctxupdate"}},
        params={"self": "Self[ToCSV]", "flow": "Iter[V]"}, generator=True, yields="Any",
        requires=["pulled(flow) == 0"],
        # the text is the join of the lines (a string method over a generator: abstracted)
        abstract={"csv@0": ("Str", "csv == csv_join(row_sep, lines_iter) + self._last_row_end"),
                  "csv@1": ("Str", "csv == csv_join('\\n', rows) + self._last_row_end")},
        loops={0: LoopSpec(invariant=["pulled(flow) == _i", "yield_count() == _i"],
                           body_ghost={"_fs0": "fs()", "_c0": "snapshot(vctx(val))"})},
        at_yield=[
            "pulled(flow) == _i + 1", "yield_count() == _i",
        ] + unselected(SEL) + [
            "%s implies yielded[1] is context and fs() == _fs0" % SEL,
            # histograms: the text is made of this histogram and the element's settings; context.output.duplicate_last_bin
            # of THIS value takes precedence over the element's own setting
            "%s implies yielded[0] == csv_join(self._row_end + '\\n', csv_lines1(%s, self._header, self._separator, %s)) "
            "+ self._last_row_end" % (H1, D, DUP),
            "%s implies yielded[0] == csv_join(self._row_end + '\\n', csv_lines2(%s, self._header, self._separator, %s)) "
            "+ self._last_row_end" % (H2, D, DUP),
            "%s implies yielded[0] == csv_join('\\n', table_of(vcall(%s, 'rows'), self._separator, self._header, "
            "self._row_end)) + self._last_row_end" % (ROWS, D),
            # context: updated by the data structure itself, and output.filetype becomes "csv"
            "(%s or %s) implies snapshot(context) == upd_chain(vctxupd(%s, '_update_context', _c0), %s)" % (H1, H2, D, CSVC),
            "%s and %s implies snapshot(context) == upd_chain(vctxupd(%s, '_update_context', _c0), %s)" % (ROWS, UPC, D, CSVC),
            "%s and not %s implies snapshot(context) == upd_chain(_c0, %s)" % (ROWS, UPC, CSVC),
        ],
        ensures=["pulled(flow) == len(content(flow))", "yield_count() == len(content(flow))"],
        modifies=["flow"]))


# ------------------------------------------------------------------------------------------------------ HistToGraph
VA = "lena/variables/variable.py"
# the frame of Variable._update_context (proved in contracts/P_var.py under well-formedness preconditions on
# context.variable; here the bin context is abstracted, so only the frame is used, as an assumption)
VAR_UPD_FRAME = Contract(
    VA, "Variable._update_context", props=[], trusted=True, self_class="static",
    params={"context": "Dict", "var_context": "Dict"}, result=None,
    requires=["is_deep_copy(var_context)", "isdict(context)"],
    ensures=["isdict(context)", "all_keys(lambda k: k == 'variable' or item(context, k) == item(old(context), k))"],
    modifies=["context"],
    notes="frame of the static method: only context['variable'] is assigned")


def register_hist_to_graph(ix):
    ix.spec_names["hist_graph"] = _ufun_spec("hist_graph", ["V", "Obj", "V", "Key", "V"], "V")
    ix.spec_names["bin_context_of"] = _ufun_spec("bin_context_of", ["V"], "Val")
    ix.add_class(ClassSpec("HistToGraph", SE, fields={"_make_value": "Inst[Variable]", "_get_coordinate": "Str",
                                                      "_field_names": "V", "_scale": "V"}))
    D = "dataof(val)"
    G = "ctx_get(vctx(val), 'histogram', 'to_graph')"
    SEL = "(is_instance_of(%s, 'histogram') and (%s == absent() or the(%s)))" % (D, G, G)
    ix.add(Contract(
        SE, "HistToGraph.run", props=["C10"], dict_model="Val",
        ghost={"v_copy_distinct": True, "fs": True, "assumed_callees": {"Variable._update_context": VAR_UPD_FRAME}},
        params={"self": "Self[HistToGraph]", "flow": "Iter[V]"}, generator=True, yields="Any",
        requires=["pulled(flow) == 0"],
        # the selected branch: the context of an example bin (a dictionary whose value.value... are dictionaries) and the
        # graph made by hist_to_graph (contracts/P_hist.py) are taken as functions of the histogram and the settings
        abstract={"bin_context": ("Dict", "bin_context == bin_context_of(hist) and kchain(bin_context, 'value')"),
                  "graph": ("V", "graph == hist_graph(hist, self._make_value.getter, self._field_names, "
                                 "self._get_coordinate, self._scale)")},
        loops={0: LoopSpec(invariant=["pulled(flow) == _i", "yield_count() == _i"],
                           body_ghost={"_fs0": "fs()", "_c0": "snapshot(vctx(val))"})},
        at_yield=[
            "pulled(flow) == _i + 1", "yield_count() == _i",
        ] + unselected(SEL) + [
            # a histogram: the graph is made of this histogram and the element's settings; only context.value changes
            "%s implies yielded[0] == hist_graph(%s, self._make_value.getter, self._field_names, self._get_coordinate, "
            "self._scale)" % (SEL, D),
            "%s implies yielded[1] is context and fs() == _fs0" % SEL,
            "%s implies all_keys(lambda k: k == 'value' or item(context, k) == item(_c0, k))" % SEL,
        ],
        ensures=["pulled(flow) == len(content(flow))", "yield_count() == len(content(flow))",
                 "self._make_value.var_context == old(self._make_value.var_context)"],
        modifies=["flow"]))


# ---------------------------------------------------------------------------------------------- IterateBins, MapBins
HF = "lena/structures/hist_functions.py"
SB = "lena/structures/split_into_bins.py"


# update_nested(key, d, other) inside the abstracted branches: its proved contract (contracts/P_ctx.py) does not say that d
# is still a dictionary afterwards; here only this frame is used (a consequence of the docstring: d[key] = other)
UPDATE_NESTED_FRAME = Contract(
    CF, "update_nested", props=[], trusted=True, dict_model="Val",
    params={"key": "Str", "d": "Dict", "other": "Dict"}, result=None,
    requires=["isdict(d)"],
    ensures=["isdict(d)", "all_keys(lambda k: k == key or item(d, k) == item(old(d), k))"],
    modifies=["d", "other"],
    notes="frame: of d only d[key] changes, and d stays a dictionary")


def register_bins_helpers(ix):
    """the helpers of lena/structures/hist_functions.py on an ABSTRACT histogram (a flow value of sort V): assumed
    functions of their arguments (their contracts for concrete 1-d histograms are in contracts/P_hist.py)"""
    ix.spec_names["example_bin"] = _ufun_spec("example_bin", ["V"], "V")
    ix.spec_names["deepcopy_v"] = _ufun_spec("deepcopy_V", ["V"], "V")
    geb = Contract(HF, "get_example_bin", name="get_example_bin[abstract histogram]", props=[], trusted=True,
                   params={"struct": "V"}, result="V", ensures=["result == example_bin(struct)"],
                   notes="assumed: an example bin is a function of the structure")
    cur = ix.by_key.get((HF, "get_example_bin"))
    if cur is None:
        ix.add(Contract(HF, "get_example_bin", props=[], cases=[geb]))
    elif cur.cases is not None and not any(c.name == geb.name for c in cur.cases):
        cur.cases.append(geb)
    ibe = ix.by_key.get((HF, "iter_bins_with_edges"))
    case = Contract(HF, "iter_bins_with_edges", name="iter_bins_with_edges[abstract bins]", props=[], trusted=True,
                    params={"bins": "V", "edges": "V"}, generator=True, yields="V",
                    notes="assumed: yields finitely many (bin, edges) pairs; nothing else happens")
    if ibe is None:
        ix.add(Contract(HF, "iter_bins_with_edges", props=[], cases=[case]))
    elif ibe.cases is not None and not any(c.name == case.name for c in ibe.cases):
        ibe.cases.append(case)


def register_iterate_bins(ix):
    ix.spec_names["edges_str_of"] = _ufun_spec("edges_str_of", ["Obj", "V", "Val"], "V")
    ix.spec_names["bin_dict"] = _ufun_spec("bin_dict", ["V", "V"], "Val")
    ix.add_class(ClassSpec("IterateBins", SB, fields={"_create_edges_str": "Obj", "_select_bins": "Inst[Selector]"}))
    D = "dataof(val)"
    X = "dataof(example_bin(%s))" % D
    BINSEL = ("(not el_call_raises(self._select_bins._selector, %s) and el_call(self._select_bins._selector, %s))" % (X, X))
    SEL = "(is_instance_of(%s, 'histogram') and %s)" % (D, BINSEL)
    ix.add(Contract(
        SB, "IterateBins.run", props=["C10"], dict_model="Val",
        ghost={"v_copy_distinct": True, "fs": True, "v_unpack": True, "v_members": {"bins": "attr:V", "edges": "attr:V"},
               "assumed_callees": {"update_nested": UPDATE_NESTED_FRAME}},
        params={"self": "Self[IterateBins]", "flow": "Iter[V]"}, generator=True, yields="Any",
        requires=["pulled(flow) == 0"],
        raises={"Exception": "?"},           # a bin selector with raise_on_error lets the user's exception through
        # the selected branch: the user's create_edges_str (a callable taking a keyword) and the dictionary for context.bin
        abstract={"edges_str": ("V", "edges_str == edges_str_of(self._create_edges_str, bin_edges, split_var_context)"),
                  "context_bin": ("Dict", "context_bin == bin_dict(bin_edges, edges_str) and isdict(context_bin) "
                                          "and not ('bin' in context_bin)")},
        loops={0: LoopSpec(invariant=["pulled(flow) == _i"],
                           body_ghost={"_fs0": "fs()", "_yc0": "yield_count()"},
                           # a value that is not selected is handed on exactly once
                           body_end=["not (%s) implies yield_count() == _yc0 + 1" % SEL]),
               1: LoopSpec(invariant=["pulled(flow) == _i0 + 1", "fs() == _fs0", SEL, "ctx_now(val) == vctx(val)"])},
        at_yield=[
            "pulled(flow) == _i0 + 1",
        ] + unselected(SEL) + [
            # also for a selected histogram: nothing on disk, and its own context is only copied (kept in context.bins)
            "%s implies fs() == _fs0 and ctx_now(val) == vctx(val)" % SEL,
        ],
        ensures=["pulled(flow) == len(content(flow))"],
        modifies=["flow"]))


def register_map_bins(ix):
    ix.spec_names["bins_data"] = _ufun_spec("bins_data", ["V"], "V")
    ix.spec_names["make_hist"] = _ufun_spec("make_hist", ["V", "V"], "V")
    ix.add_class(ClassSpec("MapBins", SB, fields={"_seq": "Obj", "_select_bins": "Inst[Selector]",
                                                  "_get_example_bin": "Obj", "_drop_bins_context": "Bool"}))
    D = "dataof(val)"
    X = "el_call(self._get_example_bin, %s)" % D
    BINSEL = ("(not el_call_raises(self._select_bins._selector, %s) and el_call(self._select_bins._selector, %s))" % (X, X))
    SEL = "(is_instance_of(%s, 'histogram') and %s)" % (D, BINSEL)
    ix.add(Contract(
        SB, "MapBins.run", props=["C10"], dict_model="Val",
        ghost={"v_copy_distinct": True, "fs": True, "v_members": {"bins": "attr:V", "edges": "attr:V"},
               "assumed_callees": {"update_nested": UPDATE_NESTED_FRAME}},
        params={"self": "Self[MapBins]", "flow": "Iter[V]"}, generator=True, yields="Any",
        requires=["pulled(flow) == 0"],
        raises={"Exception": "?"},           # the user's get_example_bin / a bin selector with raise_on_error
        # the selected branch: the per-bin runs of deep copies of the sequence (_MdSeqMap over nested lists), the
        # multidimensional map of get_data and the histogram constructor are taken as given
        abstract={"generators": ("Iter[V]", "pulled(generators) == 0"),
                  "new_data@0": ("V", "new_data == bins_data(new_bins)"),
                  "new_hist": ("V", "new_hist == make_hist(edges, new_data)")},
        loops={0: LoopSpec(invariant=["pulled(flow) == _i"],
                           body_ghost={"_fs0": "fs()", "_yc0": "yield_count()"},
                           body_end=["not (%s) implies yield_count() == _yc0 + 1" % SEL]),
               1: LoopSpec(invariant=["pulled(flow) == _i0 + 1", "fs() == _fs0", SEL, "ctx_now(val) == vctx(val)"])},
        at_yield=[
            "pulled(flow) == _i0 + 1",
        ] + unselected(SEL) + [
            # also for a selected histogram: nothing on disk; its context is deep-copied, never changed
            "%s implies fs() == _fs0 and ctx_now(val) == vctx(val)" % SEL,
            "%s implies yielded[0] == make_hist(deepcopy_v(vattr(%s, 'edges')), bins_data(new_bins) "
            "if self._drop_bins_context else new_bins)" % (SEL, D),
        ],
        ensures=["pulled(flow) == len(content(flow))"],
        modifies=["flow"]))


# --------------------------------------------------------------------------------------------------------- MapGroup
GP = "lena/flow/group_plots.py"


def register_map_group(ix):
    ix.add_class(ClassSpec("MapGroup", GP, fields={"_seq": "Obj", "_map_scalars": "Bool"}))
    SEL = "('group' in vctx(val) and has_attr(dataof(val), '__iter__'))"
    ix.add(Contract(
        GP, "MapGroup.run", props=["C10"], dict_model="Val", name="MapGroup.run[map_scalars off]",
        ghost={"v_copy_distinct": True, "fs": True,
               # a real group (lists of contexts inside the context, one run of the sequence per member, regrouping):
               # beyond the subset -- not interpreted, see pyvc/vmembers.py
               "opaque_regions": [{"start": "if len(data) != len(context['group'])", "yields": True, "contexts": True,
                                   "fs": True, "raises": ["LenaRuntimeError", "Exception"]}]},
        params={"self": "Self[MapGroup]", "flow": "Iter[V]"}, generator=True, yields="Any",
        requires=["pulled(flow) == 0", "not self._map_scalars"],
        raises={"LenaRuntimeError": "?", "Exception": "?"},
        loops={0: LoopSpec(invariant=["pulled(flow) == _i"],
                           body_ghost={"_fs0": "fs()", "_yc0": "yield_count()"},
                           # a scalar (a value that is not a group) is handed on exactly once
                           body_end=["not (%s) implies yield_count() == _yc0 + 1" % SEL]),
               # (the branch for map_scalars=True: unreachable under the precondition)
               1: LoopSpec(invariant=["pulled(flow) == _i0 + 1"])},
        at_yield=["pulled(flow) == _i0 + 1"] + unselected(SEL),
        ensures=["pulled(flow) == len(content(flow))"],
        modifies=["flow", "fs"]))


# -------------------------------------------------------------------------------------------------------- LaTeXToPDF
LP = "lena/output/latex_to_pdf.py"


def register_latex_to_pdf(ix):
    cur = ix.classes.get("LaTeXToPDF")
    if cur is None:
        ix.add_class(ClassSpec("LaTeXToPDF", LP, fields={"_overwrite": "Bool", "verbose": "Int", "create_command": "Obj",
                                                         "processes": "Obj"}))
    if (LP, "LaTeXToPDF.run.pop_returned_processes") not in ix.by_key:
        ix.add(Contract(LP, "LaTeXToPDF.run.pop_returned_processes", props=[], trusted=True,
                        params={"processes": "Any", "verbose": "Any"}, generator=True, yields="V",
                        notes="assumed: polls the pool and yields the (pdf name, context) pairs of finished processes; no "
                              "file is touched, no context is changed (the pool itself is not modelled)"))
    SEL = "ctx_get(vctx(val), 'output', 'filetype') == present('tex')"
    REGION = {"yields": True, "contexts": True, "fs": True, "raises": ["Exception"]}
    ix.add(Contract(
        LP, "LaTeXToPDF.run", props=["C10"], dict_model="Val",
        ghost={"v_copy_distinct": True, "fs": True,
               # a TeX file (mtime comparison, the process pool, subprocess.Popen) and the final wait for the pool
               # (communicate, KeyboardInterrupt): beyond the subset -- not interpreted, see pyvc/vmembers.py
               "opaque_regions": [dict(REGION, start="outputc = context['output']"),
                                  dict(REGION, start="for filename in list(self.processes.keys())")]},
        params={"self": "Self[LaTeXToPDF]", "flow": "Iter[V]"}, generator=True, yields="Any",
        requires=["pulled(flow) == 0"],
        raises={"Exception": "?"},
        loops={1: LoopSpec(invariant=["pulled(flow) == _i"], ghost={"val": "V"},
                           body_ghost={"_fs0": "fs()"},
                           # besides the finished pdfs collected at the top of the iteration, a value that is no TeX file
                           # is handed on exactly once
                           body_end=["not (%s) implies yield_count() == _ycp + 1" % SEL]),
               2: LoopSpec(invariant=["pulled(flow) == _i1 + 1", "fs() == _fs0", "ctx_now(val) == vctx(val)"],
                           exit_ghost={"_ycp": "yield_count()"})},
        at_yield=[
            "pulled(flow) == _i1 + 1",
            # (yields inside loop #2 hand on pdfs whose processes have finished in the meantime)
            "not in_loop(2) and not (%s) implies yielded is val" % SEL,
            "not (%s) implies fs() == _fs0" % SEL,
            "not (%s) implies ctx_now(val) == vctx(val)" % SEL,
        ],
        ensures=["pulled(flow) == len(content(flow))"],
        modifies=["flow", "fs"]))


def register(ix):
    ix.spec_names["ctx_get"] = sp_ctx_get
    ix.spec_names["ctx_now"] = sp_ctx_now
    ix.spec_names["upd_chain"] = sp_upd_chain
    register_get_recursively(ix)
    register_pdf_to_png(ix)
    register_pdf_to_png_docstring(ix)
    register_render_latex(ix)
    register_to_csv(ix)
    register_hist_to_graph(ix)
    register_bins_helpers(ix)
    register_iterate_bins(ix)
    register_map_bins(ix)
    register_map_group(ix)
    register_latex_to_pdf(ix)
