"""sidecar contracts (see tools/CONTRACTS_GUIDE.md)

P_var2 -- fourth wave for properties C14, C08, C13, C18: constructors and small methods that the contracts of
C14.py / P_var.py / C08.py / P_ctx*.py / C13.py / P_names.py / C18.py assumed or left bare.

  C14  Combine.__init__ (+ its getter lambda), Combine.__getitem__, Variable.__setattr__, Variable.__repr__,
       Variable.__getattr__['dim']
  C08  Context.__getattr__ / __setattr__ / _repr_nested (self typed as the dictionary it is), DeleteContext.__init__,
       UpdateContext.__eq__
  C13  SetContext / StoreContext / UpdateContextFromStatic: __init__ and __eq__; intersection(*list of dictionaries) PROVED
       (it was assumed in C13.py), LenaSplit._get_context re-proved against it
  C18  Cache.__init__ (also C13: the formatter kept for _set_context)

Findings on the unchanged tree (replayed with /venv/bin/python, no contract possible -- see register_variable_functions):
  * lena.variables.functions.abs(var) without latex_name and Cm(var) for EVERY variable raise LenaAttributeError
    ("get missing in x"): they call var.get(...), which is commented out in Variable;
  * Cm would not convert anything even then: `var.getter = ...` goes through Variable.__setattr__ into var_context;
  * UpdateContext.__repr__ extends a LIST with a string (`args += "value=..."`): the options are spelled out one
    character per item: UpdateContext("a.b", "x", v, a, l, u, e, =, T, r, u, e, ...).
Not reached: Context.__init__ / __call__ / __repr__ (an instance of a dict subclass that also has fields)."""
from pyvc.contracts import Contract, LoopSpec, ClassSpec

VA = "lena/variables/variable.py"
VF = "lena/variables/functions.py"
ME = "lena/meta/elements.py"
CA = "lena/flow/cache.py"
CX = "lena/context/context.py"
CE = "lena/context/elements.py"
UC = "lena/context/update_context.py"


def replace(ix, c):
    """register c under its key INSTEAD of whatever an earlier module registered there (an assumed contract)"""
    for lst in ix.by_simple.values():
        lst[:] = [x for x in lst if x.key != c.key]
    return ix.add(c)


def register(ix):
    register_variable_methods(ix)
    register_combine_init(ix)
    register_variable_functions(ix)
    register_context_class(ix)
    register_context_elements(ix)
    register_meta_init(ix)
    register_cache_init(ix)
    register_intersection_list(ix)


# ------------------------------------------------------------------------------------ Variable.__setattr__ / __repr__
def register_variable_methods(ix):
    # "otherwise updated attributes won't affect the context": setting an attribute of a variable sets that key of
    # var_context and nothing else (frame: no field of the object is touched but the content of var_context)
    ix.add_class(ClassSpec("Variable_attr", VA, fields={"var_context": "Dict"},
                           invariant=["isdict(self.var_context)"], alias_of="Variable"))
    ix.add(Contract(
        VA, "Variable.__setattr__", props=["C14"], dict_model="Val",
        params={"self": "Self[Variable_attr]", "name": "Str", "value": "Val"}, result=None,
        raises={},
        ensures=["item(self.var_context, name) == present(value)",
                 "all_keys(lambda k: k == name or item(self.var_context, k) == item(old(self.var_context), k))",
                 ],
        modifies=["self.var_context"]))
    # "We don't enclose name in quotes": the text names the class and the variable's name, nothing else
    ix.add(Contract(
        VA, "Variable.__repr__", props=["C14"], dict_model="Val", ghost={"str_format": True},
        params={"self": "Self[Variable]"}, result="Str",
        requires=["'name' in self.var_context", "is_str(self.var_context['name'])"],
        raises={},
        ensures=["result == 'Variable(' + str_key(self.var_context['name']) + ')'",
                 "self.var_context == old(self.var_context)"], modifies=[]))
    ix.add_class(ClassSpec("Combine", VA, fields={"_vars": "Lst[Obj]"}))
    # Combine docstring: Combine(var1, var2, ...)(value) is ((var1.getter(value), var2.getter(value), ...), context)
    ix.add(Contract(
        VA, "Combine.__init__.<lambda>", props=["C14"],
        params={"val": "V"}, closure={"self": "Self[Combine]"}, result="Lst[V]",
        ensures=["len(result) == len(self._vars)",
                 "all(result[k] == getter_of(self._vars[k], val) for k in range(len(self._vars)))"]))
    ix.add(Contract(
        VA, "Combine.__getitem__", props=["C14"],
        params={"self": "Self[Combine]", "index": "Int"}, result="Obj",
        requires=["0 <= index", "index < len(self._vars)"],
        ensures=["result is self._vars[index]"], modifies=[]))


# ----------------------------------------------------------------------------------------------------- Combine.__init__
# docstring + property C14: "Combine produces the tuple of the getters' results"; *context.variable* is updated with
# *combine*, a tuple containing EACH variable's context (in order; deep copies: the variables are not changed and share
# nothing with the combined variable); *dim* is the number of variables; the name is the keyword `name` or the variables'
# names joined with '_'; LenaTypeError iff there is no argument or one of them is no Variable.
def register_combine_init(ix):
    ix.add_class(ClassSpec("Combine_new", VA, fields={}, alias_of="Combine", bases=["Variable"]))
    ix.classes["Combine"].bases = ["Variable"]
    MOD = ["self._vars", "self.getter", "self.var_context"]

    def ok(tag, n, kwty, name_expr, extra=()):
        vs = ",".join(["Inst[Variable]"] * n)
        req = []
        for i in range(n):
            v = "args[%d].var_context" % i
            req += ["isdict(%s)" % v, "'name' in %s" % v, "is_str(%s['name'])" % v]
        ens = ["len(self._vars) == %d" % n] + ["self._vars[%d] is args[%d]" % (i, i) for i in range(n)]
        ens += ["self.getter is local('getter')"]
        ens += ["args[%d].var_context == old(args[%d].var_context)" % (i, i) for i in range(n)]
        ens += ["self.var_context['dim'] == %d" % n,
                "self.var_context['name'] == " + name_expr,
                "len(self.var_context['combine']) == %d" % n]
        ens += ["self.var_context['combine'][%d] == old(args[%d].var_context)" % (i, i) for i in range(n)]
        ens += ["is_deep_copy(self.var_context['combine'][%d])" % i for i in range(n)]
        # name, dim, combine and the keyword attributes -- nothing more (no type: "we don't preserve types")
        ens += ["len(self.var_context) == %d" % (3 + len(extra))]
        ens += ["self.var_context['%s'] == old(kwargs['%s'])" % (k, k) for k in extra]
        return Contract(VA, "Combine.__init__", name="Combine.__init__[%s]" % tag,
                        ghost={"str_format": True, "inline_callees": ["Variable.__init__"]},
                        params={"self": "Self[Combine_new]", "args": "Tuple[%s]" % vs, "kwargs": kwty},
                        vararg="args", kwarg="kwargs", result=None, requires=req,
                        raises={"LenaTypeError": "False"}, ensures=ens, modifies=MOD)
    # `self.dim` while the object is being built: "all public attributes of a variable can be accessed using dot notation"
    ix.by_key[(VA, "Variable.__getattr__")].cases.append(Contract(
        VA, "Variable.__getattr__", name="Variable.__getattr__['dim']", dict_model="Val",
        params={"self": "Self[Variable_attr]", "name": "Str['dim']"}, result="Val",
        raises={"LenaAttributeError": "'dim' not in self.var_context"},
        ensures=["present(result) == item(self.var_context, 'dim')", "self.var_context == old(self.var_context)"]))
    def bad(tag, argty, kwty):
        return Contract(VA, "Combine.__init__", name="Combine.__init__[%s]" % tag,
                        params={"self": "Self[Combine_new]", "args": argty, "kwargs": kwty},
                        vararg="args", kwarg="kwargs", result=None,
                        raises={"LenaTypeError": "True"}, modifies=MOD)
    ix.add(Contract(VA, "Combine.__init__", props=["C14"], cases=[
        ok("one variable", 1, "KwDict[]", "old(args[0].var_context['name'])"),
        ok("two variables", 2, "KwDict[]",
           "str_key(old(args[0].var_context['name'])) + '_' + str_key(old(args[1].var_context['name']))"),
        ok("two variables, name=", 2, "KwDict[name:Str]", "old(kwargs['name'])"),
        ok("one variable, one more attribute", 1, "KwDict[latex_name:Str]", "old(args[0].var_context['name'])",
           extra=("latex_name",)),
        bad("no variables", "Tuple[]", "KwDict[]"),
        bad("an argument that is no Variable", "Tuple[Inst[Variable],Real]", "KwDict[]"),
        bad("a string instead of a Variable", "Tuple[Str]", "KwDict[]"),
    ]))


# ------------------------------------------------------------------------------------ lena/variables/functions.py
# FINDINGS (replayed on the real code, no contract).  Both functions read attributes with
# `var.get(...)`; Variable.get is commented out in variable.py, so `var.get` goes to Variable.__getattr__('get') and raises
# LenaAttributeError("get missing in <name>") for every variable that has no attribute called 'get'.
#   abs(var) with latex_name=None: docstring "If latex_name is not given, it is var.latex_name (or var.name ...)".
#   Cm(var): docstring "If variable unit is not set, LenaValueError is raised" -- for ANY variable LenaAttributeError.
def register_variable_functions(ix):
    # no contract: `copy.deepcopy(<Variable instance>)` (Cm) and `Variable(**<computed dictionary>)` (abs) are outside the
    # subset, and the first statement that reads an attribute raises on the unchanged tree (replayed in the report)
    pass


# ------------------------------------------------------------------------------------------- lena/context/context.py
# Context is a dict subclass: `self` is typed as the dictionary it is.  Docstring of Context.__init__: "All public
# attributes of a Context can be retrieved or set using dot notation (context["data_path"] is equal to context.data_path).
# ... If the attribute to be retrieved is missing, LenaAttributeError is raised.  An attempt to access a private
# attribute raises AttributeError."
def register_context_class(ix):
    ix.add(Contract(
        CX, "Context.__getattr__", props=["C08"], dict_model="Val",
        params={"self": "Dict", "name": "Str"}, result="Val",
        requires=["isdict(self)"],
        # (LenaAttributeError is a subclass of AttributeError)
        raises={"LenaAttributeError": "not (name.startswith('_') or name in self)",
                "AttributeError": "name.startswith('_') or name not in self"},
        # attribute read == item read
        ensures=["present(result) == item(self, name)", "self == old(self)"], modifies=[]))
    ix.add(Contract(
        CX, "Context.__setattr__", props=["C08"], dict_model="Val",
        params={"self": "Dict", "attr": "Str", "value": "Val"}, result=None,
        requires=["isdict(self)", "attr != '_formatter'"],
        raises={"AttributeError": "attr.startswith('_')"},
        exc_ensures={"AttributeError": ["self == old(self)"]},
        # attribute store == item store: exactly that item changes
        ensures=["item(self, attr) == present(value)",
                 "all_keys(lambda k: k == attr or item(self, k) == item(old(self), k))"],
        modifies=["self"]))
    ix.add(Contract(
        CX, "Context._repr_nested", props=["C08"], dict_model="Val",
        params={"self": "Dict", "base_indent": "Str", "indent": "Str", "el_separ": "Str"}, result="Str",
        defaults={"base_indent": "''", "indent": "'    '", "el_separ": "',\\n'"},
        # "Initialization arguments are not printed": the text does not depend on the content
        ensures=["result == base_indent + 'Context()'", "self == old(self)"], modifies=[]))


# ------------------------------------------------------- DeleteContext.__init__, UpdateContext.__eq__ (lena/context)
# DeleteContext docstring: "*key* can be a dot-separated string or a list of nested string keys" -- the element keeps the
# path that names the item (C08: the notations address the same item): the components of the dotted string ([] for the
# empty string: "empty key removes the entire context"), the list itself, the items of a tuple in order.
def register_context_elements(ix):
    ix.add_class(ClassSpec("DeleteContext_new", CE, fields={}, alias_of="DeleteContext"))
    P = {"self": "Self[DeleteContext_new]"}
    ix.add(Contract(CE, "DeleteContext.__init__", props=["C08"], cases=[
        Contract(CE, "DeleteContext.__init__", name="DeleteContext.__init__[dotted string]",
                 params=dict(P, key="Str"), result=None, raises={},
                 ensures=["key == '' implies len(self._keyl) == 0",
                          "key != '' implies same(self._keyl, split_dots(key))"],
                 modifies=["self._keyl"]),
        Contract(CE, "DeleteContext.__init__", name="DeleteContext.__init__[list of keys]",
                 params=dict(P, key="Lst[Key]"), result=None, raises={},
                 ensures=["self._keyl is key", "same(key, old(key))"],
                 modifies=["self._keyl"]),
        Contract(CE, "DeleteContext.__init__", name="DeleteContext.__init__[tuple of keys]",
                 params=dict(P, key="Tuple[Str,Str]"), result=None, raises={},
                 ensures=["len(self._keyl) == 2", "self._keyl[0] == key[0]", "self._keyl[1] == key[1]"],
                 modifies=["self._keyl"]),
    ]))
    # two UpdateContext elements are equal iff they were given the same arguments (the default only counts when one was
    # given: "we don't compare sentinels")
    F = {"_init_subcontext": "Str", "_update": "Val", "_value": "Bool", "_has_default": "Bool", "_default": "Val",
         "_skip_on_missing": "Bool", "_raise_on_missing": "Bool", "_recursively": "Bool"}
    ix.add_class(ClassSpec("UpdateContext_eq", UC, fields=F, alias_of="UpdateContext"))
    ix.add(Contract(UC, "UpdateContext.__eq__", props=["C08"], dict_model="Val", cases=[
        Contract(UC, "UpdateContext.__eq__", name="UpdateContext.__eq__[two UpdateContext elements]", dict_model="Val",
                 params={"self": "Self[UpdateContext_eq]", "other": "Inst[UpdateContext_eq]"}, result="Bool", raises={},
                 ensures=["result == (self._has_default == other._has_default and "
                          "(not self._has_default or self._default == other._default) and "
                          "self._init_subcontext == other._init_subcontext and self._update == other._update and "
                          "self._value == other._value and self._skip_on_missing == other._skip_on_missing and "
                          "self._raise_on_missing == other._raise_on_missing and self._recursively == other._recursively)"],
                 modifies=[]),
        Contract(UC, "UpdateContext.__eq__", name="UpdateContext.__eq__[another kind of value]", dict_model="Val",
                 params={"self": "Self[UpdateContext_eq]", "other": "Real"}, result="Sentinel[builtins.NotImplemented]",
                 raises={}, ensures=["result is NotImplemented"], modifies=[]),
    ]))


# ---------------------------------------------------------------------------------------------- lena/meta/elements.py
# property C13: "the fold, in document order, of the SetContext updates": a SetContext element contributes the key and
# the value it was GIVEN (docstring: "*key* is a string representing a (possibly nested) dictionary key. *value* is its
# value"); the constructor checks the formatting early by setting the context {} (so the element starts with the context
# {key: value}); StoreContext / UpdateContextFromStatic start with the empty context ("will be set in the sequence, not
# during the initialisation").  Elements are equal iff they were given the same key and value / hold equal contexts.
def register_meta_init(ix):
    ix.add_class(ClassSpec("SetContext_new", ME, fields={}, alias_of="SetContext"))
    KS = "split_dots(key)"
    cases = []
    for tag, vty in (("number value", "Real"), ("bool value", "Bool"), ("dictionary value", "Dict")):
        cases.append(Contract(
            ME, "SetContext.__init__", name="SetContext.__init__[%s]" % tag, dict_model="Val",
            params={"self": "Self[SetContext_new]", "key": "Str", "value": vty}, result=None,
            post_class="SetContext_" + tag.split()[0],
            requires=["isdict(value)"] if vty == "Dict" else [],
            raises={"LenaValueError": "key == ''", "LenaKeyError": "False"},
            ensures=["self._key == key",
                     "self._value is value" if vty == "Dict" else "self._value == value",
                     "self._has_no_data == True",
                     "self._static_context == upd_spec(emptydict(), nestk(%s, 0, len(%s), value))" % (KS, KS)]
            + (["value == old(value)"] if vty == "Dict" else []),
            modifies=["self._key", "self._value", "self._has_no_data", "self._static_context", "self._exc"]))
    ix.add(Contract(ME, "SetContext.__init__", props=["C13"], dict_model="Val", cases=cases))
    for cls, field, extra in (("StoreContext", "context", ["self._has_no_data == True"]),
                              ("UpdateContextFromStatic", "_context", [])):
        ix.add_class(ClassSpec(cls + "_new", ME, fields={}, alias_of=cls))
        ix.add(Contract(ME, cls + ".__init__", props=["C13"], dict_model="Val",
                        params={"self": "Self[%s_new]" % cls}, result=None, raises={},
                        ensures=["self.%s == emptydict()" % field, "is_fresh(self.%s)" % field] + extra,
                        modifies=["self." + field] + (["self._has_no_data"] if extra else [])))
        ix.add_class(ClassSpec(cls + "_eq", ME, fields={field: "Dict"}, alias_of=cls))
        ix.add(Contract(ME, cls + ".__eq__", props=["C13"], dict_model="Val", cases=[
            Contract(ME, cls + ".__eq__", name=cls + ".__eq__[two elements]", dict_model="Val",
                     params={"self": "Self[%s_eq]" % cls, "other": "Inst[%s_eq]" % cls}, result="Bool", raises={},
                     ensures=["result == (self.%s == other.%s)" % (field, field)], modifies=[]),
            Contract(ME, cls + ".__eq__", name=cls + ".__eq__[another kind of value]", dict_model="Val",
                     params={"self": "Self[%s_eq]" % cls, "other": "Real"}, result="Sentinel[builtins.NotImplemented]",
                     raises={}, ensures=["result is NotImplemented"], modifies=[])]))
    eqc = []
    for tag, vty in (("number value", "Real"), ("bool value", "Bool"), ("dictionary value", "Dict")):
        cs = "SetContext_" + tag.split()[0]
        eqc.append(Contract(ME, "SetContext.__eq__", name="SetContext.__eq__[two elements, %s]" % tag, dict_model="Val",
                            params={"self": "Self[%s]" % cs, "other": "Inst[%s]" % cs}, result="Bool", raises={},
                            ensures=["result == (self._key == other._key and self._value == other._value)"], modifies=[]))
    eqc.append(Contract(ME, "SetContext.__eq__", name="SetContext.__eq__[another kind of value]", dict_model="Val",
                        params={"self": "Self[SetContext_number]", "other": "Real"},
                        result="Sentinel[builtins.NotImplemented]", raises={}, ensures=["result is NotImplemented"],
                        modifies=[]))
    ix.add(Contract(ME, "SetContext.__eq__", props=["C13"], dict_model="Val", cases=eqc))


# ------------------------------------------------------------------------------------------------------- Cache.__init__
# docstring: *filename* is the name of the file where the cache is stored; "if *recompute* is True, an existing cache will
# always be overwritten"; *method* pickle / cPickle "for Python 3 they are same"; *protocol* is the pickle protocol.
# The fields are what cache_exists / drop_cache / run / _set_context (C18.py, P_names.py) read.  Creating a Cache touches
# no cache file (C18: only a complete run stores a flow): the ghost file system is unchanged.
def register_cache_init(ix):
    if "Formatter" not in ix.classes:
        return          # P_out.py (the formatter abstraction) did not load
    ix.add_class(ClassSpec("Cache_new", CA, fields={}, alias_of="Cache"))
    MOD = ["self._dump", "self._load", "self._method", "self._filename", "self._orig_filename", "self._format_context",
           "self.protocol", "self._recompute", "self.is_cache"]
    ENS = ["self._filename == filename", "self._orig_filename == filename", "self._recompute == recompute",
           "self.protocol == protocol", "self._method == method", "self.is_cache == True",
           "self._dump is pickle.dump", "self._load is pickle.load",
           "fs() == old(fs())"]

    def case(tag, post, req, ens, raises):
        return Contract(
            CA, "Cache.__init__", name="Cache.__init__[%s]" % tag, ghost={"fs": True}, post_class=post,
            params={"self": "Self[Cache_new]", "filename": "Str", "recompute": "Bool", "method": "Str", "protocol": "Int"},
            defaults={"recompute": "False", "method": "'cPickle'", "protocol": "2"},
            result=None, requires=req, raises=raises, ensures=ENS + ens, modifies=MOD)
    ix.add(Contract(CA, "Cache.__init__", props=["C18", "C13"], cases=[
        case("plain file name", "Cache_plain", ["not ('{' in filename)"], [], {}),
        # a name with a formatting field: the formatter of THAT string is kept for _set_context (C13)
        case("template file name", "Cache_named", ["'{' in filename"], ["self._format_context.fmt == filename"],
             {"LenaValueError": "fmt_malformed(filename)"}),
    ]))


# ------------------------------------------------------------------------- intersection(*dicts) for a LIST of dictionaries
# C13.py assumed `intersection[list of dictionaries]` (result == inter_all(dicts), inter_all uninterpreted) at the call
# intersection(*contexts) of LenaSplit._get_context.  Here the list form is PROVED against the real function, with
# inter_all DEFINED from the binary reference `inter` of P_ctx.py (property C07, proved there for two dictionaries):
# docstring "a dictionary such that each of its items are contained in all dicts (recursively) ... If dicts is empty, an
# empty dictionary is returned": the left fold of the binary intersection over the list, started with the first dictionary
#     inter_all([])          = {}
#     inter_all([d0, .., dn]) = inter_from(ds, d0, 1)
#     inter_from(ds, acc, i) = acc                                     if i >= len(ds)
#                            = inter_from(ds, inter(acc, ds[i], -1), i+1)   if that intersection is not empty
#                            = {}                                      otherwise ({} is absorbing: inter({}, x) = {})
# inter_from / inter_all are uninterpreted symbols; their definition is added as an instance at every argument tuple they
# are applied to (one unfolding), so that callers which only name inter_all(xs) are not burdened with a recursive function.
def declare_inter_all(ip):
    from contracts.P_ctx import declare_inter
    reg = ip.reg
    declare_inter(reg)
    ls = reg.lst("Val")
    reg.ufun("inter_from", [ls, "Val", "Int"], "Val")
    reg.ufun("inter_all", [ls], "Val")
    return ls


def inter_from_def(ls, ds, acc, i):
    return ("(= (inter_from {ds} {acc} {i}) (ite (>= {i} (len_{ls} {ds})) {acc} "
            "(let ((a2 (inter {acc} (select (arr_{ls} {ds}) {i}) (- 1)))) "
            "(ite (vtruthy a2) (inter_from {ds} a2 (+ {i} 1)) (D emptymap)))))").format(ls=ls, ds=ds, acc=acc, i=i)


def inter_all_def(ls, ds):
    return ("(= (inter_all {ds}) (ite (<= (len_{ls} {ds}) 0) (D emptymap) "
            "(inter_from {ds} (select (arr_{ls} {ds}) 0) 1)))").format(ls=ls, ds=ds)


def _instance(ip, st, text):
    from pyvc.smt import T
    # (only where the definition is needed: in the proof of the list form itself; its callers name inter_all(xs) as a value)
    if not ip.bound_stack and ip.c is not None and getattr(ip.c, "qualkey", None) == "intersection#variadic":
        ax = T(text, "Bool")
        if not any(h.s == ax.s for h in st.pc):
            st.pc.append(ax)


def sp_inter_all(ip, st, pos, kws):
    from pyvc.smt import T
    from pyvc.sym import Opaque
    from pyvc.speclib import lst_term
    if ip.c is not None and getattr(ip.c, "qualkey", None) == "intersection#variadic":
        ls = declare_inter_all(ip)
    else:
        # a caller names inter_all(xs) as a value: only that symbol is declared (as in contracts/C13.py), so that the
        # queries of the callers are textually what they were
        ip.reg.need_val()
        ls = ip.reg.lst("Val")
        ip.reg.ufun("inter_all", [ls], "Val")
    ds = lst_term(ip, st, pos[0], ls).s
    _instance(ip, st, inter_all_def(ls, ds))
    return Opaque(T("(inter_all %s)" % ds, "Val"))


def sp_inter_from(ip, st, pos, kws):
    from pyvc.smt import T
    from pyvc.sym import Opaque
    from pyvc.speclib import lst_term
    from pyvc.dicts import dterm
    ls = declare_inter_all(ip)
    ds, acc, i = lst_term(ip, st, pos[0], ls).s, dterm(ip, st, pos[1]).s, ip.num(pos[2]).s
    _instance(ip, st, inter_from_def(ls, ds, acc, i))
    return Opaque(T("(inter_from %s %s %s)" % (ds, acc, i), "Val"))


def sp_all_dicts(ip, st, pos, kws):
    """all_dicts(xs): every item of the list of context values xs is a dictionary (the quantifier carries a pattern: at
    call sites it is a hypothesis of the normal exit and must not cost the caller's other obligations anything)"""
    from pyvc.smt import T
    from pyvc.sym import Bool
    from pyvc.speclib import lst_term
    ip.reg.need_val()
    ls = ip.reg.lst("Val")
    ds = lst_term(ip, st, pos[0], ls).s
    q = "adq"          # (a fixed name: the quantifier is closed and never nested in itself; the engine's counter of bound
    #                    names is left alone, so the queries of the callers keep the shape they were tuned with)
    return Bool(T("(forall (({q} Int)) (! (=> (and (<= 0 {q}) (< {q} (len_{ls} {ds}))) (isD (select (arr_{ls} {ds}) {q}))) "
                  ":pattern ((select (arr_{ls} {ds}) {q}))))".format(q=q, ls=ls, ds=ds), "Bool"))


def register_intersection_list(ix):
    ix.spec_names["all_dicts"] = sp_all_dicts
    from contracts.P_ctx import KEPT
    CF = "lena/context/functions.py"
    ix.spec_names["inter_all"] = sp_inter_all          # (defined now; C13.py declared it uninterpreted)
    ix.spec_names["inter_from"] = sp_inter_from
    K3 = KEPT.replace("dicts[0]", "_r0")
    # (the second conjunct names the intersection of this pass: the definition of the reference is instantiated at it)
    TOTAL = "inter_from(dicts, _r0, _i0 + 1) == inter_all(dicts) and isdict(inter_spec(_r0, d, level))"
    loops = {
        # for d in dicts[1:]: what is still to be intersected, applied to the result so far, gives the whole intersection
        0: LoopSpec(invariant=["isdict(res)", "inter_from(dicts, res, _i + 1) == inter_all(dicts)"]),
        1: LoopSpec(init_ghost={"_r0": "snapshot(res)", "_i0": "_i0"}, invariant=[
            "isdict(res)", "isdict(_r0)", TOTAL,
            "all_keys(lambda k: item(res, k) == (%s if seen(k) else item(_r0, k)))" % K3.format(k="k"),
            "all(seen(to_delete[i]) and (to_delete[i] in res) "
            "and inter_item(_r0, d, level, to_delete[i]) == absent() for i in range(len(to_delete)))",
            "all(all(implies(i < j, to_delete[i] != to_delete[j]) for j in range(len(to_delete))) "
            "for i in range(len(to_delete)))",
            "all_keys(lambda k: implies(seen(k) and inter_item(_r0, d, level, k) == absent(), k in to_delete))"]),
        2: LoopSpec(invariant=[
            "isdict(res)", "isdict(_r0)", TOTAL,
            "all_keys(lambda k: item(res, k) == (absent() if any(to_delete[j] == k for j in range(_i)) else %s))"
            % K3.format(k="k")], decreases="len(to_delete) - _i")}
    c = Contract(CF, "intersection", name="intersection[list of dictionaries]", props=["C13"], dict_model="Val",
                 qualkey="intersection#variadic",
                 # (no vararg=: at a call f(*xs) with xs of symbolic length the engine hands the argument list over as ONE sequence)
                 params={"dicts": "Lst[Val]", "kwargs": "KwDict[]"}, kwarg="kwargs", result="Dict",
                 local_types={"to_delete": "Lst[Key]"},
                 raises={"LenaTypeError": "not all_dicts(dicts)"}, raises_frame="pure",
                 loops=loops,
                 # ("This function always returns a dictionary")
                 ensures=["result == inter_all(dicts)", "is_deep_copy(result)", "isdict(result)"],
                 notes="the list form of intersection, proved (it was assumed in contracts/C13.py); the recursive call on "
                       "two sub-dictionaries goes through the proved 2-dictionary contract of P_ctx.py")
    replace(ix, c)
    # the caller: the assumed contract had no exceptional exit; the proved one raises LenaTypeError iff an argument is no
    # dictionary.  LenaSplit._get_context (contract of C13.py) therefore states it: LenaTypeError iff some branch hands out
    # a context that is not a dictionary (nothing is assumed about what an abstract branch returns)
    gc = ix.by_key[("lena/core/split.py", "LenaSplit._get_context")]
    BC = "branch_contexts(self._seqs, len(self._seqs))"
    gc.raises = dict(gc.raises)
    gc.raises["LenaTypeError"] = "not all(isdict(%s[i]) for i in range(len(%s)))" % (BC, BC)
    # group_plots / _update_with_group (contracts/P_acc2.py) also call intersection(*contexts).  Their queries are brittle
    # (z3 times out on ensures#5 / ensures#7 as soon as ONE more hypothesis -- the normal-exit fact `every argument is a
    # dictionary` -- is present, or the bound names are renumbered), so inside these two units the callee keeps the shape of
    # the old assumed contract (no exceptional exit: same hypotheses as before), and the missing premise is an OBLIGATION
    # of its own at the call (at_call: checked, not assumed): every argument is a dictionary.  The clauses assumed there
    # are exactly the postconditions proved above (pattern of P_hist2.py md_map: assumed in the caller, proved here).
    local = Contract(CF, "intersection", name="intersection[list of dictionaries, all of them dictionaries]", props=[],
                     trusted=True, qualkey="intersection#variadic-local",
                     params={"dicts": "Lst[Val]"}, result="Dict",
                     ensures=["result == inter_all(dicts)", "isdict(result)"],
                     notes="the postconditions of the PROVED contract intersection[list of dictionaries] (contracts/"
                           "P_var2.py); its precondition for the normal exit -- every argument is a dictionary -- is the "
                           "call-site obligation `at-call intersection#0` of this unit")
    GP = "lena/flow/group_plots.py"
    for q in ("group_plots", "_update_with_group"):
        k = ix.by_key.get((GP, q))
        if k is None:
            continue
        k.ghost = dict(k.ghost or {})
        ac = dict(k.ghost.get("assumed_callees") or {})
        ac["intersection"] = local
        k.ghost["assumed_callees"] = ac
        k.at_call = dict(getattr(k, "at_call", None) or {})
        k.at_call["intersection"] = ["all_dicts(call_args[0])"]
    # the recursive call intersection(res[key], d[key], level=level-1) made from the list form: there d is an ITEM of the
    # list (an immutable dictionary value), not a dictionary object -- the proved 2-dictionary contract of P_ctx.py at this
    # typing (same clauses, same invariants; proved as a unit of its own)
    two = dict(
        vararg="dicts", kwarg="kwargs", result="Dict", dict_model="Val", local_types={"to_delete": "Lst[Key]"},
        raises={"LenaTypeError": "not isdict(dicts[0]) or not isdict(dicts[1])"}, raises_frame="pure",
        loops={
            1: LoopSpec(invariant=[
                "isdict(res)",
                "all_keys(lambda k: item(res, k) == (%s if seen(k) else item(dicts[0], k)))" % KEPT.format(k="k"),
                "all(seen(to_delete[i]) and (to_delete[i] in res) "
                "and inter_item(dicts[0], d, level, to_delete[i]) == absent() for i in range(len(to_delete)))",
                "all(all(implies(i < j, to_delete[i] != to_delete[j]) for j in range(len(to_delete))) "
                "for i in range(len(to_delete)))",
                "all_keys(lambda k: implies(seen(k) and inter_item(dicts[0], d, level, k) == absent(), k in to_delete))",
            ]),
            2: LoopSpec(invariant=[
                "isdict(res)",
                "all_keys(lambda k: item(res, k) == (absent() if any(to_delete[j] == k for j in range(_i)) else %s))"
                % KEPT.format(k="k"),
            ], decreases="len(to_delete) - _i"),
        })
    it = ix.by_key[(CF, "intersection")]
    if not any(k.name == "intersection[d1, dictionary value d2, level=l]" for k in it.cases):
        it.cases.append(Contract(
            CF, "intersection", name="intersection[d1, dictionary value d2, level=l]",
            params={"dicts": "Tuple[Dict,Val]", "kwargs": "KwDict[level:Int]"},
            ensures=["result == inter_spec(dicts[0], dicts[1], old(kwargs['level']))", "is_deep_copy(result)",
                     "dicts[0] == old(dicts[0])"], **two))
