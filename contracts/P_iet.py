"""P_iet -- include / exclude trees, what GroupBy groups by, SelectContext (property C15; GroupBy also C09).

Sidecar contracts of
  lena/context/include_exclude_tree.py  IncludeExcludeTree.get (replaces the assumed contract of P_acc.py), IncludeExcludeTree.__init__,
                                        _split_key, _startswith, _group_by_starting_prefixes, make_include_exclude_tree
                                        (the recursive core _make_include_exclude_tree is NOT proved: assumed deterministic,
                                        inside the unit of make_include_exclude_tree only)
  lena/flow/group_by.py                 GroupBy.__init__
  lena/flow/selectors.py                SelectContext.__init__, SelectContext.__call__
and Lemma units that tie the reference function of get to the partition the property states (section `sel and the
partition of the property`).  Engine additions: pyvc/iet.py (trees / sets of strings), pyvc/lib_ctxcall.py (a user callable
applied to a context value; exceptions of the classes handled around the call).

Trees are values of the SMT datatype Tree (pyvc/iet.py): mkT(include, keys, subtrees).

Reference function  sel(t, d)  = "the parts of the dictionary d corresponding to the tree t", written from the docstrings
of IncludeExcludeTree and the property text (C15):
  * `keys is a set of flat strings ... if include is True, this tree includes by default and the explicit keys should be
    excluded in get.  Otherwise the keys should be included.`   -- an item of d under a key in t.keys is dropped
    (include) / kept as it is (not include); an item under a key that is neither in keys nor in subtrees is kept (include)
    / dropped (not include);
  * `subtrees is a mapping from string keys to actual include-exclude trees`   -- for a key with a subtree s the item is
    restricted by s: a dictionary value v becomes sel(s, v);
  * property: `two values share a group exactly when their contexts agree on every key path whose longest prefix listed in
    group_by or merge is a group_by entry`.  s.include tells whether the path of the key itself is selected (its longest
    listed prefix is then a group_by entry): if it is, the item counts as it is found -- a dictionary (restricted), or a
    scalar (`scalars where a listed path expects a dictionary`); if it is not, only the selected paths below it count: a
    scalar has none (dropped), a dictionary is kept exactly when its restriction holds something (an empty shell of an
    unselected path must not distinguish two contexts)."""
from pyvc.contracts import Contract, LoopSpec, ClassSpec
from pyvc.smt import T
from pyvc.sym import Opaque, Bool
from pyvc.dicts import dterm
from pyvc.verify import Lemma

IE = "lena/context/include_exclude_tree.py"
GB = "lena/flow/group_by.py"

# one item of sel(t, d) at key k
SEL_ITEM = """(define-fun sel_item ((t Tree) (d Val) (k Key)) Opt
  (ite (not (vhas d k)) none
  (ite (select (t_keys t) k) (ite (t_incl t) none (select (dm d) k))
  (ite ((_ is someT) (select (t_subs t) k))
       (ite (isD (vget d k))
            (ite (or (t_incl (theT (select (t_subs t) k))) (not (= (sel (theT (select (t_subs t) k)) (vget d k)) (D emptymap))))
                 (some (sel (theT (select (t_subs t) k)) (vget d k)))
                 none)
            (ite (t_incl (theT (select (t_subs t) k))) (select (dm d) k) none))
       (ite (t_incl t) (select (dm d) k) none)))))"""


def sel_def(t, d):
    """definition of the reference function sel at these arguments (one unfolding, as for diff / upd in C07.py)"""
    r = "(sel %s %s)" % (t, d)
    return ("(=> (isD {d}) (and (isD {r}) (forall ((sk Key)) (! (= (select (dm {r}) sk) (sel_item {t} {d} sk)) "
            ":pattern ((select (dm {r}) sk))))))").format(t=t, d=d, r=r)


def declare_sel(reg):
    from pyvc.iet import declare_tree
    declare_tree(reg)
    reg.ufun("sel", ["Tree", "Val"], "Val")
    reg.fun_decl("sel_item", SEL_ITEM)


def _tree(ip, st, v):
    from pyvc.iet import tree_term
    from pyvc.interp import Unsupported
    t = tree_term(ip, st, v)
    if t is None:
        raise Unsupported("include/exclude tree expected, got %r" % (v,))
    return t


def sp_sel(ip, st, pos, kws):
    """sel(t, d): the reference function (t: a tree value or a tree object)"""
    declare_sel(ip.reg)
    t, d = _tree(ip, st, pos[0]), dterm(ip, st, pos[1])
    if not ip.bound_stack and not _has_bound_var(t.s + " " + d.s):
        ax = T(sel_def(t.s, d.s), "Bool")
        if not any(x.s == ax.s for x in st.pc):
            st.pc.append(ax)           # definition of the reference function at these arguments
    return Opaque(T("(sel %s %s)" % (t.s, d.s), "Val"))


def _has_bound_var(text):
    """does the term mention a variable bound by an enclosing quantifier of the clause (all_keys, all / any)?  Constants are
    written |name!n| / |key:..|; bound variables are plain identifiers ending in digits (ak3, q12, lq4 ...)"""
    import re
    return re.search(r"(?<![A-Za-z0-9_])[a-z]+[0-9]+(?![A-Za-z0-9_])", re.sub(r"\|[^|]*\|", "", text)) is not None


def sp_sel_item(ip, st, pos, kws):
    declare_sel(ip.reg)
    t, d = _tree(ip, st, pos[0]), dterm(ip, st, pos[1])
    return Opaque(T("(sel_item %s %s %s)" % (t.s, d.s, ip.key_term(pos[2]).s), "Opt"))


def sp_sel_of_seen(ip, st, pos, kws):
    """sel_of_seen(r, t, d): the dictionary r holds exactly the items of sel(t, d) under the keys the enclosing loop over d has
    visited so far (the same statement as all_keys(lambda k: item(r, k) == (sel_item(t, d, k) if seen(k) else absent())),
    with the instantiation pattern item(r, k) when it is used as a hypothesis)"""
    declare_sel(ip.reg)
    r, t, d = dterm(ip, st, pos[0]), _tree(ip, st, pos[1]), dterm(ip, st, pos[2])
    q = "sq%d" % next(ip.bound)
    seen = st.env["$seen"].t.s
    return Bool(T("(forall (({q} Key)) (! (= (select (dm {r}) {q}) (ite (select {seen} {q}) (sel_item {t} {d} {q}) none)) "
                  ":pattern ((select (dm {r}) {q}))))".format(q=q, r=r.s, t=t.s, d=d.s, seen=seen), "Bool"))


def sp_iet_get(ip, st, pos, kws):
    """iet_get(ident(tree_object), d) -- the vocabulary of P_acc.py (clauses of GroupBy.fill), where it was an uninterpreted
    function of the object's name: now what the proved contract of IncludeExcludeTree.get says, sel(value of that object, d)"""
    import re
    from pyvc.sym import Ref
    from pyvc.interp import Unsupported
    o = pos[0]
    m = re.match(r"^\|obj:(.*)\|$", o.t.s) if isinstance(o, Opaque) and o.sort == "Obj" else None
    if m is None or m.group(1) not in st.heap:
        raise Unsupported("iet_get: the first argument must be ident(<include/exclude tree object>)")
    return sp_sel(ip, st, [Ref(m.group(1)), pos[1]], kws)


def sp_tree(ip, st, pos, kws):
    """tree(x): the value (sort Tree) of a tree object / a tree value"""
    return Opaque(_tree(ip, st, pos[0]))


def _seq_items(ip, st, v):
    """the strings of an argument that is one string or a tuple / list of concrete length of strings"""
    from pyvc.sym import Str, Tup
    from pyvc.interp import Unsupported
    if isinstance(v, Str) or (isinstance(v, Opaque) and v.sort == "Key"):
        return [v]
    view = ip.as_view(st, v)
    if view.items is None:
        raise Unsupported("a string or a sequence of concrete length of strings expected")
    return list(view.items)


def sp_has_root(ip, st, pos, kws):
    """has_root(x): the root -- the empty string -- is listed in x (one string, or a sequence of strings)"""
    from pyvc.smt import OR, EQ
    return Bool(OR(*[EQ(ip.key_term(k), ip.reg.key("")) for k in _seq_items(ip, st, pos[0])]))


def sp_listed_paths(ip, st, pos, kws):
    """listed_paths(x): the list of the key paths listed in x (one dotted string, or a sequence of dotted strings) other
    than the root, each split at its dots, in the order given.  For n strings a case distinction over which of them are
    the root (2**n alternatives, each a list display)"""
    from pyvc.smt import EQ, ITE
    reg = ip.reg
    lk = reg.lst("Key")
    ll = reg.lst(lk)
    items = [ip.key_term(k) for k in _seq_items(ip, st, pos[0])]
    f = reg.ufun("ksplit", ["Key"], lk)

    def build(i, acc):
        if i == len(items):
            return acc
        keep = reg.l_append(acc, T("(%s %s)" % (f, items[i].s), lk))
        return ITE(EQ(items[i], reg.key("")), build(i + 1, acc), build(i + 1, keep))
    return ip.lst_view(build(0, reg.l_empty_canonical(ll)))


def sp_any_improper(ip, st, pos, kws):
    """any_improper(x): some string listed in x other than the root has an empty subkey (`a..b`, `.a`)"""
    from pyvc.smt import OR, AND, NOT, EQ
    reg = ip.reg
    lk = reg.lst("Key")
    f = reg.ufun("ksplit", ["Key"], lk)
    outs = []
    for k in _seq_items(ip, st, pos[0]):
        kt = ip.key_term(k)
        sp = T("(%s %s)" % (f, kt.s), lk)
        q = "iq%d" % next(ip.bound)
        outs.append(AND(NOT(EQ(kt, reg.key(""))),
                        T("(exists ((%s Int)) (and (<= 0 %s) (< %s %s) (= %s %s)))"
                          % (q, q, q, reg.l_len(sp).s, reg.l_get(sp, T(q, "Int")).s, reg.key("").s), "Bool")))
    return Bool(OR(*outs))


def sp_iet_rejects(ip, st, pos, kws):
    """iet_rejects(includes, excludes, default_include): _make_include_exclude_tree raises LenaValueError for these lists of
    key paths (`Include/exclude keys should be strictly within exclude/include keys respectively`) -- an uninterpreted
    predicate of the argument VALUES"""
    from pyvc.speclib import lst_term
    reg = ip.reg
    ll = reg.lst(reg.lst("Key"))
    f = reg.ufun("iet_rejects", [ll, ll, "Bool"], "Bool")
    a, b = lst_term(ip, st, pos[0], ll), lst_term(ip, st, pos[1], ll)
    return Bool(T("(%s %s %s %s)" % (f, a.s, b.s, ip.truth(st, pos[2]).s), "Bool"))


def sp_iet_of(ip, st, pos, kws):
    """iet_of(includes, excludes, default_include): the tree _make_include_exclude_tree returns for two lists of key paths
    (lists of lists of strings) and the default -- an uninterpreted function of these VALUES (the function is assumed to
    be deterministic; what the tree is, is not stated here)"""
    from pyvc.iet import declare_tree
    from pyvc.speclib import lst_term
    reg = ip.reg
    declare_tree(reg)
    ll = reg.lst(reg.lst("Key"))
    f = reg.ufun("iet_of", [ll, ll, "Bool"], "Tree")
    a, b = lst_term(ip, st, pos[0], ll), lst_term(ip, st, pos[1], ll)
    return Opaque(T("(%s %s %s %s)" % (f, a.s, b.s, ip.truth(st, pos[2]).s), "Tree"))


def sp_no_groups(ip, st, pos, kws):
    """no_groups(d): d is an empty dictionary (a new `dict()`, or a dict of lists without keys)"""
    from pyvc.sym import Ref, PyDictCell, ValCell
    from pyvc.smt import TRUE, FALSE, EQ
    from pyvc.interp import Unsupported
    v = pos[0]
    if isinstance(v, Ref) and not v.path:
        c = st.heap[v.cid]
        if isinstance(c, PyDictCell):
            return Bool(FALSE if c.items else TRUE)
        if type(c).__name__ == "KeyMapCell":
            return Bool(EQ(c.has, T("((as const (Array Key Bool)) false)", "(Array Key Bool)")))
        if isinstance(c, ValCell):
            return Bool(EQ(c.term, T("(D emptymap)", "Val")))
    raise Unsupported("no_groups of %r" % (v,))


def sp_key_components(ip, st, pos, kws):
    """key_components(s): the components of a dotted key string as str_to_list / get_recursively see them ([] for the empty
    string) -- the same list term as dot_components(s) of P_ctx.py, built without creating a list object (so that clauses
    may use it under `and` / `implies`)"""
    from pyvc.smt import ITE, EQ
    from pyvc.sym import Str
    reg = ip.reg
    v = pos[0]
    lk = reg.lst("Key")
    kt = ip.key_term(v)
    t = T("(%s %s)" % (reg.ufun("ksplit", ["Key"], lk), kt.s), lk)
    if isinstance(v, Str):
        return ip.lst_view(t) if v.s else ip.items_view([])
    empty = T("(mk_%s %s 0)" % (lk, reg.l_arr(t).s), lk)
    return ip.lst_view(ITE(EQ(kt, reg.key("")), empty, t))


def sp_ctx_call(ip, st, pos, kws):
    """ctx_call(p, x): what the user callable p returns for the context value x (pyvc/lib_ctxcall.py)"""
    from pyvc.lib_ctxcall import terms
    return Opaque(terms(ip, st, pos[0], pos[1])[1])


def sp_ctx_call_raises(ip, st, pos, kws):
    """ctx_call_raises(p, x): the user callable p raises (an exception of whatever class) for the context value x"""
    from pyvc.lib_ctxcall import terms
    return Bool(terms(ip, st, pos[0], pos[1])[2])


def replace(ix, c):
    """register c under its key INSTEAD of whatever an earlier module registered there (an assumed contract)"""
    for lst in ix.by_simple.values():
        lst[:] = [x for x in lst if x.key != c.key]
    return ix.add(c)


def register(ix):
    ix.spec_names["sel"] = sp_sel
    ix.spec_names["sel_item"] = sp_sel_item
    ix.spec_names["sel_of_seen"] = sp_sel_of_seen
    ix.spec_names["iet_get"] = sp_iet_get
    for n, f in [("tree", sp_tree), ("has_root", sp_has_root), ("listed_paths", sp_listed_paths), ("iet_of", sp_iet_of),
                 ("any_improper", sp_any_improper), ("iet_rejects", sp_iet_rejects), ("no_groups", sp_no_groups),
                 ("ctx_call", sp_ctx_call), ("ctx_call_raises", sp_ctx_call_raises), ("key_components", sp_key_components)]:
        ix.spec_names[n] = f
    register_get(ix)
    register_init(ix)
    register_helpers(ix)
    register_make(ix)
    register_groupby_init(ix)
    register_select_context(ix)
    register_partition_lemmas(ix)
    register_gbsp(ix)


def register_get(ix):
    # the class as seen by callers that hold a tree OBJECT (GroupBy._iet): three fields holding values
    cs = ix.classes.get("IncludeExcludeTree")
    if cs is None:
        cs = ix.add_class(ClassSpec("IncludeExcludeTree", IE, fields={}))
    cs.fields.update({"keys": "KeySet", "subtrees": "TreeMap", "include": "Bool"})
    LOOP = LoopSpec(invariant=[
        "isdict(result)",
        "sel_of_seen(result, self, context)"])
    replace(ix, Contract(
        IE, "IncludeExcludeTree.get", props=["C15", "C09"], dict_model="Val",
        params={"self": "Tree", "context": "Val"}, result="Val",
        requires=["isdict(context)"],
        raises={},
        ensures=["result == sel(self, context)"],
        loops={0: LOOP, 1: LOOP},
        notes="`self` and `context` are immutable values in the encoding (a store into either is refused by the engine): "
              "neither is changed.  The recursive call goes through this contract (termination: the value gets smaller; not "
              "an obligation of the engine)"))


def register_init(ix):
    """`keys is a set of flat strings ... subtrees is a mapping from string keys to actual include-exclude trees`; include:
    `if it is True, then this tree includes by default`: the new object IS the tree (keys, subtrees, bool(include))."""
    ix.add_class(ClassSpec("IncludeExcludeTree0", IE, fields={}, alias_of="IncludeExcludeTree"))
    ix.add(Contract(
        IE, "IncludeExcludeTree.__init__", props=["C15"],
        params={"self": "Self[IncludeExcludeTree0]", "keys": "KeySet", "subtrees": "TreeMap", "include": "Bool"},
        raises={},
        ensures=["self.keys == keys", "self.subtrees == subtrees", "self.include == include"],
        modifies=["self.keys", "self.subtrees", "self.include"],
        post_class="IncludeExcludeTree"))


def register_helpers(ix):
    KS = "split_dots(key)"
    ix.add(Contract(
        IE, "_split_key", props=["C15"],
        params={"key": "Str"}, result="Lst[Key]",
        # `Split key into subkeys separated by dots.  All subkeys must be proper, that is empty ones are not allowed ...
        # Improper subkeys raise LenaValueError` (the empty string -- the root -- is its own single subkey)
        raises={"LenaValueError": "any(%s[i] == '' for i in range(len(%s))) and key != ''" % (KS, KS)},
        ensures=["key == '' implies len(result) == 1 and result[0] == ''",
                 "key != '' implies same(result, %s)" % KS,
                 "key != '' implies all(result[i] != '' for i in range(len(result)))"]))
    ix.add(Contract(
        IE, "_startswith", props=["C15"],
        params={"s1": "Lst[Key]", "s2": "Lst[Key]"}, result="Bool",
        # `Test whether a container s2 starts with s1`
        raises={},
        ensures=["result == (len(s1) <= len(s2) and all(s2[i] == s1[i] for i in range(len(s1))))"],
        loops={0: LoopSpec(invariant=["len(s1) <= len(s2)", "all(s2[i] == s1[i] for i in range(_i))"])}))


# ------------------------------------------------------------------------------------------ make_include_exclude_tree
ARG_TYPES = [("str", "Str"), ("()", "Tuple[]"), ("(s,)", "Tuple[Str]"), ("(s, s)", "Tuple[Str,Str]")]
LL = "Lst[Lst[Key]]"


def assumed_make():
    """the recursive core _make_include_exclude_tree is not under contract: its callers are verified against the
    assumption that its result is a function of the VALUES of its arguments (iet_of) -- nothing is assumed about WHICH tree"""
    return Contract(IE, "_make_include_exclude_tree", props=[], trusted=True,
                    params={"includes": LL, "excludes": LL, "is_default_include": "Bool"},
                    result="Inst[IncludeExcludeTree]",
                    raises={"LenaValueError": "iet_rejects(includes, excludes, is_default_include)"},
                    ensures=["tree(result) == iet_of(includes, excludes, is_default_include)"],
                    notes="assumed: deterministic (the tree, and whether LenaValueError is raised instead, are functions of "
                          "the two lists of key paths and the default)")


def register_make(ix):
    cases = []
    for na, ta in ARG_TYPES:
        for nb, tb in ARG_TYPES:
            if (ta, tb) == ("Tuple[]", "Tuple[]"):
                continue          # (no root at all: every path raises -- a unit without a normal exit)
            cases.append(Contract(
                IE, "make_include_exclude_tree", name="make_include_exclude_tree[includes=%s, excludes=%s]" % (na, nb),
                params={"includes": ta, "excludes": tb}, result="Inst[IncludeExcludeTree]",
                ghost={"assumed_callees": {"_make_include_exclude_tree": assumed_make()}},
                # `The root (empty) string must be contained in exactly one of include or exclude sets` (else LenaValueError;
                # improper subkeys and improperly nested keys raise it too: stated by _split_key / left to the core)
                raises={"LenaValueError": "has_root(includes) == has_root(excludes) or any_improper(includes) "
                                          "or any_improper(excludes) or iet_rejects(listed_paths(includes), "
                                          "listed_paths(excludes), has_root(includes))"},
                ensures=[
                         # one string stands for the tuple of that string; the root is the default, the other keys are
                         # split at their dots: the tree is the one the core builds from them
                         "tree(result) == iet_of(listed_paths(includes), listed_paths(excludes), has_root(includes))"]))
    ix.add(Contract(IE, "make_include_exclude_tree", props=["C15"], cases=cases))


# ------------------------------------------------------------------------------------------------- GroupBy.__init__
def register_groupby_init(ix):
    """`group_by ... can be a tuple of strings ... An empty string represents the entire context.  The default arguments add
    all values from the flow into one group (that is merge takes priority over group_by)`: the tree is the one built from
    group_by (includes) and merge (excludes) as given -- except for the default arguments, which stand for group_by=(),
    merge=("",).  `groups` starts empty.  Strings / tuples of strings never raise LenaTypeError."""
    ix.add_class(ClassSpec("GroupBy0", GB, fields={}, alias_of="GroupBy"))
    TREE = "tree(self._iet) == iet_of(listed_paths({g}), listed_paths({m}), has_root({g}))"
    BAD = ("has_root({g}) == has_root({m}) or any_improper({g}) or any_improper({m}) or "
           "iet_rejects(listed_paths({g}), listed_paths({m}), has_root({g}))")
    cases = []
    for na, ta in ARG_TYPES:
        for nb, tb in ARG_TYPES:
            if (ta, tb) == ("Tuple[]", "Tuple[]"):
                continue
            both = ta == "Str" and tb == "Str"
            dflt = "(group_by == '' and merge == '')"
            given = TREE.format(g="group_by", m="merge")
            cases.append(Contract(
                GB, "GroupBy.__init__", name="GroupBy.__init__[group_by=%s, merge=%s]" % (na, nb),
                params={"self": "Self[GroupBy0]", "group_by": ta, "merge": tb}, defaults={"group_by": "", "merge": ""},
                raises={"LenaValueError": ("(%s and (%s)) or (not %s and (%s))"
                                           % (dflt, BAD.format(g="()", m="('',)"), dflt, BAD.format(g="group_by", m="merge"))) if both
                        else BAD.format(g="group_by", m="merge")},
                ensures=([dflt + " implies " + TREE.format(g="()", m="('',)"), "not " + dflt + " implies " + given]
                         if both else [given]) + ["no_groups(self.groups)"],
                modifies=["self._iet", "self.groups"], post_class="GroupBy"))
    ix.add(Contract(GB, "GroupBy.__init__", props=["C15", "C09"], cases=cases))
    # C09 `reset() equals a new element`: the state fill / compute depend on is `groups` (the tree is configuration, which
    # reset does not touch: frame of GroupBy.reset in P_acc.py)
    try:
        from contracts.P_acc import reset_equals_new
        ix.lemmas.append(Lemma(
            "GroupBy: reset() leaves the groups as a newly constructed element has them", GB, ["C09"],
            reset_equals_new("GroupBy", "reset", ["no_groups(self.groups)"]),
            notes="over the contracts of GroupBy.reset (P_acc.py) and GroupBy.__init__ (default arguments); the tree is "
                  "configuration"))
    except ImportError:
        pass


# --------------------------------------------------------------------------------------------------- SelectContext
SEL = "lena/flow/selectors.py"


def register_select_context(ix):
    """property C15: `SelectContext applies its predicate to the addressed sub-context and is False when that is absent`;
    Selector docstring (raise_on_error): `whether in case of an exception the selector raises that exception or returns
    False`.  The sub-context addressed by the key is walk(context, components of the key) (C08).  An exception raised BY
    THE PREDICATE -- of whatever class, LenaKeyError included -- is an error of the predicate, not an absent sub-context."""
    for name, kty, comps in (("SelectContext", "Str", "key_components(self._key)"), ("SelectContext_l", "Lst[Key]", "self._key")):
        ix.add_class(ClassSpec(name, SEL, fields={"_key": kty, "_predicate": "Obj", "_raise_on_error": "Bool"},
                               bases=["Selector"], **({} if name == "SelectContext" else {"alias_of": "SelectContext"})))
        # (the list form goes through the case of get_recursively for dictionary OBJECTS, stated with walka: the same walk
        # over the array of the key list, P_ctx.py)
        SUB = "%s(vctx(value), %s, 0, len(%s))" % ("walk" if kty == "Str" else "walka", comps, comps)
        RAISES = "ctx_call_raises(self._predicate, the(%s))" % SUB
        ix.add(Contract(
            SEL, "SelectContext.__call__", props=["C15"], name="SelectContext.__call__[key: %s]" % kty,
            qualkey=None if name == "SelectContext" else "SelectContext_l.__call__",
            params={"self": "Self[%s]" % name, "value": "V"}, result="Any",
            raises={"Exception": "%s != absent() and %s and self._raise_on_error" % (SUB, RAISES)},
            ensures=["%s == absent() implies result is False" % SUB,
                     "%s != absent() and %s implies result is False" % (SUB, RAISES),
                     "%s != absent() and not %s implies result is ctx_call(self._predicate, the(%s))" % (SUB, RAISES, SUB)],
            notes="the value is an abstract flow value: its context is vctx(value) ({} for bare data); nothing is changed "
                  "(frame: no `modifies`)"))
    ix.add_class(ClassSpec("SelectContext0", SEL, fields={}, alias_of="SelectContext"))
    cases = []
    for kname, kty, post in (("string", "Str", "SelectContext"), ("list of keys", "Lst[Key]", "SelectContext_l")):
        cases.append(Contract(
            SEL, "SelectContext.__init__", name="SelectContext.__init__[key: %s]" % kname,
            params={"self": "Self[SelectContext0]", "key": kty, "predicate": "Obj", "raise_on_error": "Bool"},
            defaults={"raise_on_error": True},
            # `assert callable(predicate)` (the comment there: the assertions are meant as the argument check)
            raises={"AssertionError": "not callable(predicate)"},
            ensures=["self._key == key" if kty == "Str" else "self._key is key", "self._predicate is predicate",
                     "self._raise_on_error == raise_on_error"],
            modifies=["self._key", "self._predicate", "self._raise_on_error"], post_class=post))
    ix.add(Contract(SEL, "SelectContext.__init__", props=["C15"], cases=cases))


# ------------------------------------------------------------------------------ sel and the partition of the property
# property C15: `two values share a group exactly when their contexts agree on every key path whose longest prefix listed in
# group_by or merge is a group_by entry`.  In terms of the tree:  selp(t, p)  = the key path p (non-empty) is SELECTED by t,
#     selp(t, k.q) =  not t.include                       if k is in t.keys        (a listed key flips the default, for all below)
#                     s.include  (q empty) / selp(s, q)   if t.subtrees[k] = s     (s.include: the status of the path k itself)
#                     t.include                           otherwise                (the default of this level)
# walkp(x, p) = the item of x at the path p (absent when a component is missing or the way runs through a scalar), and two
# items AGREE (agree_o) when both are absent, both are dictionaries, or they are equal scalars.  With
#     agreeT(t, d1, d2)  :=  for every non-empty path p: selp(t, p) implies agree_o(walkp(d1, p), walkp(d2, p))
# the lemmas below give, for dictionaries d1, d2:      sel(t, d1) == sel(t, d2)   <=>   agreeT(t, d1, d2)
# (`=>`: lemma A with T; `<=`: lemma C with E, K, H, B1).  Every lemma is an obligation over the DEFINITIONS of sel / selp /
# walkp (unfolded at the terms used, as in P_ctx.py) and the induction hypothesis at the sub-tree / sub-dictionary under the
# first key.  A universally quantified premise (agreeT, fullag) is an uninterpreted predicate in the unit that uses it; the
# units use it only through INSTANCES at paths named in the unit, and establish it (for the induction hypothesis) through
# the descent lemmas H / EH / K, each of which is proved for an arbitrary path.
PATH_DECL = "(declare-datatypes ((Path 0)) (((pnil) (pcons (phd Key) (ptl Path)))))"
AGREE_O = ("(define-fun agree_o ((a Opt) (b Opt)) Bool (ite (= a none) (= b none) (and (not (= b none)) "
           "(ite (isD (the a)) (isD (the b)) (= (the a) (the b))))))")
EMPTY = "(D emptymap)"


def declare_partition(reg):
    declare_sel(reg)
    if "Path" not in reg.sorts:
        reg.sorts.add("Path")
        reg.sort_decls.append(PATH_DECL)
    reg.ufun("walkp", ["Val", "Path"], "Opt")
    reg.ufun("selp", ["Tree", "Path"], "Bool")
    reg.ufun("agreeT", ["Tree", "Val", "Val"], "Bool")
    reg.ufun("fullag", ["Val", "Val"], "Bool")
    reg.ufun("somekey", ["(Array Key Opt)"], "Key")
    reg.ufun("wit", ["Tree", "Val"], "Path")
    reg.fun_decl("agree_o", AGREE_O)


def walkp_unf(x, p):
    return ("(= (walkp {x} {p}) (ite ((_ is pnil) {p}) (some {x}) (ite (and (isD {x}) (vhas {x} (phd {p}))) "
            "(walkp (vget {x} (phd {p})) (ptl {p})) none)))").format(x=x, p=p)


def sub(t, k):
    return "(theT (select (t_subs %s) %s))" % (t, k)


def selp_unf(t, p):
    """definition of selp at (t, p) for a non-empty p"""
    k = "(phd %s)" % p
    return ("(=> (not ((_ is pnil) {p})) (= (selp {t} {p}) (ite (select (t_keys {t}) {k}) (not (t_incl {t})) "
            "(ite ((_ is someT) (select (t_subs {t}) {k})) "
            "(ite ((_ is pnil) (ptl {p})) (t_incl {s}) (selp {s} (ptl {p}))) (t_incl {t})))))").format(t=t, p=p, k=k, s=sub(t, k))


def sel_at(t, d, k):
    """the definition of sel(t, d) at the key k"""
    return ("(=> (isD {d}) (and (isD (sel {t} {d})) (= (select (dm (sel {t} {d})) {k}) (sel_item {t} {d} {k}))))"
            ).format(t=t, d=d, k=k)


def sel_isd(t, d):
    return "(=> (isD {d}) (isD (sel {t} {d})))".format(t=t, d=d)


def agree_at(t, d1, d2, p):
    """the instance of agreeT(t, d1, d2) at the path p"""
    return ("(=> (agreeT {t} {d1} {d2}) (=> (and (not ((_ is pnil) {p})) (selp {t} {p})) "
            "(agree_o (walkp {d1} {p}) (walkp {d2} {p}))))").format(t=t, d1=d1, d2=d2, p=p)


def fullag_at(x, y, p):
    return "(=> (fullag {x} {y}) (agree_o (walkp {x} {p}) (walkp {y} {p})))".format(x=x, y=y, p=p)


def t_stmt(s, e, p):
    """T: a selected path that is present in e leaves a trace in sel(s, e)"""
    return ("(=> (and (isD {e}) (not ((_ is pnil) {p})) (selp {s} {p}) (not (= (walkp {e} {p}) none))) "
            "(not (= (sel {s} {e}) %s)))" % EMPTY).format(s=s, e=e, p=p)


def a_stmt(t, d1, d2, p):
    return ("(=> (and (isD {d1}) (isD {d2}) (= (sel {t} {d1}) (sel {t} {d2})) (not ((_ is pnil) {p})) (selp {t} {p})) "
            "(agree_o (walkp {d1} {p}) (walkp {d2} {p})))").format(t=t, d1=d1, d2=d2, p=p)


def b1_stmt(s, e):
    w = "(wit %s %s)" % (s, e)
    return ("(=> (and (isD {e}) (not (= (sel {s} {e}) %s))) (and (not ((_ is pnil) {w})) (selp {s} {w}) "
            "(not (= (walkp {e} {w}) none))))" % EMPTY).format(s=s, e=e, w=w)


def fully_selected(t, k):
    return ("(or (and (select (t_keys {t}) {k}) (not (t_incl {t}))) (and (not (select (t_keys {t}) {k})) "
            "(not ((_ is someT) (select (t_subs {t}) {k}))) (t_incl {t})))").format(t=t, k=k)


def _unit(name, consts, hyps, goal):
    def build(ip, st):
        from pyvc.interp import VC
        from pyvc.smt import FALSE
        reg = ip.reg
        declare_partition(reg)
        names = {}
        for c, sort in consts:
            names[c] = reg.new(c, sort).s
        for h in hyps:
            st.assume(T(h.format(**names), "Bool"))
        ip.emit("lemma", name, st, T(goal.format(**names), "Bool"))
        ip.vcs.append(VC("cover requires", "cover", list(st.pc), FALSE, ""))
        ip.vcs.append(VC("canary ensures False#0", "canary", list(st.pc), FALSE, ""))
    return build


def register_partition_lemmas(ix):
    def add(name, consts, hyps, goal, notes):
        ix.lemmas.append(Lemma("sel / partition: " + name, IE, ["C15"], _unit(name, consts, hyps, goal), notes=notes))
    K, Q = "(phd {p})", "(ptl {p})"
    S1 = sub("{s}", K)
    E1 = "(vget {e} %s)" % K
    # ---- T
    add("T  a selected path present in e leaves a trace: sel(s, e) != {{}}",
        [("s", "Tree"), ("e", "Val"), ("p", "Path")],
        [sel_at("{s}", "{e}", K), walkp_unf("{e}", "{p}"), selp_unf("{s}", "{p}"), walkp_unf(E1, Q), sel_isd(S1, E1),
         t_stmt(S1, E1, Q)],
        t_stmt("{s}", "{e}", "{p}"),
        "induction on the path; hypothesis = the statement for the sub-tree and the sub-dictionary under the first key")
    # ---- A
    SA = sub("{t}", K)
    D1, D2 = "(vget {d1} %s)" % K, "(vget {d2} %s)" % K
    add("A  equal selections agree on every selected path (same group => the contexts agree)",
        [("t", "Tree"), ("d1", "Val"), ("d2", "Val"), ("p", "Path")],
        [sel_at("{t}", "{d1}", K), sel_at("{t}", "{d2}", K), walkp_unf("{d1}", "{p}"), walkp_unf("{d2}", "{p}"),
         selp_unf("{t}", "{p}"), walkp_unf(D1, Q), walkp_unf(D2, Q), sel_isd(SA, D1), sel_isd(SA, D2),
         a_stmt(SA, D1, D2, Q), t_stmt(SA, D1, Q), t_stmt(SA, D2, Q)],
        a_stmt("{t}", "{d1}", "{d2}", "{p}"),
        "induction on the path; uses lemma T at the sub-tree (a dictionary facing a scalar / nothing under an unselected key)")
    # ---- EH, E
    PK = "(pcons {k} {q})"
    add("EH  full agreement descends to the items under a common key",
        [("x", "Val"), ("y", "Val"), ("k", "Key"), ("q", "Path")],
        [fullag_at("{x}", "{y}", PK), walkp_unf("{x}", PK), walkp_unf("{y}", PK)],
        "(=> (and (fullag {x} {y}) (isD {x}) (isD {y}) (vhas {x} {k}) (vhas {y} {k})) "
        "(agree_o (walkp (vget {x} {k}) {q}) (walkp (vget {y} {k}) {q})))",
        "for an arbitrary path q: the instance of fullag(x, y) at k.q")
    P1 = "(pcons {k} pnil)"
    XK, YK = "(vget {x} {k})", "(vget {y} {k})"
    add("E  values that agree at every path are equal (item by item)",
        [("x", "Val"), ("y", "Val"), ("k", "Key")],
        [fullag_at("{x}", "{y}", "pnil"), walkp_unf("{x}", "pnil"), walkp_unf("{y}", "pnil"),
         fullag_at("{x}", "{y}", P1), walkp_unf("{x}", P1), walkp_unf("{y}", P1), walkp_unf(XK, "pnil"), walkp_unf(YK, "pnil"),
         # EH (proved above for every q), and the induction hypothesis at the items under k
         "(=> (and (fullag {x} {y}) (isD {x}) (isD {y}) (vhas {x} {k}) (vhas {y} {k})) (fullag %s %s))" % (XK, YK),
         "(=> (fullag %s %s) (= %s %s))" % (XK, YK, XK, YK)],
        "(=> (fullag {x} {y}) (and (= (isD {x}) (isD {y})) (=> (not (isD {x})) (= {x} {y})) "
        "(=> (isD {x}) (= (select (dm {x}) {k}) (select (dm {y}) {k})))))",
        "structural induction on x; for an arbitrary key k")
    add("E2  ... hence equal",
        [("x", "Val"), ("y", "Val")],
        ["(= (isD {x}) (isD {y}))", "(=> (not (isD {x})) (= {x} {y}))",
         "(=> (isD {x}) (forall ((k Key)) (! (= (select (dm {x}) k) (select (dm {y}) k)) :pattern ((select (dm {x}) k)))))"],
        "(= {x} {y})", "extensionality of dictionaries (conclusion of E for every key)")
    # ---- K, H
    PKQ = "(pcons {k} {q})"
    add("K  under a key whose whole sub-tree of paths is selected, agreement is full agreement",
        [("t", "Tree"), ("d1", "Val"), ("d2", "Val"), ("k", "Key"), ("q", "Path")],
        [agree_at("{t}", "{d1}", "{d2}", PKQ), selp_unf("{t}", PKQ), walkp_unf("{d1}", PKQ), walkp_unf("{d2}", PKQ),
         # (selp at k.q for a key of t.keys / a key without sub-tree does not depend on q: by the definition above)
         ],
        "(=> (and (agreeT {t} {d1} {d2}) (isD {d1}) (isD {d2}) (vhas {d1} {k}) (vhas {d2} {k}) %s) "
        "(agree_o (walkp (vget {d1} {k}) {q}) (walkp (vget {d2} {k}) {q})))" % fully_selected("{t}", "{k}"),
        "for an arbitrary path q: the instance of agreeT at k.q")
    add("H  agreement descends to the sub-tree under a key",
        [("t", "Tree"), ("d1", "Val"), ("d2", "Val"), ("k", "Key"), ("q", "Path")],
        [agree_at("{t}", "{d1}", "{d2}", PKQ), selp_unf("{t}", PKQ), walkp_unf("{d1}", PKQ), walkp_unf("{d2}", PKQ)],
        "(=> (and (agreeT {t} {d1} {d2}) (isD {d1}) (isD {d2}) (vhas {d1} {k}) (vhas {d2} {k}) "
        "(not (select (t_keys {t}) {k})) ((_ is someT) (select (t_subs {t}) {k})) (not ((_ is pnil) {q})) (selp %s {q})) "
        "(agree_o (walkp (vget {d1} {k}) {q}) (walkp (vget {d2} {k}) {q})))" % sub("{t}", "{k}"),
        "for an arbitrary non-empty path q: the instance of agreeT at k.q")
    # ---- B1
    KW = "(somekey (dm (sel {s} {e})))"
    SW = sub("{s}", KW)
    EW = "(vget {e} %s)" % KW
    W = "(wit {s} {e})"
    add("B1  a non-empty selection has a selected path that is present (witness)",
        [("s", "Tree"), ("e", "Val")],
        [sel_at("{s}", "{e}", KW),
         # choice: a non-empty map has a key
         "(=> (not (= (dm (sel {{s}} {{e}})) emptymap)) (not (= (select (dm (sel {{s}} {{e}})) {k}) none)))".format(k=KW),
         # definition of the witness path: the key, extended by the witness of the sub-tree when the key itself is unselected
         ("(= {w} (ite (and (not (select (t_keys {{s}}) {k})) ((_ is someT) (select (t_subs {{s}}) {k})) (not (t_incl {s1})) "
          "(isD {e1})) (pcons {k} (wit {s1} {e1})) (pcons {k} pnil)))").format(w=W, k=KW, s1=SW, e1=EW),
         selp_unf("{s}", W), walkp_unf("{e}", W), walkp_unf(EW, "pnil"), sel_isd(SW, EW), b1_stmt(SW, EW)],
        b1_stmt("{s}", "{e}"),
        "structural induction on the tree; somekey: a key of a non-empty map (choice), wit: defined by recursion on the tree")
    # ---- C
    SC = sub("{t}", "{k}")
    C1, C2 = "(vget {d1} {k})", "(vget {d2} {k})"
    PK1 = "(pcons {k} pnil)"
    W1, W2 = "(pcons {k} (wit %s %s))" % (SC, C1), "(pcons {k} (wit %s %s))" % (SC, C2)
    hyps_c = [sel_at("{t}", "{d1}", "{k}"), sel_at("{t}", "{d2}", "{k}"), sel_isd(SC, C1), sel_isd(SC, C2)]
    for P in (PK1, W1, W2):
        hyps_c += [agree_at("{t}", "{d1}", "{d2}", P), selp_unf("{t}", P), walkp_unf("{d1}", P), walkp_unf("{d2}", P)]
    hyps_c += [walkp_unf(C1, "pnil"), walkp_unf(C2, "pnil"),
               walkp_unf(C1, "(wit %s %s)" % (SC, C2)), walkp_unf(C2, "(wit %s %s)" % (SC, C1)),
               # K + E: full agreement under a fully selected key, hence equal items
               "(=> (and (agreeT {t} {d1} {d2}) (isD {d1}) (isD {d2}) (vhas {d1} {k}) (vhas {d2} {k}) %s) (fullag %s %s))"
               % (fully_selected("{t}", "{k}"), C1, C2),
               "(=> (fullag %s %s) (= %s %s))" % (C1, C2, C1, C2),
               # H + induction hypothesis at the sub-tree
               "(=> (and (agreeT {t} {d1} {d2}) (isD {d1}) (isD {d2}) (vhas {d1} {k}) (vhas {d2} {k}) "
               "(not (select (t_keys {t}) {k})) ((_ is someT) (select (t_subs {t}) {k}))) (agreeT %s %s %s))" % (SC, C1, C2),
               "(=> (and (isD %s) (isD %s) (agreeT %s %s %s)) (= (sel %s %s) (sel %s %s)))" % (C1, C2, SC, C1, C2, SC, C1, SC, C2),
               b1_stmt(SC, C1), b1_stmt(SC, C2)]
    add("C  contexts that agree on every selected path have equal selections (item by item)",
        [("t", "Tree"), ("d1", "Val"), ("d2", "Val"), ("k", "Key")],
        hyps_c,
        "(=> (and (isD {d1}) (isD {d2}) (agreeT {t} {d1} {d2})) "
        "(= (select (dm (sel {t} {d1})) {k}) (select (dm (sel {t} {d2})) {k})))",
        "structural induction on the tree, for an arbitrary key k; uses K, E (fully selected keys), H (descent), B1 (a "
        "dictionary facing a scalar / nothing under an unselected key has an empty selection)")
    add("C2  ... hence the selections are equal (the contexts agree => same group)",
        [("t", "Tree"), ("d1", "Val"), ("d2", "Val")],
        ["(isD (sel {t} {d1}))", "(isD (sel {t} {d2}))",
         "(forall ((k Key)) (! (= (select (dm (sel {t} {d1})) k) (select (dm (sel {t} {d2})) k)) "
         ":pattern ((select (dm (sel {t} {d1})) k))))"],
        "(= (sel {t} {d1}) (sel {t} {d2}))", "extensionality of dictionaries (conclusion of C for every key)")


# --------------------------------------------------------------------------------------- _group_by_starting_prefixes
def declare_tails(reg):
    """tails_of(keys, k, n): the tails of those of the first n key tuples whose first element is k, in their order"""
    lk = reg.lst("Key")
    ll = reg.lst(lk)
    empty = reg.l_empty_canonical(ll).s
    item = "(select (arr_{ll} ks) (- n 1))".format(ll=ll)
    tail = "(mk_{lk} (lambda ((si Int)) (select (arr_{lk} {item}) (+ si 1))) (- (len_{lk} {item}) 1))".format(lk=lk, item=item)
    rec = "(tails_of ks k (- n 1))"
    app = "(mk_{ll} (store (arr_{ll} {rec}) (len_{ll} {rec}) {tail}) (+ (len_{ll} {rec}) 1))".format(ll=ll, rec=rec, tail=tail)
    # (an uninterpreted symbol with its defining equation as a patterned axiom: z3 rejects the define-fun-rec form of this
    # definition -- "Sorts Bool and Lst_Lst_Key are incompatible" -- when it meets quantified hypotheses)
    reg.ufun("tails_of", [ll, "Key", "Int"], ll)
    ax = T("(forall ((ks {ll}) (k Key) (n Int)) (! (= (tails_of ks k n) (ite (<= n 0) {empty} "
           "(ite (= (select (arr_{lk} {item}) 0) k) {app} {rec}))) :pattern ((tails_of ks k n))))".format(
               ll=ll, lk=lk, empty=empty, item=item, app=app, rec=rec), "Bool")
    if not any(a.s == ax.s for a in reg.axioms):
        reg.axioms.append(ax)
    return ll


def sp_tails_of(ip, st, pos, kws):
    from pyvc.speclib import lst_term
    ll = declare_tails(ip.reg)
    ks = lst_term(ip, st, pos[0], ll)
    return ip.lst_view(T("(tails_of %s %s %s)" % (ks.s, ip.key_term(pos[1]).s, ip.num(pos[2]).s), ll))


def register_gbsp(ix):
    """`Group keys by common starting prefixes ... The starting prefix is the first element of the key tuple, while the rest is
    its tail.  Returns a dictionary of key prefixes to lists of tails of keys with those starting prefixes`: the keys of the
    result are the first elements that occur, and under each the tails of ALL the key tuples starting with it (wherever
    they stand in the list), in their order."""
    ix.spec_names["tails_of"] = sp_tails_of
    ix.add(Contract(
        IE, "_group_by_starting_prefixes", props=["C15"],
        params={"keys": LL}, result="KeyMap[Lst[Key]]",
        requires=["all(len(keys[i]) > 0 for i in range(len(keys)))"],      # (`every key returned by _split_key is non-empty`)
        raises={},
        ensures=["all_keys(lambda k: has_group(result, k) == any(keys[i][0] == k for i in range(len(keys))))",
                 "all_keys(lambda k: same(group(result, k), tails_of(keys, k, len(keys))))",
                 "keys == old(keys)"],
        local_types={"gbsp": "KeyMap[Lst[Key]]"},
        loops={0: LoopSpec(invariant=[
            "all_keys(lambda k: has_group(gbsp, k) == (k in start_prefixes))",
            "all_keys(lambda k: same(group(gbsp, k), tails_of(keys, k, _i)))"])}))
