"""P_iet -- include / exclude trees and what GroupBy groups by (property C15).

Sidecar contracts of lena/context/include_exclude_tree.py (IncludeExcludeTree.get ...).

Trees are values of the SMT datatype Tree (pyvc/iet.py): mkT(include, keys, subtrees).

Reference function  sel(t, d)  = "the parts of the dictionary d corresponding to the tree t", written from the docstrings
of IncludeExcludeTree and the property text (C15):
  * `keys is a set of flat strings ... if include is True, this tree includes by default and the explicit keys should be
    excluded in get.  Otherwise the keys should be included.`   -- an item of d under a key in t.keys is dropped
    (include) / kept as it is (not include); an item under a key that is neither in keys nor in subtrees is kept (include)
    / dropped (not include);
  * `subtrees is a mapping from string keys to actual include-exclude trees`   -- for a key with a subtree s the item is
    restricted by s: a dictionary value v becomes sel(s, v);
  * property: `two values share a group exactly when their contexts agree on every key path whose longest prefix listed in
    group_by or merge is a group_by entry`.  s.include tells whether the path of the key itself is selected (its longest
    listed prefix is then a group_by entry): if it is, the item counts as it is found -- a dictionary (restricted), or a
    scalar (`scalars where a listed path expects a dictionary`); if it is not, only the selected paths below it count: a
    scalar has none (dropped), a dictionary is kept exactly when its restriction holds something (an empty shell of an
    unselected path must not distinguish two contexts)."""
from pyvc.contracts import Contract, LoopSpec, ClassSpec
from pyvc.smt import T
from pyvc.sym import Opaque, Bool
from pyvc.dicts import dterm
from pyvc.verify import Lemma

IE = "lena/context/include_exclude_tree.py"
GB = "lena/flow/group_by.py"

# one item of sel(t, d) at key k
SEL_ITEM = """(define-fun sel_item ((t Tree) (d Val) (k Key)) Opt
  (ite (not (vhas d k)) none
  (ite (select (t_keys t) k) (ite (t_incl t) none (select (dm d) k))
  (ite ((_ is someT) (select (t_subs t) k))
       (ite (isD (vget d k))
            (ite (or (t_incl (theT (select (t_subs t) k))) (not (= (sel (theT (select (t_subs t) k)) (vget d k)) (D emptymap))))
                 (some (sel (theT (select (t_subs t) k)) (vget d k)))
                 none)
            (ite (t_incl (theT (select (t_subs t) k))) (select (dm d) k) none))
       (ite (t_incl t) (select (dm d) k) none)))))"""


def sel_def(t, d):
    """definition of the reference function sel at these arguments (one unfolding, as for diff / upd in C07.py)"""
    r = "(sel %s %s)" % (t, d)
    return ("(=> (isD {d}) (and (isD {r}) (forall ((sk Key)) (! (= (select (dm {r}) sk) (sel_item {t} {d} sk)) "
            ":pattern ((select (dm {r}) sk))))))").format(t=t, d=d, r=r)


def declare_sel(reg):
    from pyvc.iet import declare_tree
    declare_tree(reg)
    reg.ufun("sel", ["Tree", "Val"], "Val")
    reg.fun_decl("sel_item", SEL_ITEM)


def _tree(ip, st, v):
    from pyvc.iet import tree_term
    from pyvc.interp import Unsupported
    t = tree_term(ip, st, v)
    if t is None:
        raise Unsupported("include/exclude tree expected, got %r" % (v,))
    return t


def sp_sel(ip, st, pos, kws):
    """sel(t, d): the reference function (t: a tree value or a tree object)"""
    declare_sel(ip.reg)
    t, d = _tree(ip, st, pos[0]), dterm(ip, st, pos[1])
    if not ip.bound_stack:
        ax = T(sel_def(t.s, d.s), "Bool")
        if not any(x.s == ax.s for x in st.pc):
            st.pc.append(ax)           # definition of the reference function at these arguments
    return Opaque(T("(sel %s %s)" % (t.s, d.s), "Val"))


def sp_sel_item(ip, st, pos, kws):
    declare_sel(ip.reg)
    t, d = _tree(ip, st, pos[0]), dterm(ip, st, pos[1])
    return Opaque(T("(sel_item %s %s %s)" % (t.s, d.s, ip.key_term(pos[2]).s), "Opt"))


def sp_sel_of_seen(ip, st, pos, kws):
    """sel_of_seen(r, t, d): the dictionary r holds exactly the items of sel(t, d) under the keys the enclosing loop over d has
    visited so far (the same statement as all_keys(lambda k: item(r, k) == (sel_item(t, d, k) if seen(k) else absent())),
    with the instantiation pattern item(r, k) when it is used as a hypothesis)"""
    declare_sel(ip.reg)
    r, t, d = dterm(ip, st, pos[0]), _tree(ip, st, pos[1]), dterm(ip, st, pos[2])
    q = "sq%d" % next(ip.bound)
    seen = st.env["$seen"].t.s
    return Bool(T("(forall (({q} Key)) (! (= (select (dm {r}) {q}) (ite (select {seen} {q}) (sel_item {t} {d} {q}) none)) "
                  ":pattern ((select (dm {r}) {q}))))".format(q=q, r=r.s, t=t.s, d=d.s, seen=seen), "Bool"))


def sp_iet_get(ip, st, pos, kws):
    """iet_get(ident(tree_object), d) -- the vocabulary of P_acc.py (clauses of GroupBy.fill), where it was an uninterpreted
    function of the object's name: now what the proved contract of IncludeExcludeTree.get says, sel(value of that object, d)"""
    import re
    from pyvc.sym import Ref
    from pyvc.interp import Unsupported
    o = pos[0]
    m = re.match(r"^\|obj:(.*)\|$", o.t.s) if isinstance(o, Opaque) and o.sort == "Obj" else None
    if m is None or m.group(1) not in st.heap:
        raise Unsupported("iet_get: the first argument must be ident(<include/exclude tree object>)")
    return sp_sel(ip, st, [Ref(m.group(1)), pos[1]], kws)


def replace(ix, c):
    """register c under its key INSTEAD of whatever an earlier module registered there (an assumed contract)"""
    for lst in ix.by_simple.values():
        lst[:] = [x for x in lst if x.key != c.key]
    return ix.add(c)


def register(ix):
    ix.spec_names["sel"] = sp_sel
    ix.spec_names["sel_item"] = sp_sel_item
    ix.spec_names["sel_of_seen"] = sp_sel_of_seen
    ix.spec_names["iet_get"] = sp_iet_get
    register_get(ix)
    register_init(ix)


def register_get(ix):
    # the class as seen by callers that hold a tree OBJECT (GroupBy._iet): three fields holding values
    cs = ix.classes.get("IncludeExcludeTree")
    if cs is None:
        cs = ix.add_class(ClassSpec("IncludeExcludeTree", IE, fields={}))
    cs.fields.update({"keys": "KeySet", "subtrees": "TreeMap", "include": "Bool"})
    LOOP = LoopSpec(invariant=[
        "isdict(result)",
        "sel_of_seen(result, self, context)"])
    replace(ix, Contract(
        IE, "IncludeExcludeTree.get", props=["C15", "C09"], dict_model="Val",
        params={"self": "Tree", "context": "Val"}, result="Val",
        requires=["isdict(context)"],
        raises={},
        ensures=["result == sel(self, context)"],
        loops={0: LOOP, 1: LOOP},
        notes="`self` and `context` are immutable values in the encoding (a store into either is refused by the engine): "
              "neither is changed.  The recursive call goes through this contract (termination: the value gets smaller; not "
              "an obligation of the engine)"))


def register_init(ix):
    """`keys is a set of flat strings ... subtrees is a mapping from string keys to actual include-exclude trees`; include:
    `if it is True, then this tree includes by default`: the new object IS the tree (keys, subtrees, bool(include))."""
    ix.add_class(ClassSpec("IncludeExcludeTree0", IE, fields={}, alias_of="IncludeExcludeTree"))
    ix.add(Contract(
        IE, "IncludeExcludeTree.__init__", props=["C15"],
        params={"self": "Self[IncludeExcludeTree0]", "keys": "KeySet", "subtrees": "TreeMap", "include": "Bool"},
        raises={},
        ensures=["self.keys == keys", "self.subtrees == subtrees", "self.include == include"],
        modifies=["self.keys", "self.subtrees", "self.include"],
        post_class="IncludeExcludeTree"))
