"""P_out -- output pipeline (C19) and the rest of Cache (C18).

Sidecar contracts of lena/output/write.py (`Write._make_filename`, the nested `is_writable` of Write.run: both PROVED here and
registered under the keys of the assumed contracts of C19.py, which they replace), lena/output/make_filename.py,
lena/output/latex_to_pdf.py, lena/output/pdf_to_png.py, lena/output/render_latex.py and Cache.alter_sequence.

Strings are symbolic `Str` values (sort Key); `a + b` is the function kcat(a, b); a context item that is used as a string
must be one (obligation at the use, discharged from the `requires` clauses that type the output keys)."""
from pyvc.contracts import Contract, LoopSpec, ClassSpec
from pyvc.smt import T, I, AND, OR, NOT, EQ, ITE
from pyvc.sym import Bool, Opaque, Str, Ref, ValCell

WR = "lena/output/write.py"
CF = "lena/context/functions.py"


# --------------------------------------------------------------------------------------------------------- vocabulary
def _val(ip, st, v):
    from pyvc.dicts import dterm
    return dterm(ip, st, v)


def sp_out_item(ip, st, pos, kws):
    """out_item(context, name): the entry context['output'][name] as an optional value (absent() when context has no
    dictionary 'output' or that has no such key)"""
    ip.reg.need_val()
    c = _val(ip, st, pos[0])
    ko, k = ip.reg.key("output"), ip.key_term(pos[1])
    sub = "(vget %s %s)" % (c.s, ko.s)
    return Opaque(T("(ite (and (isD %s) (vhas %s %s) (isD %s)) (select (dm %s) %s) none)" % (c.s, c.s, ko.s, sub, sub, k.s), "Opt"))


def sp_is_False(ip, st, pos, kws):
    """is_False(x): the context value x is the object False"""
    from pyvc.dicts import val_is_const
    return Bool(val_is_const(ip, _val(ip, st, pos[0]), False))


def sp_is_string(ip, st, pos, kws):
    """is_string(x): the context value x is a string"""
    from pyvc.dicts import val_is_string
    return Bool(val_is_string(ip, _val(ip, st, pos[0])))


def sp_as_str(ip, st, pos, kws):
    """as_str(x): the string a context value is (meaningful under is_string(x))"""
    from pyvc.dicts import val_as_key_term
    v = pos[0]
    if isinstance(v, Str) or (isinstance(v, Opaque) and v.sort == "Key"):
        return v
    return Opaque(val_as_key_term(ip, _val(ip, st, v)))


def sp_writable(ip, st, pos, kws):
    """writable(data, context)  (docstring of Write.run): context.output.write is not False, and the data is a string or
    has a callable attribute `write`"""
    from pyvc.builtins_ import has_attr, is_callable, type_test
    from pyvc.dicts import val_is_const
    from pyvc.sym import Fun
    data = pos[0]
    w = sp_out_item(ip, st, [pos[1], Str("write")], {})
    forbidden = AND(NOT(EQ(w.t, T("none", "Opt"))), val_is_const(ip, T("(the %s)" % w.t.s, "Val"), False))
    obj = AND(has_attr(ip, st, data, "write"), is_callable(ip, st, Fun("method", recv=data, name="write")))
    return Bool(AND(NOT(forbidden), OR(obj, type_test(ip, st, data, "str"))))


# -------------------------------------------------------------------------------------------------------------- Write
def register_write(ix):
    for n, f in [("out_item", sp_out_item), ("is_False", sp_is_False), ("is_string", sp_is_string), ("as_str", sp_as_str)]:
        ix.spec_names[n] = f
    # get_recursively(d, "a.b", default): a further case of the C08 contract (dotted string AND a default)
    KS = "dot_components(keys)"
    gr = ix.by_key[(CF, "get_recursively")]
    if not any(c.name == "get_recursively[dotted string, default]" for c in gr.cases):      # (P_sel adds the same case)
      gr.cases.append(Contract(
        CF, "get_recursively", name="get_recursively[dotted string, default]",
        params={"d": "Val", "keys": "Str", "default": "Val"}, result="Val",
        raises={"LenaTypeError": "not isdict(d)"},
        ensures=["walk(d, %s, 0, len(%s)) != absent() implies present(result) == walk(d, %s, 0, len(%s))" % (KS, KS, KS, KS),
                 "walk(d, %s, 0, len(%s)) == absent() implies result == default" % (KS, KS)],
        loops={2: LoopSpec(invariant=[
            "isdict(d)",
            "walk(d, keys, _i, len(keys)) == walk(old(d), keys, 0, len(keys))"])}))
    # the selection predicate of Write: now DEFINED (C19.py declared it uninterpreted and assumed the helper computes it)
    ix.spec_names["writable"] = sp_writable
    replace(ix, Contract(
        WR, "Write.run.is_writable", props=["C19", "C10"],
        params={"data": "V", "context": "Dict"}, result="Bool",
        requires=["isdict(context)"],
        raises={},
        ensures=["result == writable(data, context)"],
        notes="docstring of Write.run: only strings and objects with a method write are written; a value whose "
              "context.output.write is False is not written"))


def replace(ix, c):
    """register c under its key INSTEAD of the contract registered there before (the assumed contracts of C19.py)"""
    old = ix.by_key.get(c.key)
    if old is not None:
        ix.by_simple[old.simple] = [x for x in ix.by_simple.get(old.simple, []) if x is not old]
    return ix.add(c)


def register(ix):
    register_write(ix)
