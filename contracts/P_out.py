"""P_out -- the output pipeline (C19) and the rest of Cache (C18).  Loaded after C19.py and P_sel.py.

lena/output/write.py        Write._make_filename and the nested is_writable of Write.run: PROVED here and registered under the
                            keys of the assumed (trusted) contracts of C19.py, which they replace; `writable(data, context)`
                            is now a defined predicate.  Write.run (contract in C19.py) is proved against them; the
                            preconditions of _make_filename are added to its well-formedness assumption on contexts.
lena/output/make_filename.py MakeFilename.__init__ (all 32 argument combinations + non-strings), __call__ (configurations of
                            one or two keys, with / without a static context) against the reference function mf_context
                            written from the docstring, _set_context; lemma "a pending suffix is applied exactly once".
lena/output/latex_to_pdf.py LaTeXToPDF.run, lena/output/pdf_to_png.py PDFToPNG.run: the DECISION which files are converted
                            (qualkey "...#C19"; the C10 clauses of the same functions are in P_sel.py); the external
                            command is an assumed action that creates the target file.
lena/flow/cache.py          Cache.alter_sequence.

Strings are symbolic `Str` values (sort Key); `a + b` is the function kcat(a, b); a context item that is used as a string
must be one (obligation at the use, discharged from the `requires` clauses that type the output keys)."""
from pyvc.contracts import Contract, LoopSpec, ClassSpec
from pyvc.smt import T, I, AND, OR, NOT, EQ, ITE
from pyvc.sym import Bool, Opaque, Str, Ref, ValCell

WR = "lena/output/write.py"
CF = "lena/context/functions.py"


# --------------------------------------------------------------------------------------------------------- vocabulary
def _val(ip, st, v):
    from pyvc.dicts import dterm
    return dterm(ip, st, v)


def sp_out_item(ip, st, pos, kws):
    """out_item(context, name): the entry context['output'][name] as an optional value (absent() when context has no
    dictionary 'output' or that has no such key)"""
    ip.reg.need_val()
    c = _val(ip, st, pos[0])
    ko, k = ip.reg.key("output"), ip.key_term(pos[1])
    sub = "(vget %s %s)" % (c.s, ko.s)
    return Opaque(T("(ite (and (isD %s) (vhas %s %s) (isD %s)) (select (dm %s) %s) none)" % (c.s, c.s, ko.s, sub, sub, k.s), "Opt"))


def sp_is_False(ip, st, pos, kws):
    """is_False(x): the context value x is the object False"""
    from pyvc.dicts import val_is_const
    return Bool(val_is_const(ip, _val(ip, st, pos[0]), False))


def sp_is_string(ip, st, pos, kws):
    """is_string(x): the context value x is a string"""
    from pyvc.dicts import val_is_string
    return Bool(val_is_string(ip, _val(ip, st, pos[0])))


def sp_as_str(ip, st, pos, kws):
    """as_str(x): the string a context value is (meaningful under is_string(x))"""
    from pyvc.dicts import val_as_key_term
    v = pos[0]
    if isinstance(v, Str) or (isinstance(v, Opaque) and v.sort == "Key"):
        return v
    return Opaque(val_as_key_term(ip, _val(ip, st, v)))


def sp_writable(ip, st, pos, kws):
    """writable(data, context)  (docstring of Write.run): context.output.write is not False, and the data is a string or
    has a callable attribute `write`"""
    from pyvc.builtins_ import has_attr, is_callable, type_test
    from pyvc.dicts import val_is_const
    from pyvc.sym import Fun
    data = pos[0]
    w = sp_out_item(ip, st, [pos[1], Str("write")], {})
    forbidden = AND(NOT(EQ(w.t, T("none", "Opt"))), val_is_const(ip, T("(the %s)" % w.t.s, "Val"), False))
    obj = AND(has_attr(ip, st, data, "write"), is_callable(ip, st, Fun("method", recv=data, name="write")))
    return Bool(AND(NOT(forbidden), OR(obj, type_test(ip, st, data, "str"))))


# -------------------------------------------------------------------------------------------------------------- Write
def register_write(ix):
    for n, f in [("out_item", sp_out_item), ("is_False", sp_is_False), ("is_string", sp_is_string), ("as_str", sp_as_str)]:
        ix.spec_names[n] = f
    # get_recursively(d, "a.b", default): a further case of the C08 contract (dotted string AND a default)
    KS = "dot_components(keys)"
    gr = ix.by_key[(CF, "get_recursively")]
    if not any(c.name == "get_recursively[dotted string, default]" for c in gr.cases):      # (P_sel adds the same case)
      gr.cases.append(Contract(
        CF, "get_recursively", name="get_recursively[dotted string, default]",
        params={"d": "Val", "keys": "Str", "default": "Val"}, result="Val",
        raises={"LenaTypeError": "not isdict(d)"},
        ensures=["walk(d, %s, 0, len(%s)) != absent() implies present(result) == walk(d, %s, 0, len(%s))" % (KS, KS, KS, KS),
                 "walk(d, %s, 0, len(%s)) == absent() implies result == default" % (KS, KS)],
        loops={2: LoopSpec(invariant=[
            "isdict(d)",
            "walk(d, keys, _i, len(keys)) == walk(old(d), keys, 0, len(keys))"])}))
    # the selection predicate of Write: now DEFINED (C19.py declared it uninterpreted and assumed the helper computes it)
    ix.spec_names["writable"] = sp_writable
    replace(ix, Contract(
        WR, "Write.run.is_writable", props=["C19", "C10"],
        params={"data": "V", "context": "Dict"}, result="Bool",
        requires=["isdict(context)"],
        raises={},
        ensures=["result == writable(data, context)"],
        notes="docstring of Write.run: only strings and objects with a method write are written; a value whose "
              "context.output.write is False is not written"))


def sp_path_isabs(ip, st, pos, kws):
    """path_isabs(p): os.path.isabs(p)  (posix: p starts with '/')"""
    from pyvc.lib import key_startswith, str_operand
    return Bool(key_startswith(ip, ip.key_term(str_operand(ip, st, pos[0], "path_isabs")), ip.reg.key("/")))


def sp_path_join(ip, st, pos, kws):
    """path_join(a, b, ...): os.path.join(a, b, ...)"""
    from pyvc.lib import path_join_term, str_operand
    return Opaque(path_join_term(ip, [ip.key_term(str_operand(ip, st, p, "path_join")) for p in pos]))


OUT_KEYS = ("dirname", "filename", "fileext", "filetype")
# what Write assumes about context.output of the values it writes (stated over the dictionary `o` = context.output)
def out_typing(o):
    return ["'%s' in %s implies is_string(%s['%s'])" % (k, o, o, k) for k in OUT_KEYS] + \
           ["'%s' in %s implies not path_isabs(%s['%s'])" % (k, o, o, k) for k in ("dirname", "filename")]


def register_make_filename_of_write(ix):
    ix.spec_names["path_isabs"] = sp_path_isabs
    ix.spec_names["path_join"] = sp_path_join
    EXT, NAME, DIR, PATH = "result[2]", "result[1]", "result[0]", "result[3]"
    replace(ix, Contract(
        WR, "Write._make_filename", props=["C19"], ghost={"paths": True},
        params={"self": "Self[Write]", "outputc": "Dict"}, result="Tuple[Val,Val,Val,Str]",
        requires=["isdict(outputc)", "not path_isabs(self._output_filename)"] + out_typing("outputc"),
        # docstring of Write.run: "If context.output.filename is present but empty, LenaRuntimeError is raised"
        raises={"LenaRuntimeError": "'filename' in outputc and not outputc['filename']"},
        raises_frame="pure",
        ensures=[
            # "If fileext is missing, then filetype is used; if it is also absent, the default file extension is txt"
            "'fileext' in outputc implies %s == outputc['fileext']" % EXT,
            "'fileext' not in outputc and 'filetype' in outputc implies %s == outputc['filetype']" % EXT,
            "'fileext' not in outputc and 'filetype' not in outputc implies %s == 'txt'" % EXT,
            # "If filename is missing, Write's default filename is used"
            "'filename' in outputc implies %s == outputc['filename']" % NAME,
            "'filename' not in outputc implies %s == self._output_filename" % NAME,
            "'dirname' in outputc implies %s == outputc['dirname']" % DIR,
            "'dirname' not in outputc implies %s == ''" % DIR,
            # "filepath has the form self.output_directory/dirname/filename.fileext"
            "%s implies %s == path_join(self.output_directory, %s, as_str(%s) + '.' + as_str(%s))" % (EXT, PATH, DIR, NAME, EXT),
            "not %s implies %s == path_join(self.output_directory, %s, %s)" % (EXT, PATH, DIR, NAME),
            "is_string(%s) and is_string(%s) and is_string(%s)" % (DIR, NAME, EXT)],
        modifies=[],
        notes="replaces the assumed contract of C19.py.  requires: the output keys are strings and the names are relative "
              "(docstring: dirname is always relative to self.output_directory; an absolute name draws a RuntimeWarning)"))
    # FINDING (not part of any check: props=[]): without the precondition "names are relative" the docstring's exception
    # clause (LenaRuntimeError for an empty filename, nothing else) FAILS: the `assert not os.path.isabs(path)` of
    # normalize_path raises AssertionError for a name that starts with two slashes (dirname "//x").
    ix.add(Contract(
        WR, "Write._make_filename", qualkey="Write._make_filename#any-names", name="Write._make_filename[names not known to be relative]",
        props=[], ghost={"paths": True},
        params={"self": "Self[Write]", "outputc": "Dict"}, result="Tuple[Val,Val,Val,Str]",
        requires=["isdict(outputc)"] + out_typing("outputc")[:len(OUT_KEYS)],
        raises={"LenaRuntimeError": "'filename' in outputc and not outputc['filename']"},
        notes="fails (sat) at the assert of normalize_path: kept as a record of the finding, see the final report"))
    # the caller's side: Write.run (contract in C19.py) must establish these preconditions for every value it writes:
    # they become part of its well-formedness assumption on contexts / its precondition on the element
    wr = ix.by_key.get((WR, "Write.run"))
    if wr is not None:
        wf = list(wr.ghost.get("ctx_wf", []))
        for cl in out_typing("c['output']"):
            cl = "'output' in c implies " + cl          # (`implies` is right associative)
            if cl not in wf:
                wf.append(cl)
        wr.ghost["ctx_wf"] = wf
        if "not path_isabs(self._output_filename)" not in wr.requires:
            wr.requires.append("not path_isabs(self._output_filename)")


# ------------------------------------------------------------------------------------------------------- MakeFilename
MF = "lena/output/make_filename.py"
MF_KEYS = ("prefix", "suffix", "filename", "dirname", "fileext")       # the order in which __init__ builds `_methods`
MF_WF = ["not ('output' in c) or isdict(c['output'])"] + \
        ["'output' in c implies '%s' in c['output'] implies is_string(c['output']['%s'])" % (k, k) for k in ("prefix", "suffix")]


def mf_configs():
    """the argument combinations __init__ accepts: at least one of the five, filename excludes prefix and suffix"""
    out = []
    for m in range(1, 32):
        sel = tuple(k for j, k in enumerate(MF_KEYS) if m & (1 << j))
        if "filename" in sel and ("prefix" in sel or "suffix" in sel):
            continue
        out.append(sel)
    return out


def mf_class(sel, static=False):
    return "MakeFilename%s_%s" % ("C" if static else "", "_".join(sel))


def _fmt_term(ip, name, args, sort):
    f = ip.reg.ufun(name, [a.sort for a in args], sort)
    return T("(%s %s)" % (f, " ".join(a.s for a in args)), sort)


def sp_fmt_missing(ip, st, pos, kws):
    """fmt_missing(f, d): the context d lacks a key the format string f needs (the formatter raises LenaKeyError)"""
    return Bool(_fmt_term(ip, "fmt_missing", [ip.key_term(pos[0]), _val(ip, st, pos[1])], "Bool"))


def sp_fmt_apply(ip, st, pos, kws):
    """fmt_apply(f, d): the string the formatter of f makes from the context d"""
    return Opaque(_fmt_term(ip, "fmt_apply", [ip.key_term(pos[0]), _val(ip, st, pos[1])], "Key"))


def sp_fmt_malformed(ip, st, pos, kws):
    """fmt_malformed(f): format_context(f) refuses the string f (unbalanced or single braces)"""
    return Bool(_fmt_term(ip, "fmt_malformed", [ip.key_term(pos[0])], "Bool"))


def _mf_walk(ip, st, self_ref, c0):
    """the docstring of MakeFilename.__call__ as a function: (final context, modified?) from the element's configuration
    (read from the heap object) and the context c0 the value arrives with.  Every step sees the context as the steps
    before it left it."""
    from pyvc.dicts import scalar, key_as_val, val_as_key_term, string_embedding
    from pyvc.sym import ObjCell, PyListCell, Tup
    reg = ip.reg
    string_embedding(ip)
    upd = ip.contracts.spec_names["upd_spec"]
    cell = st.heap[self_ref.cid]
    ow = cell.fields["_overwrite"].t
    static = cell.fields.get("_context")
    sc = _val(ip, st, static) if static is not None else None
    ko = reg.key("output")
    c, modified = c0, T("false", "Bool")

    def out_get(c, k):          # context.output.<k> as an optional value (contexts are well formed: output is a dictionary)
        return T("(ite (vhas %s %s) (select (dm (vget %s %s)) %s) none)" % (c.s, ko.s, c.s, ko.s, reg.key(k).s), "Opt")

    def present(o):
        return NOT(EQ(o, T("none", "Opt")))

    def the(o):
        return T("(the %s)" % o.s, "Val")

    def truthy(v):
        return T("(vtruthy %s)" % v.s, "Bool")

    def cat(a, b):
        return T("(%s %s %s)" % (reg.ufun("kcat", ["Key", "Key"], "Key"), a.s, b.s), "Key")

    def nest(k, res):           # {"output": {k: res}}
        return T("(D (store emptymap %s (some (D (store emptymap %s (some %s))))))" % (ko.s, reg.key(k).s, key_as_val(ip, res).s), "Val")

    def drop(c, k):             # del context["output"][k]
        return T("(D (store (dm %s) %s (some (D (store (dm (vget %s %s)) %s none)))))" % (c.s, ko.s, c.s, ko.s, reg.key(k).s), "Val")
    methods = st.heap[cell.fields["_methods"].cid].items
    for item in methods:
        key, fm = item.items[0].s, st.heap[item.items[1].cid].fields["fmt"].t
        if sc is not None:
            # deepcopy(static context).update(context): the engine's term for d.update(o) (its axiom -- keys of o
            # overwrite, the others stay -- is stated where the code performs the update)
            full = T("(%s %s %s)" % (reg.ufun("dict_update", ["Val", "Val"], "Val"), sc.s, c.s), "Val")
        else:
            full = c
        can = NOT(_fmt_term(ip, "fmt_missing", [fm, full], "Bool"))
        res = _fmt_term(ip, "fmt_apply", [fm, full], "Key")
        cur = out_get(c, key)
        if key in ("filename", "dirname", "fileext"):
            # "set context.output.{filename,dirname,fileext} (if they didn't exist)" / "this can be changed using overwrite"
            applies = AND(OR(ow, NOT(present(cur))), can)
        else:
            # "prefix and suffix always update their existing keys in the context if they could be formatted"
            applies = can
        nc = c
        if key == "filename":
            # "output.prefix or output.suffix ... are prepended to or appended after the file name.  After that they are
            # removed from context.output"
            pre, suf = out_get(c, "prefix"), out_get(c, "suffix")
            e = reg.key("")
            pk = ITE(present(pre), val_as_key_term(ip, the(pre)), e)
            sk = ITE(present(suf), val_as_key_term(ip, the(suf)), e)
            res = cat(cat(pk, res), sk)
            nc = ITE(AND(present(pre), truthy(the(pre))), drop(nc, "prefix"), nc)
            nc = ITE(AND(present(suf), truthy(the(suf))), drop(nc, "suffix"), nc)
        elif key in ("prefix", "suffix"):
            # "prefix is prepended before the existing prefix, and suffix is appended after the existing suffix, unless
            # overwrite is set to True: in that case they are overwritten"
            joined = cat(res, val_as_key_term(ip, the(cur))) if key == "prefix" else cat(val_as_key_term(ip, the(cur)), res)
            res = ITE(AND(present(cur), truthy(the(cur)), NOT(ow)), joined, res)
        new = upd(ip, st, [Opaque(nc), Opaque(nest(key, res))], {}).t
        c = ITE(applies, new, c)
        modified = OR(modified, applies)
    return c, modified


def sp_mf_context(ip, st, pos, kws):
    """mf_context(self, c0): the context MakeFilename.__call__ leaves for a value that arrived with context c0"""
    return Opaque(_mf_walk(ip, st, pos[0], _val(ip, st, pos[1]))[0])


def sp_mf_modified(ip, st, pos, kws):
    """mf_modified(self, c0): some key could be set (else the value passes unchanged)"""
    return Bool(_mf_walk(ip, st, pos[0], _val(ip, st, pos[1]))[1])


def wrap_upd_spec(ix):
    """upd_spec(d, o) of C07 adds the definition of the reference function `upd` at (d, o).  For a dictionary display
    o = {k: {...}} the definition at the next level, upd(d[k] or {}, o[k]), is added as well (an instance of the same
    definitional axiom, hence as sound as the first): code that updates a context twice needs it."""
    import re
    from contracts.C07 import upd_def, declare_upd
    orig = ix.spec_names["upd_spec"]
    if getattr(orig, "_nested", False):
        return
    pat = re.compile(r"^\(D \(store emptymap (\|[^|]*\|) \(some (\(D \(store emptymap .*\))\)\)\)$")

    def sp(ip, st, pos, kws):
        r = orig(ip, st, pos, kws)
        if not ip.bound_stack:
            d, o = _val(ip, st, pos[0]), _val(ip, st, pos[1])
            m = pat.match(o.s)
            if m:
                k, sub = m.group(1), m.group(2)
                dk = "(ite (isD (vget {d} {k})) (vget {d} {k}) (D emptymap))".format(d=d.s, k=k)
                declare_upd(ip.reg)
                ax = T(upd_def(dk, sub), "Bool")
                if not any(x.s == ax.s for x in st.pc):
                    st.pc.append(ax)
        return r
    sp._nested = True
    ix.spec_names["upd_spec"] = sp


def lem_exactly_once(ip, st):
    """over the reference function of MakeFilename.__call__ (which the code is proved to compute): in the pipeline
    MakeFilename(suffix=..), MakeFilename(filename=..), MakeFilename(filename=..) the suffix ends up in the file name
    exactly once -- the element that makes the name consumes the pending suffix, a later one finds nothing to apply
    (and replaces the name only with overwrite)"""
    from pyvc.dicts import key_as_val
    from pyvc.interp import VC
    reg = ip.reg
    reg.need_val()
    a = ip.make("Self[%s]" % mf_class(("suffix",)), "a", st)
    b = ip.make("Self[%s]" % mf_class(("filename",)), "b", st)
    b2 = ip.make("Self[%s]" % mf_class(("filename",)), "b2", st)
    c0 = reg.new("c0", "Val")
    ko = reg.key("output")
    st.assume(T("(isD %s)" % c0.s, "Bool"))
    st.assume(T("(not (vhas %s %s))" % (c0.s, ko.s), "Bool"))          # a value that has no output context yet
    fmt = lambda o: st.heap[st.heap[st.heap[o.cid].fields["_methods"].cid].items[0].items[1].cid].fields["fmt"].t
    c1, _ = _mf_walk(ip, st, a, c0)
    c2, _ = _mf_walk(ip, st, b, c1)
    c3, _ = _mf_walk(ip, st, b2, c2)
    suf = _fmt_term(ip, "fmt_apply", [fmt(a), c0], "Key")
    name = _fmt_term(ip, "fmt_apply", [fmt(b), c1], "Key")
    name2 = _fmt_term(ip, "fmt_apply", [fmt(b2), c2], "Key")
    e = reg.key("")
    st.assume(NOT(_fmt_term(ip, "fmt_missing", [fmt(a), c0], "Bool")))
    st.assume(NOT(_fmt_term(ip, "fmt_missing", [fmt(b), c1], "Bool")))
    st.assume(NOT(EQ(suf, e)))
    ip.vcs.append(VC("cover requires", "cover", list(st.pc), T("false", "Bool"), ""))
    out = lambda c, k: T("(select (dm (vget %s %s)) %s)" % (c.s, ko.s, reg.key(k).s), "Opt")
    some = lambda k: T("(some %s)" % key_as_val(ip, k).s, "Opt")
    cat = lambda x, y: T("(kcat %s %s)" % (x.s, y.s), "Key")
    ow2 = st.heap[b2.cid].fields["_overwrite"].t
    ip.emit("lemma", "after the naming element: filename == '' + name + suffix", st, EQ(out(c2, "filename"), some(cat(cat(e, name), suf))))
    ip.emit("lemma", "after the naming element: the pending suffix is gone", st, EQ(out(c2, "suffix"), T("none", "Opt")))
    ip.emit("lemma", "a later naming element without overwrite changes nothing", st, OR(ow2, EQ(c3, c2)))
    ip.emit("lemma", "a later naming element with overwrite: the new name carries no suffix any more", st,
            OR(NOT(ow2), _fmt_term(ip, "fmt_missing", [fmt(b2), c2], "Bool"),
               EQ(out(c3, "filename"), some(cat(cat(e, name2), e)))))


def register_make_filename(ix):
    wrap_upd_spec(ix)
    from pyvc.verify import Lemma
    ix.lemmas.append(Lemma("MakeFilename: a pending suffix is applied exactly once", MF, ["C19"], lem_exactly_once,
                           notes="over the reference function mf_context of the __call__ contracts"))
    for n, f in [("fmt_missing", sp_fmt_missing), ("fmt_apply", sp_fmt_apply), ("fmt_malformed", sp_fmt_malformed),
                 ("mf_context", sp_mf_context), ("mf_modified", sp_mf_modified)]:
        ix.spec_names[n] = f
    # ---- lena.context.format_context, abstracted (library style, assumed): the formatter is an object that remembers its
    # format string; calling it is a function of the string and the context, or LenaKeyError
    ix.add_class(ClassSpec("Formatter", CF, fields={"fmt": "Str"}))
    ix.add(Contract(CF, "format_context", props=[], trusted=True,
                    params={"format_str": "Str"}, result="Inst[Formatter]",
                    raises={"LenaValueError": "fmt_malformed(format_str)"},
                    ensures=["result.fmt == format_str"],
                    notes="assumed (docstring of format_context): returns a formatting function bound to the string; "
                          "LenaValueError for unbalanced / single braces"))
    ix.add(Contract(CF, "Formatter.__call__", props=[], trusted=True,
                    params={"self": "Inst[Formatter]", "d": "Val"}, result="Str",
                    raises={"LenaKeyError": "fmt_missing(self.fmt, d)"},
                    ensures=["result == fmt_apply(self.fmt, d)"],
                    notes="assumed (docstring of format_context): the function returned by format_context formats the "
                          "context or raises LenaKeyError if the context lacks a needed key (other formatting errors of "
                          "str.format are out of the model)"))
    # ---- one class spec per accepted configuration (with and without a static context)
    item = lambda k: "Tuple[Str['%s'],Inst[Formatter]]" % k
    for sel in mf_configs():
        n = len(sel)
        mt = "PyList[%d,%s]" % (n, ",".join(item(k) for k in sel))
        ix.add_class(ClassSpec(mf_class(sel), MF, fields={"_overwrite": "Bool", "_methods": mt}, alias_of="MakeFilename"))
        ix.add_class(ClassSpec(mf_class(sel, True), MF, fields={"_overwrite": "Bool", "_methods": mt, "_context": "Dict"},
                               invariant=["isdict(self._context)"], alias_of="MakeFilename"))
    ix.add_class(ClassSpec("MakeFilename", MF, fields={}))
    # ---- __init__
    cases = []
    for m in range(32):
        given = tuple(k for j, k in enumerate(MF_KEYS) if m & (1 << j))
        params = {"self": "Self[MakeFilename]"}
        for k in ("filename", "dirname", "fileext", "prefix", "suffix"):
            params[k] = "Str" if k in given else "None"
        params["overwrite"] = "Bool"
        bad = (not given) or ("filename" in given and ("prefix" in given or "suffix" in given))
        name = "MakeFilename.__init__[%s]" % (", ".join(given) or "no argument")
        if bad:
            # "It is not allowed to use prefix or suffix if filename argument is given" / "At least one argument must be
            # present, or LenaTypeError will be raised"
            cases.append(Contract(MF, "MakeFilename.__init__", name=name, params=params, defaults={"overwrite": False},
                                  raises={"LenaTypeError": "True"}, raises_frame="havoc"))
            continue
        ens = ["self._overwrite == overwrite", "len(self._methods) == %d" % len(given)]
        for j, k in enumerate(given):
            ens += ["self._methods[%d][0] == '%s'" % (j, k), "self._methods[%d][1].fmt == %s" % (j, k)]
        cases.append(Contract(
            MF, "MakeFilename.__init__", name=name, params=params, defaults={"overwrite": False},
            post_class=mf_class(given),
            raises={"LenaTypeError": "False", "LenaValueError": " or ".join("fmt_malformed(%s)" % k for k in given)},
            ensures=ens, modifies=["self._overwrite", "self._methods"]))
    # "All these arguments must be strings, otherwise LenaTypeError is raised"
    for k in ("filename", "suffix"):
        params = {"self": "Self[MakeFilename]"}
        for k2 in ("filename", "dirname", "fileext", "prefix", "suffix"):
            params[k2] = "Int" if k2 == k else "None"
        params["overwrite"] = "Bool"
        cases.append(Contract(MF, "MakeFilename.__init__", name="MakeFilename.__init__[%s is a number]" % k, params=params,
                              defaults={"overwrite": False}, raises={"LenaTypeError": "True"}))
    ix.add(Contract(MF, "MakeFilename.__init__", props=["C19"], cases=cases))
    # ---- __call__
    # Proved for every configuration of one or two keys (with a static context: one key, and the pairs that interact).
    # The steps of __call__ are sequential and the reference mf_context is their composition, so longer configurations
    # add no new interaction; they cost minutes of solver time each (3 keys: 75 s, 4 keys: 200 s; proved once during
    # development: [filename, dirname, fileext] and [prefix, suffix, dirname, fileext]) and are left to the bounded part.
    cases = []
    for static in (False, True):
        for sel in mf_configs():
            if len(sel) > 2 or (static and len(sel) == 2 and sel not in (("prefix", "suffix"), ("filename", "dirname"))):
                continue
            cls = mf_class(sel, static)
            cases.append(Contract(
                MF, "MakeFilename.__call__", name="MakeFilename.__call__[%s%s]" % (", ".join(sel), "; static context" if static else ""),
                dict_model="Val", ghost={"ctx_wf": MF_WF},
                params={"self": "Self[%s]" % cls, "value": "V"}, result="Any",
                raises={},
                ensures=[
                    # the value's own context object holds what the docstring prescribes (unformattable keys, existing
                    # names without overwrite: untouched -- including pending prefix / suffix)
                    "local(context) == mf_context(self, vctx(value))",
                    "not mf_modified(self, vctx(value)) implies result is value",
                    "not mf_modified(self, vctx(value)) implies local(context) == vctx(value)",
                    "mf_modified(self, vctx(value)) implies result[1] is local(context)",
                    "mf_modified(self, vctx(value)) and v_has_context(value) implies result[0] == vdata(value)",
                    "mf_modified(self, vctx(value)) and not v_has_context(value) implies result[0] is value"],
                modifies=[]))
    # C13: "consumers keep what they were given: MakeFilename" -- the frame (`modifies=[]`: the stored static context is the
    # same after every value) is the C13 part of this contract
    ix.add(Contract(MF, "MakeFilename.__call__", props=["C19", "C13"], cases=cases))
    ix.add(Contract(MF, "MakeFilename._set_context", props=["C19"], dict_model="Val",
                    params={"self": "Self[MakeFilename]", "context": "Dict"}, result=None,
                    post_class="MakeFilenameCtx",
                    ensures=["self._context == context", "is_deep_copy(self._context)"],
                    modifies=["self._context"]))
    ix.add_class(ClassSpec("MakeFilenameCtx", MF, fields={"_context": "Dict"}, alias_of="MakeFilename"))


# --------------------------------------------------------------------------------------------------------- LaTeXToPDF
LP = "lena/output/latex_to_pdf.py"
PP = "lena/output/pdf_to_png.py"
OUT_WF = ["not ('output' in c) or isdict(c['output'])"]


def sp_tex_to_pdf(ip, st, pos, kws):
    """tex_to_pdf(name): name.replace('.tex', '.pdf') for the data part of a flow value (a file name)"""
    from pyvc.lib import path_key
    f = ip.reg.ufun("kreplace", ["Key", "Key", "Key"], "Key")
    return Opaque(T("(%s %s %s %s)" % (f, path_key(ip, st, pos[0], "tex_to_pdf").s, ip.reg.key(".tex").s, ip.reg.key(".pdf").s), "Key"))


def sp_mtime_in(ip, st, pos, kws):
    """mtime_in(fs, p): os.path.getmtime(p) in the file-system state fs"""
    from pyvc.lib import path_key, mtime_term, _fs_arg
    from pyvc.sym import Num
    return Num(mtime_term(ip, _fs_arg(ip, st, pos[0]), path_key(ip, st, pos[1], "mtime_in")))


def register_latex_to_pdf(ix):
    ix.spec_names["tex_to_pdf"] = sp_tex_to_pdf
    ix.spec_names["mtime_in"] = sp_mtime_in
    if "LaTeXToPDF" not in ix.classes:
        ix.add_class(ClassSpec("LaTeXToPDF", LP, fields={"_overwrite": "Bool", "verbose": "Int", "create_command": "Obj",
                                                         "processes": "Obj"}))
    if (LP, "LaTeXToPDF.run.pop_returned_processes") not in ix.by_key:
        ix.add(Contract(LP, "LaTeXToPDF.run.pop_returned_processes", props=[], trusted=True,
                        params={"processes": "Any", "verbose": "Any"}, generator=True, yields="V",
                        notes="assumed: polls the pool and yields the (pdf name, context) pairs of finished processes; no "
                              "file is touched, no context is changed (the pool itself is not modelled)"))
    # the external command (pdflatex through subprocess.Popen) as an abstract action: it makes the target file
    ix.add(Contract(LP, "LaTeXToPDF.run.launch", props=[], trusted=True, ghost={"fs": True},
                    params={"texfile_name": "V", "outfilename": "Str", "output_directory": "Str", "context": "Dict", "pool": "Any"},
                    result=None, ensures=["fs_exists(outfilename)"], modifies=["fs"],
                    notes="assumed: the converter command creates / overwrites the pdf (and may write anything else on disk); "
                          "the process pool that delays the result is not modelled"))
    TEX = "out_item(_c0, 'filetype') == present('tex')"
    # "If context.output.changed is not set, then modification times for .tex and .pdf files are compared: if the template
    # .tex is newer, it is reprocessed"
    UNCHANGED = ("implies('changed' in _c0['output'], not _c0['output']['changed']) and "
                 "implies('changed' not in _c0['output'], not (mtime_in(_fs0, texfile_name) > mtime_in(_fs0, data)))")
    # "If the resulting pdf file exists and context.output.changed is set to False, pdf rendering is not run ...
    # Set overwrite to True to always recreate pdfs.  All non-existent files are always created."
    SKIP = "(not self._overwrite and fs_exists_in(_fs0, data) and %s)" % UNCHANGED
    REST = ["all_keys(lambda k: k == 'output' or item(context, k) == item(_c0, k))",
            "all_keys(lambda k: k == 'filetype' or k == 'changed' or item(context['output'], k) == item(_c0['output'], k))"]
    ix.add(Contract(
        LP, "LaTeXToPDF.run", qualkey="LaTeXToPDF.run#C19", name="LaTeXToPDF.run[decision: which TeX files are converted]",
        props=["C19"], dict_model="Val",
        ghost={"fs": True, "ctx_wf": OUT_WF,
               # the final wait for the process pool (communicate, KeyboardInterrupt) is not interpreted
               "opaque_regions": [{"start": "for filename in list(self.processes.keys())", "yields": True, "contexts": True,
                                   "fs": True, "fields": ["processes"], "raises": ["Exception"]}]},
        params={"self": "Self[LaTeXToPDF]", "flow": "Iter[V]"}, generator=True, yields="Any",
        requires=["pulled(flow) == 0"],
        raises={"Exception": "?"},
        abstract={"data": ("Str", "data == tex_to_pdf(texfile_name)"), "output_directory": ("Str", "True")},
        loops={1: LoopSpec(invariant=["pulled(flow) == _i"], ghost={"val": "V"},
                           body_ghost={"_fs0": "fs()", "_c0": "snapshot(vctx(val))"},
                           body_end=[
                               # a TeX file that is not skipped: the converter was launched (the pdf exists now) and the
                               # value is marked changed for everything downstream
                               "%s implies not %s implies fs_exists(data) and context['output']['changed'] == True and "
                               "context['output']['filetype'] == 'pdf'" % (TEX, SKIP),
                               "%s implies not %s implies data == tex_to_pdf(vdata(val))" % (TEX, SKIP)] +
                           ["%s implies not %s implies %s" % (TEX, SKIP, r) for r in REST]),
               2: LoopSpec(invariant=["pulled(flow) == _i1 + 1", "fs() == _fs0", "ctx_now(val) == _c0"])},
        at_yield=[
            "pulled(flow) == _i1 + 1",
            # other values pass unchanged, nothing is touched
            "not in_loop(2) and not %s implies yielded is val and fs() == _fs0 and context == _c0" % TEX,
            # a TeX file is yielded at once only when it is skipped: no converter runs, nothing on disk changes, the
            # existing pdf is handed on with changed = False
            "not in_loop(2) and %s implies %s" % (TEX, SKIP),
            "not in_loop(2) and %s implies fs() == _fs0 and fs_exists(data)" % TEX,
            "not in_loop(2) and %s implies yielded[0] == tex_to_pdf(vdata(val)) and yielded[1] is context" % TEX,
            "not in_loop(2) and %s implies context['output']['changed'] == False and context['output']['filetype'] == 'pdf'" % TEX,
        ] + ["not in_loop(2) and %s implies %s" % (TEX, r) for r in REST],
        modifies=["flow", "fs", "self.processes"],
        notes="the values yielded inside loop #2 / by the final wait are pdfs whose processes have finished (pool: assumed)"))


# ----------------------------------------------------------------------------------------------------------- PDFToPNG
def sp_pdftoppm_target(ip, st, pos, kws):
    """pdftoppm_target(command): the file `pdftoppm <pdf> <root> -<format> -singlefile` writes: <root>.<format>"""
    from pyvc.sym import PyListCell
    v = pos[0]
    if not (isinstance(v, Ref) and isinstance(st.heap.get(v.cid), PyListCell) and len(st.heap[v.cid].items) == 5):
        raise ValueError("pdftoppm_target: not the command list of PDFToPNG.run")
    items = st.heap[v.cid].items
    root, opt = ip.key_term(items[2]), ip.key_term(items[3])
    dash = "(kcat %s " % ip.reg.key("-").s
    if not (opt.s.startswith(dash) and opt.s.endswith(")")):
        raise ValueError("pdftoppm_target: format option is not '-' + format")
    fmt = opt.s[len(dash):-1]
    f = ip.reg.ufun("kcat", ["Key", "Key"], "Key")
    return Opaque(T("(%s (%s %s %s) %s)" % (f, f, root.s, ip.reg.key(".").s, fmt), "Key"))


def register_pdf_to_png(ix):
    ix.spec_names["pdftoppm_target"] = sp_pdftoppm_target
    if "PDFToPNG" not in ix.classes:
        ix.add_class(ClassSpec("PDFToPNG", PP, fields={"_format": "Str", "_timeoutsec": "Int", "_overwrite": "Bool",
                                                       "_verbose": "Bool"}))
    # the external command as an abstract action (replaces the weaker assumption of P_sel: "may change anything on disk")
    replace(ix, Contract(PP, "_run_command", props=[], trusted=True, ghost={"fs": True},
                         params={"command": "Any", "verbose": "Any", "timeoutsec": "Any"}, result=None,
                         ensures=["fs_exists(pdftoppm_target(command))"], modifies=["fs"],
                         notes="assumed: pdftoppm <pdf> <root> -<format> -singlefile creates / overwrites <root>.<format> "
                               "(and may change anything else on disk)"))
    PDF = "out_item(_c0, 'filetype') == present('pdf')"
    PNG = "pdf_stem(vdata(val)) + '.' + self._format"
    # "If the resulting file already exists and the pdf is unchanged (which is checked through context.output.changed),
    # conversion is not repeated.  To convert all pdfs to images, set overwrite to True"
    REDO = "(not fs_exists_in(_fs0, %s) or self._overwrite or _c0['output'].get('changed', False))" % PNG
    ix.add(Contract(
        PP, "PDFToPNG.run", qualkey="PDFToPNG.run#C19", name="PDFToPNG.run[decision: which pdfs are converted]",
        props=["C19"], dict_model="Val", ghost={"fs": True, "ctx_wf": OUT_WF, "paths": True},
        params={"self": "Self[PDFToPNG]", "flow": "Iter[V]"}, generator=True, yields="Any",
        requires=["pulled(flow) == 0"],
        abstract={"data": ("Str", "data == pdf_stem(pdf_name)")},
        loops={0: LoopSpec(invariant=["pulled(flow) == _i"], body_ghost={"_fs0": "fs()", "_c0": "snapshot(vctx(val))"})},
        at_yield=[
            "pulled(flow) == _i + 1",
            "not %s implies yielded is val and fs() == _fs0 and context == _c0" % PDF,
            "%s implies yielded[0] == %s and yielded[1] is context" % (PDF, PNG),
            # after the yield the image named by the value exists: it was there and is kept, or the converter has run
            "%s implies fs_exists(yielded[0])" % PDF,
            # a run whose inputs are unchanged launches no converter; output.changed says whether it ran
            "%s and not %s implies fs() == _fs0 and context['output']['changed'] == False" % (PDF, REDO),
            "%s and %s implies context['output']['changed'] == True" % (PDF, REDO),
        ],
        modifies=["flow", "fs"],
        notes="the C10 clauses of this function (pass-through, exact context updates) are proved in P_sel"))


# ------------------------------------------------------------------------------------------------ Cache.alter_sequence
CA = "lena/flow/cache.py"
AD = "lena/core/adapters.py"
SO = "lena/core/source.py"
ME = "lena/core/meta.py"


def register_cache(ix):
    """C18, the part C18.py leaves open: Cache.alter_sequence (cache_exists / drop_cache / run are proved there).
    The constructors it calls are abstracted by assumed cases of their contracts that RECORD the arguments in ghost
    fields: what is proved is the decision -- which Cache is hoisted, that everything before it is dropped, that an
    unfilled / recompute Cache leaves the sequence alone, and that nothing on disk is touched."""
    ix.add_class(ClassSpec("SourceEl_of_cache", AD, alias_of="SourceEl", fields={"_el": "Inst[Cache]", "_call_name": "Str"}))
    se = ix.by_key[(AD, "SourceEl.__init__")]
    se.cases.append(Contract(
        AD, "SourceEl.__init__", name="SourceEl.__init__[Cache element, method name]", trusted=True,
        params={"self": "Self[SourceEl0]", "el": "Inst[Cache]", "call": "Str"}, post_class="SourceEl_of_cache",
        ensures=["self._el is el", "self._call_name == call"], modifies=["self._el", "self._call_name"],
        notes="assumed: SourceEl(cache, call=name) keeps the element and calls its method `name` (ghost field _call_name)"))
    so = ix.by_key[(SO, "Source.__init__")]
    for k in range(3):
        fields = {"_first": "Inst[SourceEl_of_cache]", "_n_tail": "Int"}
        for j in range(k):
            fields["_tail_%d" % j] = "Obj"
        ix.add_class(ClassSpec("Source_hoisted_%d" % k, SO, alias_of="Source", fields=fields))
        so.cases.append(Contract(
            SO, "Source.__init__", name="Source.__init__[SourceEl of a Cache first, %d tail elements]" % k, trusted=True,
            params={"self": "Self[Source]", "args": "Tuple[%s]" % ",".join(["Inst[SourceEl_of_cache]"] + ["Obj"] * k)},
            vararg="args", post_class="Source_hoisted_%d" % k,
            ensures=["self._first is args[0]", "self._n_tail == %d" % k] + ["self._tail_%d is args[%d]" % (j, j + 1) for j in range(k)],
            modifies=["self.%s" % f for f in fields],
            notes="assumed: Source(first, *tail) keeps its arguments in this order (ghost fields _tail_i, _n_tail)"))
    # (a tail whose second element is itself a Cache object: the two-cache pipelines of the property)
    ix.add_class(ClassSpec("Source_hoisted_2c", SO, alias_of="Source",
                           fields={"_first": "Inst[SourceEl_of_cache]", "_n_tail": "Int", "_tail_0": "Obj", "_tail_1": "Inst[Cache]"}))
    so.cases.append(Contract(
        SO, "Source.__init__", name="Source.__init__[SourceEl of a Cache first, element, Cache]", trusted=True,
        params={"self": "Self[Source]", "args": "Tuple[Inst[SourceEl_of_cache],Obj,Inst[Cache]]"},
        vararg="args", post_class="Source_hoisted_2c",
        ensures=["self._first is args[0]", "self._n_tail == 2", "self._tail_0 is args[1]", "self._tail_1 is args[2]"],
        modifies=["self._first", "self._n_tail", "self._tail_0", "self._tail_1"],
        notes="assumed: Source(first, *tail) keeps its arguments in this order (ghost fields _tail_i, _n_tail)"))
    if (ME, "flatten") not in ix.by_key:
        ix.add(Contract(ME, "flatten", props=[], params={"seq": "Any"}, inline=True))
    HIT = "(not {c}._recompute and fs_exists({c}._filename))"

    def hoisted(c, tail):
        return ("is_instance_of(result, 'Source') and result._first._el is %s and result._first._call_name == '_load_flow' "
                "and result._n_tail == %d" % (c, len(tail))) + "".join(" and result._tail_%d is %s" % (j, t) for j, t in enumerate(tail))
    NOCACHE = lambda i: ["not is_instance_of(seq[%d], 'Cache')" % i, "not is_instance_of(seq[%d], 'LenaSequence')" % i]
    ix.add(Contract(
        CA, "Cache.alter_sequence", props=["C18"], self_class="static",
        cases=[
            # docstring: "If the Sequence seq contains a Cache, which has an up-to-date cache, a Source is built based on
            # the flattened seq and returned.  Otherwise the seq is returned unchanged."
            Contract(CA, "Cache.alter_sequence", name="Cache.alter_sequence[a single Cache]", self_class="static",
                     ghost={"fs": True}, params={"seq": "Inst[Cache]"}, result="Any", raises={},
                     ensures=[HIT.format(c="seq") + " implies " + hoisted("seq", []),
                              "not " + HIT.format(c="seq") + " implies result is seq"]),
            Contract(CA, "Cache.alter_sequence", name="Cache.alter_sequence[(element, Cache, element)]", self_class="static",
                     ghost={"fs": True}, params={"seq": "Tuple[Obj,Inst[Cache],Obj]"}, result="Any", raises={},
                     requires=NOCACHE(0) + NOCACHE(2),
                     # everything before the filled cache is dropped (the upstream is not even part of the new flow)
                     ensures=[HIT.format(c="seq[1]") + " implies " + hoisted("seq[1]", ["seq[2]"]),
                              "not " + HIT.format(c="seq[1]") + " implies result is seq"]),
            Contract(CA, "Cache.alter_sequence", name="Cache.alter_sequence[(Cache, element, Cache)]", self_class="static",
                     ghost={"fs": True}, params={"seq": "Tuple[Inst[Cache],Obj,Inst[Cache]]"}, result="Any", raises={},
                     requires=NOCACHE(1),
                     # the LAST filled cache is used; a later cache that is not filled (or recompute=True) stays in the tail
                     ensures=[HIT.format(c="seq[2]") + " implies " + hoisted("seq[2]", []),
                              "not " + HIT.format(c="seq[2]") + " and " + HIT.format(c="seq[0]") + " implies " +
                              hoisted("seq[0]", ["seq[1]", "seq[2]"]),
                              "not " + HIT.format(c="seq[2]") + " and not " + HIT.format(c="seq[0]") + " implies result is seq"]),
        ]))


def register_shared(ix):
    """the output elements proved in P_sel for C10 (selection, exact context updates: nothing but output.filetype /
    fileext / changed is touched, so output.changed of an upstream Write stays as it is) also belong to the chain of C19"""
    RL = "lena/output/render_latex.py"
    for key in ((RL, "RenderLaTeX.run"), (RL, "RenderLaTeX_csv.run"), (PP, "PDFToPNG.run")):
        c = ix.by_key.get(key)
        if c is not None and "C19" not in c.props:
            c.props.append("C19")


def replace(ix, c):
    """register c under its key INSTEAD of the contract registered there before (the assumed contracts of C19.py)"""
    old = ix.by_key.get(c.key)
    if old is not None:
        ix.by_simple[old.simple] = [x for x in ix.by_simple.get(old.simple, []) if x is not old]
    return ix.add(c)


def register(ix):
    register_write(ix)
    register_make_filename_of_write(ix)
    register_make_filename(ix)
    register_latex_to_pdf(ix)
    register_pdf_to_png(ix)
    register_cache(ix)
    register_shared(ix)
