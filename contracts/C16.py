"""C16 -- FillRequest processes the flow in consecutive blocks.  Sidecar contracts of lena/core/adapters.py.

Proved here: FillRequest._run_fill_compute (the run method of fill/compute and fill/request elements; FillRequestSeq.run
uses it): block discipline, single accounting, laziness, termination.  The fill()/request() route has open known findings
(known_findings.json) and is covered by the bounded part only."""
from pyvc.contracts import Contract, LoopSpec, ClassSpec

AD = "lena/core/adapters.py"


def register(ix):
    ix.add_class(ClassSpec("FillRequest", AD, fields={
        "_el": "Obj", "_el_fill": "MethodOf[_el,fill]", "_el_request": "MethodOf[_el,request]",
        "_el_reset": "MethodOf[_el,reset]", "bufsize": "Int", "_reset": "Bool", "_yield_on_remainder": "Bool"},
        invariant=["self.bufsize >= 1"]))
    BLK = "pulled(flow) == _nblk * self.bufsize"
    ix.add(Contract(
        AD, "FillRequest._run_fill_compute", props=["C16", "C02"],
        params={"self": "Self[FillRequest]", "flow": "Iter[V]"}, generator=True, yields="V",
        requires=["pulled(flow) == 0"], ghost={"elstate": True},
        raises={"LenaStopFill": "?"},
        loops={
            # blocks: every earlier block was complete (bufsize values), consecutive, nothing skipped
            0: LoopSpec(invariant=[BLK, "_nblk >= 0", "pulled(flow) == 0 implies len(out) == 0"],
                        init_ghost={"_nblk": "0"}, body_ghost={"_nblk": "_nblk + 1"}, ghost={"_nblk": "Int"},
                        decreases="len(content(flow)) - pulled(flow)"),
            # the rest of the block: nfills counts exactly the values taken from the flow for this block
            1: LoopSpec(invariant=["1 <= nfills <= self.bufsize", "pulled(flow) >= 1", "pulled(flow) == (_nblk - 1) * self.bufsize + nfills"]),
            2: LoopSpec(invariant=["pulled(flow) >= 1", "pulled(flow) == len(content(flow))", "pulled(flow) < _nblk * self.bufsize",
                                   "self._yield_on_remainder"]),
            3: LoopSpec(invariant=[BLK, "pulled(flow) >= 1"]),
        },
        at_yield=[
            # results are handed on only for a complete block, or for the last partial block when yield_on_remainder is set;
            # nothing beyond that block has been pulled (laziness), and an empty flow yields nothing
            "pulled(flow) >= 1",
            "pulled(flow) == _nblk * self.bufsize or "
            "(self._yield_on_remainder and pulled(flow) == len(content(flow)) and pulled(flow) < _nblk * self.bufsize)"],
        # an empty flow yields nothing; the whole flow is consumed block by block (BLK: no value skipped or read twice)
        ensures=["len(content(flow)) == 0 implies len(out) == 0",
                 "pulled(flow) == len(content(flow))"],
        modifies=["flow"]))
