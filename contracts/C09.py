"""C09 -- accumulators yield the documented aggregate; reset() equals a fresh element.  C04 -- a yielded context is a
fresh object (is_fresh at the yield).  Sidecar contracts of lena/math/elements.py, lena/flow/elements.py,
lena/flow/functions.py.

A flow value is either bare data or a (data, context) pair (cases).  Numbers are mathematical reals: `Sum` is the left
fold of `+` from the start value in the order of the fills (DESIGN 2.4 item 1b/1c, section 9: not CPython 3.12's
compensated builtin sum)."""
from pyvc.contracts import Contract, LoopSpec, ClassSpec
from pyvc.verify import Lemma, reset_equals_init

ME = "lena/math/elements.py"
FE = "lena/flow/elements.py"
FF = "lena/flow/functions.py"

PAIR = "Tuple[Real,Dict]"


def register(ix):
    # the four tiny accessors of lena.flow.functions are executed in place from their real ASTs
    for fn in ("get_data_context", "get_context", "get_data", "_has_context"):
        ix.add(Contract(FF, fn, props=[], params={"value": "Any"}, inline=True))
    ix.add(Contract(ME, "_maybe_with_context", props=[], params={"data": "Any", "context": "Any"}, inline=True))

    # ------------------------------------------------------------------ Sum
    ix.add_class(ClassSpec("Sum", ME, fields={"_total": "Real", "_cur_context": "Dict"},
                           invariant=["isdict(self._cur_context)"]))
    ix.add_class(ClassSpec("Sum0", ME, fields={}, alias_of="Sum"))
    ix.add(Contract(ME, "Sum.__init__", props=["C09"],
                    params={"self": "Self[Sum0]", "total": "Real"}, defaults={"total": 0},
                    ensures=["self._total == total", "self._cur_context == emptydict()"],
                    modifies=["self._total", "self._cur_context"]))
    ix.add(Contract(
        ME, "Sum.fill", props=["C09"],
        cases=[
            Contract(ME, "Sum.fill", name="Sum.fill[(data, context)]",
                     params={"self": "Self[Sum]", "value": PAIR}, requires=["isdict(value[1])"],
                     ensures=["self._total == old(self._total) + value[0]", "self._cur_context is value[1]"],
                     modifies=["self._total", "self._cur_context"]),
            Contract(ME, "Sum.fill", name="Sum.fill[bare data]",
                     params={"self": "Self[Sum]", "value": "Real"},
                     ensures=["self._total == old(self._total) + value", "self._cur_context == emptydict()"],
                     modifies=["self._total", "self._cur_context"]),
        ]))
    ix.add(Contract(
        ME, "Sum.compute", props=["C09", "C04"],
        params={"self": "Self[Sum]"}, generator=True, yields="Any",
        # C04: a yielded context is a new object (deep copy), never the stored one
        at_yield=["isinstance(yielded, tuple) implies is_fresh(yielded[1])"],
        ensures=["len(out) == 1",
                 "not self._cur_context implies out[0] == self._total",
                 "self._cur_context implies out[0][0] == self._total and out[0][1] == self._cur_context"]))
    ix.add(Contract(ME, "Sum.reset", props=["C09"],
                    params={"self": "Self[Sum]"},
                    ensures=["self._total == 0", "self._cur_context == emptydict()"],
                    modifies=["self._total", "self._cur_context"]))

    # ------------------------------------------------------------------ Mean (ordinary summation: sum_seq is None)
    MF = {"_sum_seq": "None", "_sum": "Real", "_pass_on_empty": "Bool", "_count": "Int", "_cur_context": "Dict"}
    ix.add_class(ClassSpec("Mean", ME, fields=MF, invariant=["isdict(self._cur_context)", "self._count >= 0"]))
    ix.add_class(ClassSpec("Mean0", ME, fields={}, alias_of="Mean"))
    MM = ["self._sum_seq", "self._sum", "self._pass_on_empty", "self._count", "self._cur_context"]
    ix.add(Contract(ME, "Mean.__init__", props=["C09"],
                    params={"self": "Self[Mean0]", "sum_seq": "None", "pass_on_empty": "Bool"},
                    defaults={"sum_seq": None, "pass_on_empty": False},
                    ensures=["self._sum_seq is None", "self._sum == 0", "self._count == 0",
                             "self._pass_on_empty == pass_on_empty", "self._cur_context == emptydict()"],
                    modifies=MM))
    ix.add(Contract(
        ME, "Mean.fill", props=["C09"],
        cases=[
            Contract(ME, "Mean.fill", name="Mean.fill[(data, context)]",
                     params={"self": "Self[Mean]", "value": PAIR}, requires=["isdict(value[1])"],
                     ensures=["self._sum == old(self._sum) + value[0]", "self._count == old(self._count) + 1",
                              "self._cur_context is value[1]"],
                     modifies=["self._sum", "self._count", "self._cur_context"]),
            Contract(ME, "Mean.fill", name="Mean.fill[bare data]",
                     params={"self": "Self[Mean]", "value": "Real"},
                     ensures=["self._sum == old(self._sum) + value", "self._count == old(self._count) + 1",
                              "self._cur_context == emptydict()"],
                     modifies=["self._sum", "self._count", "self._cur_context"]),
        ]))
    ix.add(Contract(
        ME, "Mean.compute", props=["C09", "C04"],
        params={"self": "Self[Mean]"}, generator=True, yields="Any",
        raises={"LenaZeroDivisionError": "self._count == 0 and not self._pass_on_empty"},
        at_yield=["isinstance(yielded, tuple) implies is_fresh(yielded[1])"],
        ensures=["self._count == 0 implies len(out) == 0",
                 "self._count != 0 implies len(out) == 1",
                 "self._count != 0 and not self._cur_context implies out[0] == self._sum / self._count",
                 "self._count != 0 and self._cur_context implies out[0][0] == self._sum / self._count "
                 "and out[0][1] == self._cur_context"]))
    ix.add(Contract(ME, "Mean.reset", props=["C09"],
                    params={"self": "Self[Mean]"},
                    ensures=["self._sum == 0", "self._count == 0", "self._cur_context == emptydict()"],
                    modifies=["self._sum", "self._count", "self._cur_context"]))

    # ------------------------------------------------------------------ Count
    ix.add_class(ClassSpec("Count", FE, fields={"name": "Str", "count": "Int", "_cur_context": "Dict"},
                           invariant=["isdict(self._cur_context)"]))
    ix.add_class(ClassSpec("Count0", FE, fields={}, alias_of="Count"))
    ix.add(Contract(FE, "Count.__init__", props=["C09"],
                    params={"self": "Self[Count0]", "name": "Str", "count": "Int"}, defaults={"name": "count", "count": 0},
                    ensures=["self.name == name", "self.count == count", "self._cur_context == emptydict()"],
                    modifies=["self.name", "self.count", "self._cur_context"]))
    ix.add(Contract(
        FE, "Count.fill", props=["C09"],
        cases=[
            Contract(FE, "Count.fill", name="Count.fill[(data, context)]",
                     params={"self": "Self[Count]", "value": "Tuple[V,Dict]"}, requires=["isdict(value[1])"],
                     ensures=["self.count == old(self.count) + 1", "self._cur_context is value[1]"],
                     modifies=["self.count", "self._cur_context"]),
            Contract(FE, "Count.fill", name="Count.fill[bare data]",
                     params={"self": "Self[Count]", "value": "V"}, requires=["not v_has_context(value)"],
                     ensures=["self.count == old(self.count) + 1", "self._cur_context == emptydict()"],
                     modifies=["self.count", "self._cur_context"]),
        ]))
    ix.add(Contract(
        FE, "Count.compute", props=["C09", "C04"],
        params={"self": "Self[Count]"}, generator=True, yields="Any",
        at_yield=["is_fresh(yielded[1])"],
        ensures=["len(out) == 1", "out[0][0] == self.count",
                 # the context of the last filled value extended only by the documented key {name: count}
                 "all_keys(lambda k: item(out[0][1], k) == (present(self.count) if k == self.name else item(old(self._cur_context), k)))",
                 "self._cur_context == out[0][1]"],
        modifies=["self._cur_context"]))
    ix.add(Contract(FE, "Count.reset", props=["C09"],
                    params={"self": "Self[Count]"},
                    ensures=["self.count == 0", "self._cur_context == emptydict()"],
                    modifies=["self.count", "self._cur_context"]))

    # ------------------------------------------------------------------ StoreFilled
    ix.add_class(ClassSpec("StoreFilled", FE, fields={"group": "Lst[V]", "_yield_as_a_group": "Bool"}))
    ix.add(Contract(FE, "StoreFilled.fill", props=["C09"],
                    params={"self": "Self[StoreFilled]", "value": "V"},
                    ensures=["len(self.group) == old(len(self.group)) + 1",
                             "all(self.group[k] == old(self.group)[k] for k in range(old(len(self.group))))",
                             "self.group[len(self.group) - 1] == value"],
                    modifies=["self.group"]))
    ix.add(Contract(FE, "StoreFilled.reset", props=["C09"],
                    params={"self": "Self[StoreFilled]"},
                    ensures=["len(self.group) == 0"], modifies=["self.group"]))

    # ------------------------------------------------------------------ reset() leaves the element equal to a new one
    for cls, f in (("Sum", ME), ("Mean", ME), ("Count", FE)):
        ix.lemmas.append(Lemma("%s: reset() equals a newly constructed element" % cls, f, ["C09"], reset_equals_init(cls),
                               notes="over the contracts of reset and __init__ (default arguments); state fields = fields "
                                     "that fill/compute/run may modify according to their contracts"))

