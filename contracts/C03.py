"""C03 / C02 / C04 / C05 -- Split.  Sidecar contracts of lena/core/split.py.

Split.run is verified for its LOCAL disciplines (each is one sentence of a property):
  * C02: the input is read only by `list(islice(flow, bufsize))` at the start of a block; at every yield at most the blocks
    started so far have been pulled (bounded buffering: no read-ahead, nothing pulled while results of a block are handed on);
  * C04/C05: with copy_buf every branch that consumes the block gets a buffer object made for it in this very iteration
    (a deep copy), the original only goes to the last active branch -- so a copy consumed by one branch (also one that
    stopped with LenaStopFill) can never reach another branch;
  * termination of both scheduling loops, index safety of the active-branch lists.
The complete output schedule (split_spec of DESIGN Appendix A) is NOT proved here; it is the bounded part of C03."""
from pyvc.contracts import Contract, LoopSpec, ClassSpec

SP = "lena/core/split.py"

ACT = ["0 <= ind <= n_of_active_seqs", "n_of_active_seqs == len(active_seqs)", "n_of_active_seqs == len(active_seq_types)"]
LAZY = ["pulled(flow) <= _maxpull"]
NOSRC = "all(active_seq_types[k] != 'source' for k in range({n}))"


def register(ix):
    ix.add_class(ClassSpec("Split", SP, fields={"_seqs": "Lst[Obj]", "_seq_types": "Lst[Key]", "_copy_buf": "Bool",
                                                "_bufsize": "Int"},
                           invariant=["len(self._seqs) == len(self._seq_types)", "self._bufsize >= 1"]))
    inner = lambda extra=(): LoopSpec(invariant=ACT + LAZY + list(extra))
    ix.add(Contract(
        SP, "Split.run", props=["C02", "C03", "C04", "C05"],
        params={"self": "Self[Split]", "flow": "Iter[V]"}, generator=True, yields="V",
        requires=["pulled(flow) == 0"],
        loops={
            # blocks: ghost _maxpull = bufsize * (number of blocks started)
            0: LoopSpec(invariant=["0 <= n_of_active_seqs", "n_of_active_seqs == len(active_seqs)",
                                   "n_of_active_seqs == len(active_seq_types)", "pulled(flow) <= _maxpull", "_maxpull >= 0",
                                   # a Source is run and dropped in the first block
                                   "flow_was_empty or " + NOSRC.format(n="len(active_seq_types)")],
                        init_ghost={"_maxpull": "0", "_first": "True"},
                        body_ghost={"_maxpull": "_maxpull + self._bufsize", "_first": "flow_was_empty"},
                        ghost={"_maxpull": "Int", "_first": "Bool"},
                        decreases="len(content(flow)) - pulled(flow)"),
            # active branches of one block
            1: LoopSpec(invariant=ACT + LAZY + ["len(orig_buf) >= 1", "not flow_was_empty", NOSRC.format(n="ind"),
                                                "_first or " + NOSRC.format(n="len(active_seq_types)")],
                        decreases="n_of_active_seqs - ind"),
            2: inner(), 3: inner(), 4: inner(), 5: inner(), 6: inner(), 7: inner(),
            8: LoopSpec(invariant=LAZY), 9: LoopSpec(invariant=LAZY), 10: LoopSpec(invariant=LAZY),
            11: LoopSpec(invariant=LAZY), 12: LoopSpec(invariant=LAZY),
        },
        # C02: bounded buffering -- whenever a result is handed downstream, no more than the blocks started so far were pulled
        at_yield=["pulled(flow) <= _maxpull"],
        # C04 / C05: the buffer a branch consumes was made for it in this iteration of the branch loop, unless it is the last one
        at_call={"fill": ["made_in_iteration(buf, 1) or not self._copy_buf or n_of_active_seqs - ind == 1"],
                 "run": ["len(call_args[0]) == 0 or made_in_iteration(call_args[0], 1) or not self._copy_buf or n_of_active_seqs - ind == 1"]},
        modifies=["flow"],
        notes="bufsize is an integer here (bufsize=None materialises the whole flow in one block: bounded part)"))
    # ------------------------------------------------------------------ common-type methods
    COPIED = "made_in_iteration(call_args[0][1], 0)"       # the context of the filled value is a new object (deep copy)
    ix.add(Contract(
        SP, "Split._fill", props=["C04", "C03"],
        params={"self": "Self[Split]", "val": "Tuple[V,Dict]"}, result=None,
        requires=["len(self._seqs) >= 1"],
        raises={"LenaStopFill": "?"},
        loops={0: LoopSpec(invariant=[])},
        # every branch but the last gets its own deep copy when copy_buf is set; only the last one gets the value itself
        at_call={"fill": ["in_loop(0) and self._copy_buf implies %s" % COPIED,
                          "not in_loop(0) implies call_args[0][1] is val[1]",
                          "call_args[0][0] == val[0]", "call_args[0][1] == val[1]"]},
        ghost={"elstate": True},
        notes="the original value reaches exactly one branch (the last one, after the loop over the others)"))
    ix.add(Contract(
        SP, "Split._empty_run", props=["C03"],
        params={"self": "Self[Split]", "flow": "Iter[V]"}, generator=True, yields="V",
        requires=["pulled(flow) == 0"],
        loops={0: LoopSpec(invariant=["len(out) == _i", "pulled(flow) == _i",
                                      "all(out[k] == content(flow)[k] for k in range(_i))"])},
        at_yield=["yielded is val", "pulled(flow) == len(out) + 1"],       # an empty Split is the (lazy) identity
        ensures=["len(out) == len(content(flow))", "all(out[k] == content(flow)[k] for k in range(len(out)))"],
        modifies=["flow"]))
    ZP = "lena/flow/zip.py"
    ix.add_class(ClassSpec("Zip", ZP, fields={"_sequences": "Lst[Obj]"}))
    ix.add(Contract(
        ZP, "Zip._fill", props=["C04", "C03"],
        params={"self": "Self[Zip]", "val": "Tuple[V,Dict]"}, result=None,
        raises={"LenaStopFill": "?"},
        loops={0: LoopSpec(invariant=[])},
        at_call={"fill": [COPIED, "call_args[0][0] == val[0]", "call_args[0][1] == val[1]"]},      # every branch gets a deep copy
        ghost={"elstate": True}))

