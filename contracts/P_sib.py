"""sidecar contracts (see tools/CONTRACTS_GUIDE.md)

P_sib -- property C11 (SplitIntoBins analyses each cell on exactly its sub-flow; context.variable describes the argument
variable; MapBins / IterateBins) and the second sentence of C04 (every context yielded by compute() is a deep copy made
for that very yield).  Sidecar contracts of lena/structures/split_into_bins.py and hist_functions.py:
  _MdSeqMap.next / __next__ / __iter__   the k-th result of every cell, stops with the shortest (1-d; 2-d with two rows)
  SplitIntoBins.__init__                 1-d / 2-d edges: every cell its own deep copy of the sequence, raise conditions
  SplitIntoBins.compute                  1-d; 2-d with two rows of cells (any number of columns)
  MapBins.run#cells                      one selected 1-d histogram / 2-d histogram with two rows (the selected branch that
                                         P_sel.py abstracts): private copy of the sequence per cell, edges and context copied
  IterateBins.run#cells                  one selected 1-d histogram: every cell once, in order, with its own edges / context
  get_example_bin#cells, iter_bins_with_edges#cells, cell_to_string, histogram.__init__ for bins that hold results
(SplitIntoBins.fill, init_bins, get_bin_on_value: contracts/P_hist.py, C06.py.  SplitIntoBins has no reset() in /repo.)

Per-cell analyses are abstract FillCompute elements (DESIGN 2.3): el_fill / el_compute / el_run denotations over the ghost
element states; `el_compute(cell, elstate(cell))` is the list of results of THAT cell.  The list of the cells' generators
that lena.math.md_map builds (inlined from its real AST) is the engine's list-of-generators object (pyvc/lib_sib.py:
gen_len, gen_content, gen_pulled, gen_maker).

FINDING (unchanged tree, not expressible as a failing obligation: the typing assumption `v_not_list` excludes it):
MapBins.__init__ names `list` as a bin type (`select_bins=[lena.math.vector3, list]`: `selects histograms where bins are
vectors or lists`), but lena.math.md_map descends into cells that ARE lists: for histogram([0, 1, 2], bins=[[1, 2], [3, 4]])
MapBins(seq, select_bins=[list]) applies seq to 1, 2, 3, 4 (the items of the cells) instead of to the two cells."""
from pyvc.contracts import Contract, LoopSpec, ClassSpec

SB = "lena/structures/split_into_bins.py"
HI = "lena/structures/histogram.py"
HF = "lena/structures/hist_functions.py"
VA = "lena/variables/variable.py"

G = "self._generators"


def mono(a):
    return "all(all(implies(i < j, {a}[i] < {a}[j]) for j in range(len({a}))) for i in range(len({a})))".format(a=a)


def register(ix):
    from pyvc import lib_sib
    lib_sib.register(ix)
    register_md_seq_map(ix)
    register_init(ix)
    register_compute(ix)
    register_example_bin(ix)
    register_map_bins(ix)
    register_iterate_bins(ix)
    register_cell_to_string(ix)


# ---------------------------------------------------------------------------------------------- _MdSeqMap
def register_md_seq_map(ix):
    """class docstring: `Multidimensional mapping of a Sequence`; __init__: `generator is mapped to array's contents.  Example
    when a bin is a sequence: generator=lambda cell: cell.compute()`.  task text / SplitIntoBins.compute docstring (`In
    Python 3 the minimum number of compute() among all bins is used`): next() hands out the k-th result of EVERY cell, as a
    list of the same shape, and stops with the shortest cell.
    Two views of the object: `_MdSeqMap_g` -- the generators of a 1-dimensional array of cells (any length);
    `_MdSeqMap_r2` -- those of a 2-dimensional array with two rows (any number of columns)."""
    ix.add_class(ClassSpec("_MdSeqMap", SB, fields={}))
    ix.add_class(ClassSpec("_MdSeqMap_g", SB, fields={"_generators": "IterLst[V]"}, alias_of="_MdSeqMap"))
    ix.add_class(ClassSpec("_MdSeqMap_r2", SB, fields={"_generators": "PyList[2,IterLst[V]]"}, alias_of="_MdSeqMap"))
    # the constructor maps a caller-supplied function over the cells: executed in place at its call sites
    ix.add(Contract(SB, "_MdSeqMap.__init__", props=[], params={"self": "Any", "generator": "Any", "array": "Any"}, inline=True))

    def same(g):
        return ["gen_len({g}) == old(gen_len({g}))".format(g=g),
                "all(gen_content({g}, k) == old(gen_content({g}, k)) for k in range(gen_len({g})))".format(g=g),
                "all(gen_maker({g}, k) is old(gen_maker({g}, k)) for k in range(gen_len({g})))".format(g=g)]

    def stop(g):
        return "any(gen_pulled({g}, k) >= len(gen_content({g}, k)) for k in range(gen_len({g})))".format(g=g)

    def step(g, r):
        return [
            # the next result of every cell, cell by cell
            "len(%s) == gen_len(%s)" % (r, g),
            "all({r}[k] == gen_content({g}, k)[old(gen_pulled({g}, k))] for k in range(len({r})))".format(g=g, r=r),
            # every cell's generator moved on by exactly one
            "all(gen_pulled({g}, k) == old(gen_pulled({g}, k)) + 1 for k in range(gen_len({g})))".format(g=g)]

    def nxt(qual):
        g1 = Contract(
            SB, qual, name="%s[1-d array of cells]" % qual,
            params={"self": "Self[_MdSeqMap_g]"}, result="Lst[V]",
            # stops with the shortest: as soon as one cell has no further result
            raises={"StopIteration": stop(G)},
            exc_ensures={"StopIteration": same(G)},      # (which generators there are does not change either way)
            ensures=same(G) + step(G, "result"),
            modifies=["self._generators"])
        R0, R1 = G + "[0]", G + "[1]"
        r2 = Contract(
            SB, qual, name="%s[2-d array of cells, two rows]" % qual,
            params={"self": "Self[_MdSeqMap_r2]"}, result="PyList[2,Lst[V]]",
            # (a row without cells would be mapped to [] for ever: SplitIntoBins never builds one)
            requires=["not (gen_len(%s) == 0)" % R0, "not (gen_len(%s) == 0)" % R1],
            raises={"StopIteration": "%s or %s" % (stop(R0), stop(R1))},
            exc_ensures={"StopIteration": same(R0) + same(R1)},
            ensures=same(R0) + same(R1) + step(R0, "result[0]") + step(R1, "result[1]") + [
                # (ground form of `same shape`, for callers that branch on the emptiness of a row)
                "not (len(result[0]) == 0)", "not (len(result[1]) == 0)"],
            modifies=["self._generators"])
        return Contract(SB, qual, props=["C11"], cases=[g1, r2])
    ix.add(nxt("_MdSeqMap.next"))
    ix.add(nxt("_MdSeqMap.__next__"))
    ix.add(Contract(SB, "_MdSeqMap.__iter__", props=["C11"], params={"self": "Self[_MdSeqMap]"}, result="Inst[_MdSeqMap]",
                    result_alias="self", ensures=["result is self"], modifies=[]))


# ---------------------------------------------------------------------------------------------- SplitIntoBins.__init__
INCR = "all({a}[i] < {a}[i + 1] for i in range(len({a}) - 1))"


def register_init(ix):
    """docstring: `seq is a FillComputeSeq sequence (or will be converted to that) ... Deep copy of seq is done for each bin.
    arg_var is a Variable that takes data and returns value used to compute the bin index. ... edges is a sequence of arrays
    containing monotonically increasing bin edges along each dimension. ... Attributes: bins, edges.  If edges are not
    increasing, LenaValueError is raised.  In case of other argument initialization problems, LenaTypeError is raised.`
    C11: `deep copy of the analysis per cell at construction`: every cell is its OWN copy of the sequence -- made by
    copy.deepcopy(seq) during the call, different from seq and from every other cell."""
    ix.add_class(ClassSpec("SplitIntoBins_new", SB, fields={}, alias_of="SplitIntoBins"))
    MOD = ["self._arg_var", "self._arg_func", "self.bins", "self.edges", "self._cur_context"]
    COMMON = ["self.edges is edges", "self._arg_var is arg_var", "self._arg_func is arg_var.getter",
              "self._cur_context == emptydict()", "clock() >= old(clock())"]

    def cells(rng, cell):
        return [rng("copy_of(%s, seq)" % cell), rng("is_deep_copy(%s)" % cell), rng("%s is not seq" % cell),
                rng("new_object(%s)" % cell), rng("old(clock()) <= born(%s) < clock()" % cell)]
    r1 = lambda body: "all(%s for i in range(len(self.bins)))" % body
    r2 = lambda body: "all(all(%s for j in range(len(self.bins[i]))) for i in range(len(self.bins)))" % body
    DISTINCT1 = "all(all(implies(i != j, self.bins[i] is not self.bins[j]) for j in range(len(self.bins))) for i in range(len(self.bins)))"
    DISTINCT2 = ("all(all(all(all(implies(i != i2 or j != j2, self.bins[i][j] is not self.bins[i2][j2]) for j2 in range(len(self.bins[i2])))"
                 " for i2 in range(len(self.bins))) for j in range(len(self.bins[i]))) for i in range(len(self.bins)))")
    FCS = "is_instance_of(seq, 'FillComputeSeq')"
    ix.add(Contract(
        SB, "SplitIntoBins.__init__", props=["C11"], dict_model="Val",
        cases=[
            Contract(SB, "SplitIntoBins.__init__", name="SplitIntoBins.__init__[1-d edges]", dict_model="Val",
                     params={"self": "Self[SplitIntoBins_new]", "seq": "Obj", "arg_var": "Inst[Variable]", "edges": "Lst[Real]"},
                     requires=[FCS], ghost={"alloc": True},
                     raises={"LenaValueError": "len(edges) <= 1 or not " + INCR.format(a="edges")},
                     ensures=COMMON + ["len(self.bins) == len(edges) - 1", DISTINCT1] + cells(r1, "self.bins[i]"),
                     modifies=MOD),
            Contract(SB, "SplitIntoBins.__init__", name="SplitIntoBins.__init__[2-d edges]", dict_model="Val",
                     params={"self": "Self[SplitIntoBins_new]", "seq": "Obj", "arg_var": "Inst[Variable]",
                             "edges": "PyList[2,Lst[Real]]"},
                     requires=[FCS], ghost={"alloc": True},
                     raises={"LenaValueError": " or ".join("len(edges[%d]) <= 1 or not %s" % (d, INCR.format(a="edges[%d]" % d))
                                                           for d in range(2))},
                     ensures=COMMON + ["len(self.bins) == len(edges[0]) - 1",
                                       "all(len(self.bins[i]) == len(edges[1]) - 1 for i in range(len(self.bins)))", DISTINCT2]
                     + cells(r2, "self.bins[i][j]"),
                     modifies=MOD),
            # `In case of other argument initialization problems, LenaTypeError is raised`
            Contract(SB, "SplitIntoBins.__init__", name="SplitIntoBins.__init__[arg_var is not a Variable]", dict_model="Val",
                     params={"self": "Self[SplitIntoBins_new]", "seq": "Obj", "arg_var": "Obj", "edges": "Lst[Real]"},
                     requires=[FCS, "not is_instance_of(arg_var, 'Variable')"],
                     raises={"LenaTypeError": "True"}, modifies=MOD),
        ]))


# ---------------------------------------------------------------------------------------------- SplitIntoBins.compute
def hist(c):
    return "('variable' in {c} and {c}['variable'] and 'type' in {c}['variable'])".format(c=c)


def nohist(c):
    return ("((not 'variable' in {c}) or (not {c}['variable']) or "
            "('type' not in {c}['variable'] and 'compose' not in {c}['variable']))").format(c=c)


def typed(v):
    return "('type' in {v} and {v}['type'])".format(v=v)


def wf_var(v):
    """a variable context as variables produce it: the type is a string, compose a list of strings"""
    return ["'type' in {v} implies is_str({v}['type'])".format(v=v),
            "'compose' in {v} implies is_klist({v}['compose'])".format(v=v)]


WF = "(not {x} or (isdict({x}) and implies('type' in {x}, is_str({x}['type'])) " \
     "and implies('compose' in {x}, is_klist({x}['compose']))))"


def register_compute(ix):
    """docstring: `Yield a (histogram, context) pair for each compute() for all bins.  The histogram is created from edges
    with bin contents taken from compute() for bins. ... SplitIntoBins adds context as a subcontext variable (corresponding
    to arg_var). ... Existing context values are preserved. ... In Python 3 the minimum number of compute() among all bins
    is used.`  C04: every yielded context is a new deep copy; the stored context is not changed (`compute can be called
    several times`)."""
    DIST1 = "all(all(implies(i != j, self.bins[i] is not self.bins[j]) for j in range(len(self.bins))) for i in range(len(self.bins)))"
    ix.add_class(ClassSpec(
        "SplitIntoBins_c1", SB, alias_of="SplitIntoBins",
        fields={"bins": "Lst[Obj]", "edges": "Lst[Real]", "_arg_var": "Inst[Variable]", "_cur_context": "Dict"},
        invariant=["len(self.edges) >= 2", mono("self.edges"), "len(self.bins) == len(self.edges) - 1", DIST1,
                   "isdict(self._cur_context)",
                   # a cell is an analysis sequence (FillComputeSeq), not a nested list of cells
                   "all(not isinstance(self.bins[k], list) for k in range(len(self.bins)))",
                   # (ground instance: the cell lena.math.md_map looks at to tell the dimension)
                   "not isinstance(self.bins[0], list)", "not (len(self.bins) == 0)",
                   # the argument variable (object invariant of Variable: contracts/C14.py, P_var.py)
                   "isdict(self._arg_var.var_context)"] + wf_var("self._arg_var.var_context")))
    # the yielded histogram holds flow values (the cells' results), not numbers
    k = ix.by_key[(HI, "histogram.__init__")]
    if not any(c.name == "histogram.__init__[dim=1, bins of results]" for c in k.cases):
        k.cases.append(Contract(
            HI, "histogram.__init__", name="histogram.__init__[dim=1, bins of results]",
            params={"self": "Self[histogram0]", "edges": "Lst[Real]", "bins": "Lst[V]", "initial_value": "Real"},
            defaults={"initial_value": 0},
            raises={"LenaValueError": "len(edges) <= 1 or not all(edges[i] < edges[i + 1] for i in range(len(edges) - 1)) "
                                      "or len(bins) != len(edges) - 1"},
            ensures=["self.edges is edges", "self.bins is bins", "self.n_out_of_range == 0", "self._scale is None",
                     "self.dim == 1", "self.nbins[0] == len(edges) - 1", "self.ranges[0][0] == edges[0]",
                     "self.ranges[0][1] == edges[len(edges) - 1]"],
            modifies=["self.edges", "self.bins", "self.n_out_of_range", "self.dim", "self._scale", "self.nbins", "self.ranges"]))
    C0 = "self._cur_context"
    V = "self._arg_var.var_context"
    YC = "yielded[1]"
    CONTEXT = [
        # C04: a new deep copy for every yield
        "is_deep_copy(%s)" % YC, "is_fresh(%s)" % YC, "made_in_iteration(%s, 0)" % YC,
        # context: existing values preserved, context.variable describes the argument variable
        "all_keys(lambda k: k == 'variable' or item(%s, k) == item(%s, k))" % (YC, C0),
        nohist(C0) + " implies %s['variable'] == %s" % (YC, V),
        "all_keys(lambda k: k == 'compose' or item(%s, k) == absent() or item(%s['variable'], k) == item(%s, k))" % (V, YC, V),
        # ... with the history of a typed variable applied after typed variables (C14): compose lists the types in
        # application order, the attributes of every composed variable stay available under its type, nothing more
        hist(C0) + " and " + typed(V) + " implies klist(%s['variable']['compose']) == compose_ref(%s['variable'], %s)" % (YC, C0, V),
        hist(C0) + " and " + typed(V) + " implies all_keys(lambda k: k == 'compose' or "
        "item({y}['variable'], k) == (item({v}, k) if item({v}, k) != absent() else "
        "(item({c}['variable'], k) if k in klist({y}['variable']['compose']) else absent())))".format(y=YC, v=V, c=C0),
        # the stored context and the variable are not changed
        "%s == old(%s)" % (C0, C0), "%s == old(%s)" % (V, V)]
    UNCHANGED = ["%s == old(%s)" % (C0, C0), "%s == old(%s)" % (V, V), "elstate_same()"]
    # the stored context is one that variables produce (what Variable._update_context accepts)
    REQ = ["'variable' in %s implies %s" % (C0, WF.format(x=C0 + "['variable']"))]
    # ---- 1-dimensional edges
    RK = "el_compute(self.bins[k], elstate(self.bins[k]))"
    GEN = "generators._generators"
    one = Contract(
        SB, "SplitIntoBins.compute", dict_model="Val", name="SplitIntoBins.compute[1-d]",
        ghost={"elstate": True},
        params={"self": "Self[SplitIntoBins_c1]"}, generator=True, yields="Any", requires=REQ,
        loops={0: LoopSpec(invariant=[
            "gen_len(%s) == len(self.bins)" % GEN,
            "all(gen_content(%s, k) == %s for k in range(len(self.bins)))" % (GEN, RK),
            "all(gen_pulled(%s, k) == yield_count() for k in range(len(self.bins)))" % GEN,
            "all(len(%s) >= yield_count() for k in range(len(self.bins)))" % RK])},
        at_yield=[
            "isinstance(yielded, tuple) and len(yielded) == 2",
            # the histogram: over the given edges, cell k holds the yield_count()-th result of cell k's own analysis
            "yielded[0].edges is self.edges",
            "len(yielded[0].bins) == len(self.bins)",
            "all(yielded[0].bins[k] == %s[yield_count()] for k in range(len(self.bins)))" % RK,
        ] + CONTEXT,
        ensures=[
            # `the minimum number of compute() among all bins is used`
            "all(len(%s) >= yield_count() for k in range(len(self.bins)))" % RK,
            "any(len(%s) == yield_count() for k in range(len(self.bins)))" % RK] + UNCHANGED,
        modifies=[])
    # ---- 2-dimensional edges, two rows of cells (any number of columns)
    DIST2 = ("all(all(implies(i != j, self.bins[{r}][i] is not self.bins[{r}][j]) for j in range(len(self.bins[{r}]))) "
             "for i in range(len(self.bins[{r}])))")
    ix.add_class(ClassSpec(
        "SplitIntoBins_c2r", SB, alias_of="SplitIntoBins",
        fields={"bins": "PyList[2,Lst[Obj]]", "edges": "PyList[2,Lst[Real]]", "_arg_var": "Inst[Variable]", "_cur_context": "Dict"},
        invariant=["len(self.edges[0]) == 3", "len(self.edges[1]) >= 2", mono("self.edges[0]"), mono("self.edges[1]"),
                   INCR.format(a="self.edges[0]"), INCR.format(a="self.edges[1]"),
                   "len(self.bins[0]) == len(self.edges[1]) - 1", "len(self.bins[1]) == len(self.edges[1]) - 1",
                   DIST2.format(r=0), DIST2.format(r=1),
                   "all(all(self.bins[0][i] is not self.bins[1][j] for j in range(len(self.bins[1]))) for i in range(len(self.bins[0])))",
                   "isdict(self._cur_context)",
                   "not isinstance(self.bins[0][0], list)", "not isinstance(self.bins[1][0], list)",
                   "not (len(self.bins[0]) == 0)", "not (len(self.bins[1]) == 0)",
                   "isdict(self._arg_var.var_context)"] + wf_var("self._arg_var.var_context")))
    if not any(c.name == "histogram.__init__[dim=2, two rows of results]" for c in k.cases):
        k.cases.append(Contract(
            HI, "histogram.__init__", name="histogram.__init__[dim=2, two rows of results]",
            params={"self": "Self[histogram0]", "edges": "PyList[2,Lst[Real]]", "bins": "PyList[2,Lst[V]]", "initial_value": "Real"},
            defaults={"initial_value": 0},
            # `a simple check of the shape of bins is done`: the number of rows
            raises={"LenaValueError": " or ".join("len(edges[%d]) <= 1 or not %s" % (d, INCR.format(a="edges[%d]" % d))
                                                  for d in range(2)) + " or len(edges[0]) != 3"},
            ensures=["self.edges is edges", "self.bins is bins", "self.n_out_of_range == 0", "self._scale is None",
                     "self.dim == 2", "self.nbins[0] == len(edges[0]) - 1", "self.nbins[1] == len(edges[1]) - 1"],
            modifies=["self.edges", "self.bins", "self.n_out_of_range", "self.dim", "self._scale", "self.nbins", "self.ranges"]))
    RIJ = "el_compute(self.bins[{r}][k], elstate(self.bins[{r}][k]))"
    G2 = "generators._generators[{r}]"

    def rows(body):
        return [body.format(r=0, g=G2.format(r=0), rk=RIJ.format(r=0)), body.format(r=1, g=G2.format(r=1), rk=RIJ.format(r=1))]
    two = Contract(
        SB, "SplitIntoBins.compute", dict_model="Val", name="SplitIntoBins.compute[2-d, two rows]",
        ghost={"elstate": True, "fold_literals": True},
        params={"self": "Self[SplitIntoBins_c2r]"}, generator=True, yields="Any", requires=REQ,
        loops={0: LoopSpec(invariant=
                           rows("gen_len({g}) == len(self.bins[{r}])") + rows("not (gen_len({g}) == 0)")
                           + rows("all(gen_content({g}, k) == {rk} for k in range(len(self.bins[{r}])))")
                           + rows("all(gen_pulled({g}, k) == yield_count() for k in range(len(self.bins[{r}])))")
                           + rows("all(len({rk}) >= yield_count() for k in range(len(self.bins[{r}])))"))},
        at_yield=[
            "isinstance(yielded, tuple) and len(yielded) == 2",
            "yielded[0].edges is self.edges", "len(yielded[0].bins) == 2",
        ] + rows("len(yielded[0].bins[{r}]) == len(self.bins[{r}])")
          # cell (r, k) holds the yield_count()-th result of the analysis of cell (r, k)
          + rows("all(yielded[0].bins[{r}][k] == {rk}[yield_count()] for k in range(len(self.bins[{r}])))") + CONTEXT,
        ensures=rows("all(len({rk}) >= yield_count() for k in range(len(self.bins[{r}])))") + [
            "any(len(%s) == yield_count() for k in range(len(self.bins[0]))) or "
            "any(len(%s) == yield_count() for k in range(len(self.bins[1])))" % (RIJ.format(r=0), RIJ.format(r=1))] + UNCHANGED,
        modifies=[])
    ix.add(Contract(SB, "SplitIntoBins.compute", props=["C11", "C04"], dict_model="Val", cases=[one, two]))


# ---------------------------------------------------------------------------------------------- get_example_bin
def register_example_bin(ix):
    """docstring: `Return bin with zero index on each axis of the histogram bins.  For example, if the histogram is
    two-dimensional, return hist[0][0].  struct can be a histogram or an array of bins.`"""
    ix.add_class(ClassSpec("histogram_cells", HI, alias_of="histogram",
                           fields={"edges": "Lst[Real]", "bins": "Lst[V]", "dim": "Int"},
                           invariant=["len(self.edges) >= 2", INCR.format(a="self.edges"),
                                      "len(self.bins) == len(self.edges) - 1", "self.dim == 1", "not (len(self.bins) == 0)"]))
    cases = [
        Contract(HF, "get_example_bin", name="get_example_bin[1-d histogram of cells]", ghost={"v_not_list": True},
                 params={"struct": "Inst[histogram_cells]"}, result="V",
                 ensures=["result == struct.bins[0]"], modifies=[]),
        Contract(HF, "get_example_bin", name="get_example_bin[list of cells]", ghost={"v_not_list": True},
                 params={"struct": "Lst[V]"}, result="V", requires=["len(struct) >= 1"],
                 ensures=["result == struct[0]"], modifies=[]),
    ]
    ix.add_class(ClassSpec("histogram_cells2", HI, alias_of="histogram",
                           fields={"edges": "PyList[2,Lst[Real]]", "bins": "PyList[2,Lst[V]]", "dim": "Int"},
                           invariant=["len(self.edges[0]) == 3", "len(self.edges[1]) >= 2", INCR.format(a="self.edges[0]"),
                                      INCR.format(a="self.edges[1]"), "len(self.bins[0]) == len(self.edges[1]) - 1",
                                      "len(self.bins[1]) == len(self.edges[1]) - 1", "self.dim == 2",
                                      "not (len(self.bins[0]) == 0)", "not (len(self.bins[1]) == 0)"]))
    cases += [
        Contract(HF, "get_example_bin", name="get_example_bin[2-d histogram of cells, two rows]",
                 ghost={"v_not_list": True, "fold_literals": True},
                 params={"struct": "Inst[histogram_cells2]"}, result="V",
                 ensures=["result == struct.bins[0][0]"], modifies=[]),
        Contract(HF, "get_example_bin", name="get_example_bin[two rows of cells]", ghost={"v_not_list": True},
                 params={"struct": "PyList[2,Lst[V]]"}, result="V", requires=["len(struct[0]) >= 1"],
                 ensures=["result == struct[0][0]"], modifies=[]),
    ]
    ix.add(Contract(HF, "get_example_bin", qualkey="get_example_bin#cells", props=["C11"], cases=cases))
    cur = ix.by_key.get((HF, "get_example_bin"))
    if cur is None:
        ix.add(Contract(HF, "get_example_bin", props=[], cases=list(cases)))
    else:
        for c in cases:
            if not any(x.name == c.name for x in cur.cases):
                cur.cases.insert(0, c)


# ---------------------------------------------------------------------------------------------- MapBins.run (selected branch)
CF = "lena/context/functions.py"


def register_map_bins(ix):
    """class docstring: `Transform bin content of histograms`; __init__: `seq is a sequence or an element applied to bin
    contents`; run: `context.value is updated with bin context (if that exists). ... an arbitrary bin is taken and contexts
    of all other bins are ignored.`  C11: `MapBins returns a histogram of identical shape and edges whose every cell is the
    sequence applied to the corresponding cell` -- by a PRIVATE deep copy of the sequence per cell (`copy.deepcopy(self._seq)
    .run([cell])`), the histogram rebuilt on a deep copy of the edges, the context deep-copied.
    The pass-through of values that are not selected, the order and the laziness for arbitrary flows are in P_sel.py (C10);
    here: a flow of ONE selected 1-dimensional histogram."""
    ix.add_class(ClassSpec("MapBins_c", SB, alias_of="MapBins",
                           fields={"_seq": "Obj", "_select_bins": "Inst[Selector]",
                                   "_get_example_bin": "Def[lena.structures.hist_functions.get_example_bin]",
                                   "_drop_bins_context": "Bool"}))
    H = "flow[0][0]"
    C = "flow[0][1]"

    def build(name, hist_spec, nrows):
        """nrows == 0: a 1-dimensional histogram; nrows == 2: a 2-dimensional one with two rows of cells"""
        R = list(range(nrows)) if nrows else [None]
        GEN = lambda r: "generators._generators" + ("" if r is None else "[%d]" % r)
        BINS = lambda r: "%s.bins" % H + ("" if r is None else "[%d]" % r)
        OUT = lambda r: "yielded[0].bins" + ("" if r is None else "[%d]" % r)
        MK = lambda r: "gen_maker(%s, k)" % GEN(r)
        RUNK = lambda r: "el_run(%s, [%s[k]])" % (MK(r), BINS(r))
        X = "%s[0]" % BINS(R[0])
        B0 = "vctx(el_run(gen_maker(%s, 0), [%s[0]])[yield_count()])" % (GEN(R[0]), BINS(R[0]))
        allrows = lambda f: [f(r) for r in R]
        PRIVATE = (
            # every cell is run through its own deep copy of the sequence, made during this call
            allrows(lambda r: "all(copy_of(%s, self._seq) and new_object(%s) for k in range(len(%s)))" % (MK(r), MK(r), BINS(r)))
            + allrows(lambda r: "all(all(implies(k != l, gen_maker({g}, k) is not gen_maker({g}, l)) for l in range(len({b}))) "
                                "for k in range(len({b})))".format(g=GEN(r), b=BINS(r)))
            + (["all(all(gen_maker(%s, k) is not gen_maker(%s, l) for l in range(len(%s))) for k in range(len(%s)))" % (
                GEN(0), GEN(1), BINS(1), BINS(0))] if nrows else [])
            + allrows(lambda r: "all(gen_content(%s, k) == %s for k in range(len(%s)))" % (GEN(r), RUNK(r), BINS(r))))
        SHAPE = ["len(yielded[0].bins) == %s" % ("len(%s.bins)" % H if not nrows else "2")] + (
            allrows(lambda r: "len(%s) == len(%s)" % (OUT(r), BINS(r))) if nrows else [])
        EDGES = ["yielded[0].edges == %s.edges" % H, "yielded[0].edges is not %s.edges" % H] if not nrows else [
            "yielded[0].edges is not %s.edges" % H, "len(yielded[0].edges) == 2"] + [
            cl for d in range(2) for cl in ("yielded[0].edges[%d] == %s.edges[%d]" % (d, H, d),
                                            "yielded[0].edges[%d] is not %s.edges[%d]" % (d, H, d))]
        SHORTEST = " or ".join("any(len(gen_content(local(generators)._generators%s, k)) == yield_count() for k in range(len(%s)))"
                               % ("" if r is None else "[%d]" % r, BINS(r)) for r in R)
        return Contract(
            SB, "MapBins.run", dict_model="Val", name="MapBins.run[one selected %s]" % name,
            # (contexts of the results: `value` sub-contexts are dictionaries all the way down -- what update_nested requires)
            ghost={"elstate": True, "v_not_list": True, "alloc": True, "ctx_wf": ["kchain(c, 'value')"], "fold_literals": bool(nrows)},
            params={"self": "Self[MapBins_c]", "flow": "PyList[1,Tuple[Inst[%s],Dict]]" % hist_spec},
            generator=True, yields="Any",
            # the histogram is selected: the bin selector accepts the example bin
            requires=[inv.replace("self.", H + ".") for inv in ix.classes[hist_spec].invariant] + [
                "isdict(%s)" % C, "not el_call_raises(self._select_bins._selector, %s)" % X,
                "el_call(self._select_bins._selector, %s)" % X],
            loops={1: LoopSpec(invariant=
                               allrows(lambda r: "gen_len(%s) == len(%s)" % (GEN(r), BINS(r)))
                               + (allrows(lambda r: "not (gen_len(%s) == 0)" % GEN(r)) if nrows else [])
                               + allrows(lambda r: "all(gen_pulled(%s, k) == yield_count() for k in range(len(%s)))" % (GEN(r), BINS(r)))
                               + allrows(lambda r: "all(len(gen_content(%s, k)) >= yield_count() for k in range(len(%s)))" % (GEN(r), BINS(r)))
                               + ["yield_count() == _i1"] + PRIVATE)},
            # (a selected histogram is never handed on as it is: every yield happens in the loop over the cells' results)
            at_yield=["in_loop(1)"] + ["in_loop(1) implies " + cl for cl in [
                "isinstance(yielded, tuple) and len(yielded) == 2",
                # identical shape and edges; the edges are a deep copy
            ] + EDGES + SHAPE
              # every cell is the sequence applied to the corresponding cell (its yield_count()-th result; the data part when
              # the contexts of the bins are dropped)
              + allrows(lambda r: "self._drop_bins_context implies all(%s[k] == dataof(%s[yield_count()]) for k in range(len(%s)))"
                        % (OUT(r), RUNK(r), BINS(r)))
              + allrows(lambda r: "not self._drop_bins_context implies all(%s[k] == %s[yield_count()] for k in range(len(%s)))"
                        % (OUT(r), RUNK(r), BINS(r)))
              + PRIVATE + [
                # C04: the context is a new deep copy at every yield; the incoming value is not changed
                "is_deep_copy(yielded[1])", "is_fresh(yielded[1])", "made_in_iteration(yielded[1], 1)",
                "all_keys(lambda k: k == 'value' or item(yielded[1], k) == item(%s, k))" % C,
                # `context.value is updated with bin context (if that exists)`: the context of the example bin (cell 0) of the new bins
                "not %s implies yielded[1] == %s" % (B0, C),
                "%s and not ('value' in %s) implies yielded[1]['value'] == %s" % (B0, C, B0),
                # (an existing context.value is kept, nested at the deepest level of the new one: update_nested, C07)
                "%s and 'value' in %s implies yielded[1]['value'] == upn(%s, 'value', %s['value'])" % (B0, C, B0, C),
                "%s == old(%s)" % (C, C),
            ]],
            ensures=[
                # as many histograms as the shortest cell has results
                # (`local` is bound on the exits after the loop only; the other exits contradict the precondition)
            ] + allrows(lambda r: "True implies all(len(gen_content(local(generators)._generators%s, k)) >= yield_count() "
                                  "for k in range(len(%s)))" % ("" if r is None else "[%d]" % r, BINS(r))) + [
                "True implies " + SHORTEST, "%s == old(%s)" % (C, C)],
            modifies=[])
    ix.add(Contract(SB, "MapBins.run", qualkey="MapBins.run#cells", props=["C11", "C04"], dict_model="Val",
                    cases=[build("1-d histogram", "histogram_cells", 0),
                           build("2-d histogram with two rows", "histogram_cells2", 2)]))


# ---------------------------------------------------------------------------------------------- IterateBins.run (selected branch)
def _ufun(name, arg_sorts, res_sort):
    """an uninterpreted specification function of the given SMT sorts (numbers are coerced to Real)"""
    def sp(ip, st, pos, kws):
        from pyvc.dicts import dterm
        from pyvc.smt import T, to_real
        from pyvc.sym import Opaque
        f = ip.reg.ufun(name, arg_sorts, res_sort)
        ts = []
        for v, so in zip(pos, arg_sorts):
            ts.append(dterm(ip, st, v).s if so == "Val" else to_real(ip.num(v)).s if so == "Real" else v.t.s)
        return Opaque(T("(%s %s)" % (f, " ".join(ts)), res_sort))
    return sp


def register_iterate_bins(ix):
    """class docstring: `Iterate bins of histograms`; run: `Yield histogram bins one by one. ... The resulting context is taken
    from bin's context.  Histogram's context is preserved in context.bins.  context.bin is updated with "edges" (with bin
    edges) and "edges_str" (their representation).  If histogram's context contains variable, that is used for edges'
    representation.`  C11: `IterateBins enumerates every cell of such a histogram once with its own edges and context`.
    The pass-through of values that are not selected is in P_sel.py (C10); here: a flow of ONE selected 1-dimensional
    histogram.  Abstracted (as in P_sel.py): the user's create_edges_str (a callable taking a keyword) and the dictionary
    display for context.bin (it holds a tuple of pairs of numbers, which the context encoding does not model) -- both are
    functions of THIS cell's edges: edges_str_1d(create_edges_str, low, high, context.variable), bin_ctx_1d(low, high, str)."""
    ix.spec_names["edges_str_1d"] = _ufun("edges_str_1d", ["Obj", "Real", "Real", "Val"], "V")
    ix.spec_names["bin_ctx_1d"] = _ufun("bin_ctx_1d", ["Real", "Real", "V"], "Val")
    # the cells of a histogram as (content, edges) pairs, for cells that are flow values
    case = Contract(HF, "iter_bins_with_edges", name="iter_bins_with_edges[1-d, cells]",
                    params={"bins": "Lst[V]", "edges": "Lst[Real]"}, generator=True,
                    yields="Tuple[V,Tuple[Tuple[Real,Real]]]", ghost={"v_not_list": True},
                    requires=["len(edges) >= 1", "len(bins) == len(edges) - 1"],
                    loops={0: LoopSpec(invariant=[
                        "len(out) == _i",
                        "all(out[k] == (bins[k], ((old(edges)[k], old(edges)[k + 1]),)) for k in range(len(out)))"])},
                    at_yield=["yielded[0] == bins[len(out)]", "yielded[1][0][0] == old(edges)[len(out)]",
                              "yielded[1][0][1] == old(edges)[len(out) + 1]"],
                    out_def=("len(bins)", "k", "(bins[k], ((edges[k], edges[k + 1]),))"),
                    ensures=["len(out) == len(bins)",
                             "all(out[k] == (bins[k], ((edges[k], edges[k + 1]),)) for k in range(len(out)))"])
    ix.add(Contract(HF, "iter_bins_with_edges", qualkey="iter_bins_with_edges#cells", props=["C11"], cases=[case]))
    cur = ix.by_key.get((HF, "iter_bins_with_edges"))
    if cur is not None and cur.cases is not None and not any(c.name == case.name for c in cur.cases):
        cur.cases.insert(0, case)
    # update_nested (contracts/P_ctx.py, proved): callers that update the same dictionary twice need to know that it still is
    # a dictionary afterwards (the function assigns d[key]); added to its proved postconditions
    un = ix.by_key.get((CF, "update_nested"))
    if un is not None and not un.cases and "isdict(d)" not in un.ensures:
        un.ensures.append("isdict(d)")
    ix.add_class(ClassSpec("IterateBins_c", SB, alias_of="IterateBins",
                           fields={"_create_edges_str": "Obj", "_select_bins": "Inst[Selector]"}))
    H = "flow[0][0]"
    C = "flow[0][1]"
    X = "dataof(%s.bins[0])" % H
    CELL = "%s.bins[_i1]" % H
    LO, HI_ = "%s.edges[_i1]" % H, "%s.edges[_i1 + 1]" % H
    BINV = lambda v: "bin_ctx_1d(%s, %s, edges_str_1d(self._create_edges_str, %s, %s, %s))" % (LO, HI_, LO, HI_, v)
    HASV = "'variable' in %s" % C
    ix.add(Contract(
        SB, "IterateBins.run", qualkey="IterateBins.run#cells", props=["C11"], dict_model="Val",
        name="IterateBins.run[one selected 1-d histogram]",
        ghost={"v_not_list": True, "ctx_wf": ["kchain(c, 'bins')", "kchain(c, 'bin')"]},
        params={"self": "Self[IterateBins_c]", "flow": "PyList[1,Tuple[Inst[histogram_cells],Dict]]"},
        generator=True, yields="Any",
        requires=[inv.replace("self.", H + ".") for inv in ix.classes["histogram_cells"].invariant] + [
            "isdict(%s)" % C, "kchain(%s, 'bins')" % C,
            "not el_call_raises(self._select_bins._selector, %s)" % X, "el_call(self._select_bins._selector, %s)" % X],
        abstract={"edges_str": ("V", "edges_str == edges_str_1d(self._create_edges_str, bin_edges[0][0], bin_edges[0][1], "
                                     "split_var_context)"),
                  "context_bin": ("Dict", "context_bin == bin_ctx_1d(bin_edges[0][0], bin_edges[0][1], edges_str) and "
                                          "isdict(context_bin) and kchain(context_bin, 'bin')")},
        loops={1: LoopSpec(invariant=["yield_count() == _i1", "%s == old(%s)" % (C, C)])},
        at_yield=["in_loop(1)"] + ["in_loop(1) implies " + cl for cl in [
            # every cell once, in order: the _i1-th yield is cell _i1
            "yield_count() == _i1",
            "isinstance(yielded, tuple) and len(yielded) == 2",
            "yielded[0] == dataof(%s)" % CELL,
            # `the resulting context is taken from bin's context`: nothing of it changes but context.bins and context.bin
            "all_keys(lambda k: k == 'bins' or k == 'bin' or item(yielded[1], k) == item(vctx(%s), k))" % CELL,
            # `histogram's context is preserved in context.bins` (a copy of it)
            "not ('bins' in vctx(%s)) implies yielded[1]['bins'] == %s" % (CELL, C),
            "'bins' in vctx(%s) implies yielded[1]['bins'] == upn(%s, 'bins', vctx(%s)['bins'])" % (CELL, C, CELL),
            # `context.bin is updated with edges and edges_str`: of THIS cell
            # (`if histogram's context contains variable, that is used for edges' representation`, else None)
            "%s and not ('bin' in vctx(%s)) implies yielded[1]['bin'] == %s" % (HASV, CELL, BINV(C + "['variable']")),
            "not %s and not ('bin' in vctx(%s)) implies yielded[1]['bin'] == %s" % (HASV, CELL, BINV("None")),
            "%s and 'bin' in vctx(%s) implies yielded[1]['bin'] == upn(%s, 'bin', vctx(%s)['bin'])" % (
                HASV, CELL, BINV(C + "['variable']"), CELL),
            "not %s and 'bin' in vctx(%s) implies yielded[1]['bin'] == upn(%s, 'bin', vctx(%s)['bin'])" % (
                HASV, CELL, BINV("None"), CELL),
            # the histogram's own context is only copied
            "%s == old(%s)" % (C, C),
        ]],
        ensures=["yield_count() == len(%s.bins)" % H, "%s == old(%s)" % (C, C)],
        modifies=[]))


# ---------------------------------------------------------------------------------------------- cell_to_string
def register_cell_to_string(ix):
    """docstring: `Transform cell edges into a string.  cell_edges is a tuple of pairs (lower bound, upper bound) for each
    coordinate.  coord_names is a list of coordinates names.  coord_fmt is a string, which defines how to format individual
    coordinates.  coord_join is a string, which joins coordinate pairs.  If reverse is True, coordinates are joined in
    reverse order.`  IterateBins.__init__: `var_context is variable context containing variable names`.  Signature defaults:
    coord_fmt="{}_lte_{}_lt_{}", coord_join="_".  Every coordinate is formatted from ITS pair of edges and ITS name, low edge
    first; the coordinates are joined in order (reversed iff `reverse`).  The text of a number is an uninterpreted function
    of the number (pyvc/lib_graph.py).  A variable context is a dictionary with the key `name` (typed KwDict[name:Str]); the
    `combine` list of a Combine variable (a list of dictionaries inside a context) is not modelled."""
    FMT = "'{{}}_lte_{{}}_lt_{{}}'.format(cell_edges[{d}][0], {name}, cell_edges[{d}][1])"
    DEF = {"var_context": None, "coord_names": None, "coord_fmt": "{}_lte_{}_lt_{}", "coord_join": "_", "reverse": False}
    P = {"cell_edges": None, "var_context": None, "coord_names": "None", "coord_fmt": "Str['{}_lte_{}_lt_{}']",
         "coord_join": "Str['_']", "reverse": "Bool"}
    E1, E2 = "Tuple[Tuple[Real,Real]]", "Tuple[Tuple[Real,Real],Tuple[Real,Real]]"
    c0 = FMT.format(d=0, name="'coord{}'.format(0)")
    c1 = FMT.format(d=1, name="'coord{}'.format(1)")

    def case(name, edges, vc, **kw):
        return Contract(HF, "cell_to_string", name="cell_to_string[%s]" % name, ghost={"str_format": True},
                        params=dict(P, cell_edges=edges, var_context=vc), defaults=DEF, result="Str", modifies=[], **kw)
    ix.add(Contract(
        HF, "cell_to_string", props=["C11"],
        cases=[
            case("1-d, a variable with a name", E1, "KwDict[name:Str]",
                 ensures=["result == " + FMT.format(d=0, name="var_context['name']")]),
            case("1-d, no variable context", E1, "None", ensures=["result == " + c0]),
            case("2-d, no variable context", E2, "None",
                 ensures=["not reverse implies result == %s + '_' + %s" % (c0, c1),
                          "reverse implies result == %s + '_' + %s" % (c1, c0)]),
        ]))
    # OPEN finding of C11 (known_findings.json: IterateBins raises for the 2-dimensional histogram of ONE plain Variable that
    # returns a pair): one name for two coordinates.  Documented here, not attached to a property.
    ix.add(Contract(HF, "cell_to_string", qualkey="cell_to_string#one-name-two-coordinates", props=[],
                    cases=[case("2-d, a single variable with a name", E2, "KwDict[name:Str]",
                                raises={"LenaValueError": "True"})],
                    notes="documents the open C11 finding; deliberately not attached to a property"))
