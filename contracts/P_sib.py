"""sidecar contracts (see tools/CONTRACTS_GUIDE.md)

P_sib -- property C11 (SplitIntoBins analyses each cell on exactly its sub-flow; context.variable describes the argument
variable; MapBins / IterateBins) and the second sentence of C04 (every context yielded by compute() is a deep copy made
for that very yield).  Sidecar contracts of lena/structures/split_into_bins.py: _MdSeqMap, SplitIntoBins.__init__ /
compute, MapBins.run, IterateBins.run.  (SplitIntoBins.fill, init_bins, get_bin_on_value: contracts/P_hist.py, C06.py.)

Per-cell analyses are abstract FillCompute elements (DESIGN 2.3): el_fill / el_compute denotations over the ghost element
states; `el_compute(cell, elstate(cell))` is the list of results of THAT cell.  The list of the cells' compute()
generators that lena.math.md_map builds is the engine's list-of-generators object (pyvc/lib_sib.py: gen_len, gen_content,
gen_pulled)."""
from pyvc.contracts import Contract, LoopSpec, ClassSpec

SB = "lena/structures/split_into_bins.py"
HI = "lena/structures/histogram.py"
HF = "lena/structures/hist_functions.py"
VA = "lena/variables/variable.py"

G = "self._generators"


def mono(a):
    return "all(all(implies(i < j, {a}[i] < {a}[j]) for j in range(len({a}))) for i in range(len({a})))".format(a=a)


def register(ix):
    from pyvc import lib_sib
    lib_sib.register(ix)
    register_md_seq_map(ix)
    register_init(ix)
    register_compute(ix)


# ---------------------------------------------------------------------------------------------- _MdSeqMap
def register_md_seq_map(ix):
    """class docstring: `Multidimensional mapping of a Sequence`; __init__: `generator is mapped to array's contents.  Example
    when a bin is a sequence: generator=lambda cell: cell.compute()`.  task text / SplitIntoBins.compute docstring (`In
    Python 3 the minimum number of compute() among all bins is used`): next() hands out the k-th result of EVERY cell, as a
    list of the same shape, and stops with the shortest cell."""
    ix.add_class(ClassSpec("_MdSeqMap", SB, fields={"_generators": "IterLst[V]"}))
    # the constructor maps a caller-supplied function over the cells: executed in place at its call sites
    ix.add(Contract(SB, "_MdSeqMap.__init__", props=[], params={"self": "Any", "generator": "Any", "array": "Any"}, inline=True))
    SAME = ["gen_len({g}) == old(gen_len({g}))".format(g=G),
            "all(gen_content({g}, k) == old(gen_content({g}, k)) for k in range(gen_len({g})))".format(g=G)]
    STOP = "any(gen_pulled({g}, k) >= len(gen_content({g}, k)) for k in range(gen_len({g})))".format(g=G)

    def nxt(qual):
        return Contract(
            SB, qual, props=["C11"],
            params={"self": "Self[_MdSeqMap]"}, result="Lst[V]",
            # stops with the shortest: as soon as one cell has no further result
            raises={"StopIteration": STOP},
            ensures=SAME + [
                # the next result of every cell, cell by cell
                "len(result) == gen_len(%s)" % G,
                "all(result[k] == gen_content({g}, k)[old(gen_pulled({g}, k))] for k in range(len(result)))".format(g=G),
                # every cell's generator moved on by exactly one
                "all(gen_pulled({g}, k) == old(gen_pulled({g}, k)) + 1 for k in range(gen_len({g})))".format(g=G)],
            modifies=["self._generators"])
    ix.add(nxt("_MdSeqMap.next"))
    ix.add(nxt("_MdSeqMap.__next__"))
    ix.add(Contract(SB, "_MdSeqMap.__iter__", props=["C11"], params={"self": "Self[_MdSeqMap]"}, result="Inst[_MdSeqMap]",
                    result_alias="self", ensures=["result is self"], modifies=[]))


# ---------------------------------------------------------------------------------------------- SplitIntoBins.__init__
INCR = "all({a}[i] < {a}[i + 1] for i in range(len({a}) - 1))"


def register_init(ix):
    """docstring: `seq is a FillComputeSeq sequence (or will be converted to that) ... Deep copy of seq is done for each bin.
    arg_var is a Variable that takes data and returns value used to compute the bin index. ... edges is a sequence of arrays
    containing monotonically increasing bin edges along each dimension. ... Attributes: bins, edges.  If edges are not
    increasing, LenaValueError is raised.  In case of other argument initialization problems, LenaTypeError is raised.`
    C11: `deep copy of the analysis per cell at construction`: every cell is its OWN copy of the sequence -- made by
    copy.deepcopy(seq) during the call, different from seq and from every other cell."""
    ix.add_class(ClassSpec("SplitIntoBins_new", SB, fields={}, alias_of="SplitIntoBins"))
    MOD = ["self._arg_var", "self._arg_func", "self.bins", "self.edges", "self._cur_context"]
    COMMON = ["self.edges is edges", "self._arg_var is arg_var", "self._arg_func is arg_var.getter",
              "self._cur_context == emptydict()", "clock() >= old(clock())"]

    def cells(rng, cell):
        return [rng("copy_of(%s, seq)" % cell), rng("is_deep_copy(%s)" % cell), rng("%s is not seq" % cell),
                rng("new_object(%s)" % cell), rng("old(clock()) <= born(%s) < clock()" % cell)]
    r1 = lambda body: "all(%s for i in range(len(self.bins)))" % body
    r2 = lambda body: "all(all(%s for j in range(len(self.bins[i]))) for i in range(len(self.bins)))" % body
    DISTINCT1 = "all(all(implies(i != j, self.bins[i] is not self.bins[j]) for j in range(len(self.bins))) for i in range(len(self.bins)))"
    DISTINCT2 = ("all(all(all(all(implies(i != i2 or j != j2, self.bins[i][j] is not self.bins[i2][j2]) for j2 in range(len(self.bins[i2])))"
                 " for i2 in range(len(self.bins))) for j in range(len(self.bins[i]))) for i in range(len(self.bins)))")
    FCS = "is_instance_of(seq, 'FillComputeSeq')"
    ix.add(Contract(
        SB, "SplitIntoBins.__init__", props=["C11"], dict_model="Val",
        cases=[
            Contract(SB, "SplitIntoBins.__init__", name="SplitIntoBins.__init__[1-d edges]", dict_model="Val",
                     params={"self": "Self[SplitIntoBins_new]", "seq": "Obj", "arg_var": "Inst[Variable]", "edges": "Lst[Real]"},
                     requires=[FCS], ghost={"alloc": True},
                     raises={"LenaValueError": "len(edges) <= 1 or not " + INCR.format(a="edges")},
                     ensures=COMMON + ["len(self.bins) == len(edges) - 1", DISTINCT1] + cells(r1, "self.bins[i]"),
                     modifies=MOD),
            Contract(SB, "SplitIntoBins.__init__", name="SplitIntoBins.__init__[2-d edges]", dict_model="Val",
                     params={"self": "Self[SplitIntoBins_new]", "seq": "Obj", "arg_var": "Inst[Variable]",
                             "edges": "PyList[2,Lst[Real]]"},
                     requires=[FCS], ghost={"alloc": True},
                     raises={"LenaValueError": " or ".join("len(edges[%d]) <= 1 or not %s" % (d, INCR.format(a="edges[%d]" % d))
                                                           for d in range(2))},
                     ensures=COMMON + ["len(self.bins) == len(edges[0]) - 1",
                                       "all(len(self.bins[i]) == len(edges[1]) - 1 for i in range(len(self.bins)))", DISTINCT2]
                     + cells(r2, "self.bins[i][j]"),
                     modifies=MOD),
            # `In case of other argument initialization problems, LenaTypeError is raised`
            Contract(SB, "SplitIntoBins.__init__", name="SplitIntoBins.__init__[arg_var is not a Variable]", dict_model="Val",
                     params={"self": "Self[SplitIntoBins_new]", "seq": "Obj", "arg_var": "Obj", "edges": "Lst[Real]"},
                     requires=[FCS, "not is_instance_of(arg_var, 'Variable')"],
                     raises={"LenaTypeError": "True"}, modifies=MOD),
        ]))


# ---------------------------------------------------------------------------------------------- SplitIntoBins.compute
def hist(c):
    return "('variable' in {c} and {c}['variable'] and 'type' in {c}['variable'])".format(c=c)


def nohist(c):
    return ("((not 'variable' in {c}) or (not {c}['variable']) or "
            "('type' not in {c}['variable'] and 'compose' not in {c}['variable']))").format(c=c)


def typed(v):
    return "('type' in {v} and {v}['type'])".format(v=v)


def wf_var(v):
    """a variable context as variables produce it: the type is a string, compose a list of strings"""
    return ["'type' in {v} implies is_str({v}['type'])".format(v=v),
            "'compose' in {v} implies is_klist({v}['compose'])".format(v=v)]


WF = "(not {x} or (isdict({x}) and implies('type' in {x}, is_str({x}['type'])) " \
     "and implies('compose' in {x}, is_klist({x}['compose']))))"


def register_compute(ix):
    """docstring: `Yield a (histogram, context) pair for each compute() for all bins.  The histogram is created from edges
    with bin contents taken from compute() for bins. ... SplitIntoBins adds context as a subcontext variable (corresponding
    to arg_var). ... Existing context values are preserved. ... In Python 3 the minimum number of compute() among all bins
    is used.`  C04: every yielded context is a new deep copy; the stored context is not changed (`compute can be called
    several times`)."""
    DIST1 = "all(all(implies(i != j, self.bins[i] is not self.bins[j]) for j in range(len(self.bins))) for i in range(len(self.bins)))"
    ix.add_class(ClassSpec(
        "SplitIntoBins_c1", SB, alias_of="SplitIntoBins",
        fields={"bins": "Lst[Obj]", "edges": "Lst[Real]", "_arg_var": "Inst[Variable]", "_cur_context": "Dict"},
        invariant=["len(self.edges) >= 2", mono("self.edges"), "len(self.bins) == len(self.edges) - 1", DIST1,
                   "isdict(self._cur_context)",
                   # a cell is an analysis sequence (FillComputeSeq), not a nested list of cells
                   "all(not isinstance(self.bins[k], list) for k in range(len(self.bins)))",
                   # (ground instance: the cell lena.math.md_map looks at to tell the dimension)
                   "not isinstance(self.bins[0], list)", "not (len(self.bins) == 0)",
                   # the argument variable (object invariant of Variable: contracts/C14.py, P_var.py)
                   "isdict(self._arg_var.var_context)"] + wf_var("self._arg_var.var_context")))
    # the yielded histogram holds flow values (the cells' results), not numbers
    k = ix.by_key[(HI, "histogram.__init__")]
    if not any(c.name == "histogram.__init__[dim=1, bins of results]" for c in k.cases):
        k.cases.insert(0, Contract(
            HI, "histogram.__init__", name="histogram.__init__[dim=1, bins of results]",
            params={"self": "Self[histogram0]", "edges": "Lst[Real]", "bins": "Lst[V]", "initial_value": "Real"},
            defaults={"initial_value": 0},
            raises={"LenaValueError": "len(edges) <= 1 or not all(edges[i] < edges[i + 1] for i in range(len(edges) - 1)) "
                                      "or len(bins) != len(edges) - 1"},
            ensures=["self.edges is edges", "self.bins is bins", "self.n_out_of_range == 0", "self._scale is None",
                     "self.dim == 1", "self.nbins[0] == len(edges) - 1", "self.ranges[0][0] == edges[0]",
                     "self.ranges[0][1] == edges[len(edges) - 1]"],
            modifies=["self.edges", "self.bins", "self.n_out_of_range", "self.dim", "self._scale", "self.nbins", "self.ranges"]))
    RK = "el_compute(self.bins[k], elstate(self.bins[k]))"
    C0 = "self._cur_context"
    V = "self._arg_var.var_context"
    YC = "yielded[1]"
    GEN = "generators._generators"
    ix.add(Contract(
        SB, "SplitIntoBins.compute", props=["C11", "C04"], dict_model="Val", name="SplitIntoBins.compute[1-d]",
        ghost={"elstate": True},
        params={"self": "Self[SplitIntoBins_c1]"}, generator=True, yields="Any",
        # the stored context is one that variables produce (what Variable._update_context accepts)
        requires=["'variable' in %s implies %s" % (C0, WF.format(x=C0 + "['variable']"))],
        loops={0: LoopSpec(invariant=[
            "gen_len(%s) == len(self.bins)" % GEN,
            "all(gen_content(%s, k) == %s for k in range(len(self.bins)))" % (GEN, RK),
            "all(gen_pulled(%s, k) == yield_count() for k in range(len(self.bins)))" % GEN,
            "all(len(%s) >= yield_count() for k in range(len(self.bins)))" % RK])},
        at_yield=[
            "isinstance(yielded, tuple) and len(yielded) == 2",
            # the histogram: over the given edges, cell k holds the yield_count()-th result of cell k's own analysis
            "yielded[0].edges is self.edges",
            "len(yielded[0].bins) == len(self.bins)",
            "all(yielded[0].bins[k] == %s[yield_count()] for k in range(len(self.bins)))" % RK,
            # C04: a new deep copy for every yield
            "is_deep_copy(%s)" % YC, "is_fresh(%s)" % YC, "made_in_iteration(%s, 0)" % YC,
            # context: existing values preserved, context.variable describes the argument variable
            "all_keys(lambda k: k == 'variable' or item(%s, k) == item(%s, k))" % (YC, C0),
            nohist(C0) + " implies %s['variable'] == %s" % (YC, V),
            "all_keys(lambda k: k == 'compose' or item(%s, k) == absent() or item(%s['variable'], k) == item(%s, k))" % (V, YC, V),
            # ... with the history of a typed variable applied after typed variables (C14): compose lists the types in
            # application order, the attributes of every composed variable stay available under its type, nothing more
            hist(C0) + " and " + typed(V) + " implies klist(%s['variable']['compose']) == compose_ref(%s['variable'], %s)" % (YC, C0, V),
            hist(C0) + " and " + typed(V) + " implies all_keys(lambda k: k == 'compose' or "
            "item({y}['variable'], k) == (item({v}, k) if item({v}, k) != absent() else "
            "(item({c}['variable'], k) if k in klist({y}['variable']['compose']) else absent())))".format(y=YC, v=V, c=C0),
            # the stored context and the variable are not changed
            "%s == old(%s)" % (C0, C0), "%s == old(%s)" % (V, V),
        ],
        ensures=[
            # `the minimum number of compute() among all bins is used`
            "all(len(%s) >= yield_count() for k in range(len(self.bins)))" % RK,
            "any(len(%s) == yield_count() for k in range(len(self.bins)))" % RK,
            "%s == old(%s)" % (C0, C0), "%s == old(%s)" % (V, V), "elstate_same()"],
        modifies=[]))
