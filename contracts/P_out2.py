"""P_out2 -- fourth wave: ASSUMED (trusted=True) callee contracts of the output part of C19 / C10 / C12 (and of
Cache.alter_sequence, C18) are replaced by contracts PROVED from the real source, registered under the same keys so that
every caller is re-proved against them.  Loaded last (after P_out.py, P_sel.py, P_ctx2.py, P_acc2.py).

lena/context/functions.py   update_recursively[d, 'output.changed', value / flag]: proved cases (the assumed case of P_acc2.py
                            was wrong for a dictionary value: now a precondition / a Bool-typed case).
lena/output/pdf_to_png.py   _run_command: proved over the external-process model of pyvc/lib_proc.py (subprocess.Popen);
                            + the finding "timeoutsec is never applied" (props=[]).
lena/output/latex_to_pdf.py LaTeXToPDF.run.launch: proved (which command line is started, once; contexts untouched).
lena/output/to_csv.py       hist2d_to_csv.format_line; iterable_to_table with header fields (a further proved case).
lena/output/__init__.py     raise_on_usage and its stub.
lena/core/adapters.py       SourceEl.__init__[Cache element, '_load_flow']; lena/core/source.py Source.__init__ for an adapter
                            of a Cache with 0 / 1 / 2 abstract tail elements (the clauses of Cache.alter_sequence that spoke
                            about ghost fields _call_name / _n_tail / _tail_i now speak about the real fields).
Left assumed (see the final report of the wave): format_context / Formatter.__call__ for symbolic format strings,
LaTeXToPDF.run.pop_returned_processes, hist*_to_csv / iterable_to_table for an abstract flow value, Source.__init__ with a Cache
object in the tail; lena/output/render_latex.py _Template.__new__ / _Environment.__init__ are not reached."""
from pyvc.contracts import Contract, LoopSpec, ClassSpec
from pyvc.smt import T, I, AND, OR, NOT, EQ, ITE
from pyvc.sym import Bool, Opaque, Str, Ref

CF = "lena/context/functions.py"
WR = "lena/output/write.py"
PP = "lena/output/pdf_to_png.py"
LP = "lena/output/latex_to_pdf.py"
TC = "lena/output/to_csv.py"
OI = "lena/output/__init__.py"
RL = "lena/output/render_latex.py"


def replace(ix, c):
    """register c under its key INSTEAD of the contract registered there before"""
    old = ix.by_key.get(c.key)
    if old is not None:
        ix.by_simple[old.simple] = [x for x in ix.by_simple.get(old.simple, []) if x is not old]
    return ix.add(c)


# --------------------------------------------------------------------------- update_recursively(d, "output.changed", v)
def register_update_changed(ix):
    """docstring of update_recursively: `other` can be a dot-separated string; str_to_dict converts it and the value to a
    dictionary; existing values are updated recursively, non-dictionary items overwrite.  For the string 'output.changed':
    only d.output.changed is set, d.output is created (or replaces a non-dictionary) as needed, everything else stays."""
    ur = ix.by_key[(CF, "update_recursively")]
    name = "update_recursively[d, 'output.changed', value]"
    old = [c for c in (ur.cases or []) if c.name == name]
    base = [c for c in (ur.cases or []) if c.name == "update_recursively"]
    if not old or not base:
        return
    old, base = old[0], base[0]
    proved = Contract(
        CF, "update_recursively", name=name, dict_model="Val",
        params=dict(old.params), result=None,
        # the assumed case said d.output.changed == value for EVERY value; for a dictionary value and an existing dictionary
        # d.output.changed the function merges the two recursively (docstring), so that clause was wrong there: the flag
        # that group_plots / MapGroup store is no dictionary (obligation of the callers now)
        requires=["not isdict(value)"],
        raises={"LenaTypeError": "not isdict(d)"}, raises_frame="pure",
        ensures=list(old.ensures),
        # `other` is {'output': {'changed': value}} here: the loop has one step
        loops={0: LoopSpec(invariant=[
            "isdict(d)",
            # (instances of the definition of the reference function nestk of P_ctx.py at the two levels of 'output.changed')
            "isdict(nestkx(split_dots(old(other)), 0, len(split_dots(old(other))), value))",
            "all_keys(lambda k: k == 'output' or item(d, k) == item(old(d), k))",
            "not seen('output') implies item(d, 'output') == item(old(d), 'output')",
            "seen('output') implies 'output' in d and isdict(d['output'])",
            "seen('output') implies item(d['output'], 'changed') == present(value)",
            "seen('output') and ctx_get(old(d), 'output') != absent() and isdict(old(d)['output']) implies "
            "all_keys(lambda k: k == 'changed' or item(d['output'], k) == item(old(d)['output'], k))",
            "seen('output') and not (ctx_get(old(d), 'output') != absent() and isdict(old(d)['output'])) implies "
            "all_keys(lambda k: k == 'changed' or item(d['output'], k) == absent())"])},
        modifies=["d"],
        notes="proved from the real body (replaces the assumed case of P_acc2.py)")
    i = ur.cases.index(old)
    ur.cases[i] = proved
    # the flag as a truth value (what group_plots / _update_with_group pass): the same case typed Bool, no precondition
    import copy
    flag = copy.copy(proved)
    flag.name = "update_recursively[d, 'output.changed', flag]"
    flag.params = dict(old.params, value="Bool")
    flag.requires = []
    flag.loops = {0: LoopSpec(invariant=list(proved.loops[0].invariant))}
    ur.cases.insert(i, flag)


# ------------------------------------------------------------------------------------------------- external commands
def register_run_command(ix):
    """lena/output/pdf_to_png.py _run_command(command, verbose, timeoutsec) -- docstring: "Run system shell command via
    subprocess module.  command is a list of strings."  Proved over the process model of pyvc/lib_proc.py: exactly the
    given command line is started, once (the file system afterwards is proc_fs(before, command)); whatever its exit status,
    nothing is raised; nothing but the file system changes.  What the external program does to the disk is the assumption
    listed with proc_fs (pdftoppm creates <root>.<fmt>)."""
    from pyvc import lib_proc
    lib_proc.register(ix)
    common = dict(result=None, raises={}, ensures=["fs() == proc_fs(old(fs()), command)"], modifies=["fs"],
                  defaults={"verbose": True, "timeoutsec": 60})
    replace(ix, Contract(PP, "_run_command", props=["C19", "C10"], cases=[
        Contract(PP, "_run_command", name="_run_command[command line of five strings]", ghost={"fs": True},
                 params={"command": "PyList[5,Str]", "verbose": "Bool", "timeoutsec": "Int"}, **common),
        Contract(PP, "_run_command", name="_run_command[any list of strings]", ghost={"fs": True},
                 params={"command": "Lst[Key]", "verbose": "Bool", "timeoutsec": "Int"}, **common),
    ]))


def register_run_command_timeout(ix):
    """FINDING (kept out of every property: props=[]).  Docstring of PDFToPNG.__init__: "timeoutsec is time (in seconds)
    for subprocess timeout (used only in Python 3).  If the timeout expires, the child process will be killed and waited
    for.  The TimeoutExpired exception will be re-raised".  _run_command builds {"timeout": timeoutsec} and passes that
    DICTIONARY as the first positional argument of communicate (its `input`); no timeout is ever applied.
    Replay: _run_command(["sleep", "2"], verbose=False, timeoutsec=1) returns normally after 2 s."""
    ix.add(Contract(
        PP, "_run_command", qualkey="_run_command#docstring-timeout", name="_run_command[docstring: timeoutsec is the timeout of the wait]",
        props=[], ghost={"fs": True},
        params={"command": "PyList[5,Str]", "verbose": "Bool", "timeoutsec": "Int"}, result=None,
        ensures=["local(popen).timeout_used == timeoutsec"], modifies=["fs"],
        notes="fails (sat): kept as a record of the finding"))


def sp_user_command(ip, st, pos, kws):
    """user_command(f, tex, out, dir): the command line the user's create_command function returns (a list of strings,
    a function of its arguments -- the context argument is left out: the value's context is a mutable object)"""
    reg = ip.reg
    lk = reg.lst("Key")
    from pyvc.lib import path_key
    f = reg.ufun("user_command", ["Obj", "Key", "Key", "Key"], lk)
    ks = [path_key(ip, st, p, "user_command").s for p in pos[1:]]
    return ip.lst_view(T("(%s %s %s)" % (f, pos[0].t.s, " ".join(ks)), lk))


def register_launch(ix):
    """lena/output/latex_to_pdf.py, nested def launch of LaTeXToPDF.run -- docstring "Add process to pool"; class docstring:
    the default command is pdflatex -halt-on-error -interaction errorstopmode -output-directory <dir> <texfile>; a
    create_command function makes the command line instead.  Proved: exactly one process is started, for exactly that
    command line (the given TeX file, the given output directory); nothing is raised; no context is touched.
    That pdflatex then makes the pdf is the external-program assumption of pyvc/lib_proc.py; for a USER command it is the
    abstract clause below (the assumption the former assumed contract made for every command)."""
    ix.spec_names["user_command"] = sp_user_command
    DEFAULT = ("cmd_line('pdflatex', '-halt-on-error', '-interaction', 'errorstopmode', '-output-directory', "
               "output_directory, texfile_name)")
    USER = "user_command(self.create_command, texfile_name, outfilename, output_directory)"
    replace(ix, Contract(
        LP, "LaTeXToPDF.run.launch", props=["C19"],
        ghost={"fs": True, "bind_closure": True,
               # the store into the process pool (a dictionary of (process, context) pairs: not modelled)
               "opaque_regions": [{"start": "pool[outfilename] = "}]},
        closure={"self": "Self[LaTeXToPDF]"},
        params={"texfile_name": "V", "outfilename": "Str", "output_directory": "Str", "context": "Dict", "pool": "Obj"},
        result=None, raises={},
        abstract={"command@0": ("Lst[Key]", "same(command, %s) and fs_exists_in(proc_fs(fs(), command), outfilename)" % USER)},
        ensures=["not self.create_command implies fs() == proc_fs(old(fs()), %s)" % DEFAULT,
                 "self.create_command implies fs() == proc_fs(old(fs()), %s)" % USER,
                 "self.create_command implies fs_exists(outfilename)",
                 "context == old(context)"],
        modifies=["fs"],
        notes="replaces the assumed contract of P_out.py"))


# ------------------------------------------------------------------------------------------------------ bare helpers
def register_helpers(ix):
    # hist2d_to_csv.format_line (nested): property C12 -- "ToCSV writes one row per cell ... that parse back to the edges and
    # contents within the printed precision": a row is the x edge, the y edge and the content, in this order, each in
    # fixed-point notation, with the separator between them (and nothing else)
    F = "'{:f}'.format(%s)"
    ix.add(Contract(
        TC, "hist2d_to_csv.format_line", props=["C12"], ghost={"str_format": True, "bind_closure": True},
        closure={"separator": "Str"}, params={"x": "Real", "y": "Real", "bin_content": "Real"}, result="Str",
        raises={},
        ensures=["result == %s + separator + %s + separator + %s" % (F % "x", F % "y", F % "bin_content")],
        modifies=[]))
    # lena/output/__init__.py raise_on_usage(clsname, modname): the stand-in for an element whose third-party module is
    # missing -- creating the stand-in raises nothing (importing lena.output must work without jinja2); USING it, with
    # whatever arguments, raises ImportError
    ix.add(Contract(
        OI, "raise_on_usage", props=["C10"], params={"clsname": "Str", "modname": "Str"}, result="Any",
        raises={}, ensures=["callable(result)"], modifies=[]))
    stub = dict(closure={"clsname": "Str", "modname": "Str"}, vararg="args", kwarg="kwargs", result="Any",
                raises={"ImportError": "True"}, raises_frame="pure")
    ix.add(Contract(OI, "raise_on_usage.stub", props=["C10"], cases=[
        Contract(OI, "raise_on_usage.stub", name="raise_on_usage.stub[no arguments]",
                 params={"args": "Tuple[]", "kwargs": "KwDict[]"}, **stub),
        Contract(OI, "raise_on_usage.stub", name="raise_on_usage.stub[two positional arguments, a keyword]",
                 params={"args": "Tuple[Obj,V]", "kwargs": "KwDict[verbose:Int]"}, **stub)]))


def register_table_header(ix):
    """iterable_to_table with header fields -- docstring (example): header="{},{}", header_fields=("rad", "deg") gives the
    first line "rad,deg": a non-empty header is yielded first, formatted with the header fields; every row once, in
    order, each as row_start + cells joined by row_separator + row_end; a non-empty footer last.  (The cases without header
    fields are in P_hist2.py.)"""
    it = ix.by_key.get((TC, "iterable_to_table"))
    if it is None or not it.cases:
        return
    H = "(1 if header != '' else 0)"
    single = "row_start + row_separator.join([repr(iterable[k])]) + row_end"
    HEAD = "header.format(header_fields[0], header_fields[1])"
    case = Contract(
        TC, "iterable_to_table", name="iterable_to_table[rows are single numbers, two header fields]",
        ghost={"str_format": True, "str_format_abstract": True},
        params={"iterable": "Lst[Real]", "format_": "None", "header": "Str", "header_fields": "Tuple[Str,Str]",
                "row_start": "Str", "row_end": "Str", "row_separator": "Str", "footer": "Str"},
        defaults={"format_": None, "header": "", "header_fields": (), "row_start": "", "row_end": "", "row_separator": ",", "footer": ""},
        generator=True, yields="Key",
        # (the body re-binds `header` to the formatted text: the invariant speaks about the argument, old(header))
        loops={0: LoopSpec(invariant=[c.replace("header", "old(header)").replace("old(header)_fields", "header_fields") for c in [
            "len(out) == %s + _i" % H, "header != '' implies out[0] == %s" % HEAD,
            "all(out[%s + k] == %s for k in range(_i))" % (H, single)]])},
        # a header that str.format refuses (single braces ...) surfaces as ValueError when the table is iterated
        raises={"ValueError": "?"},
        ensures=["len(out) == %s + len(iterable) + (1 if footer != '' else 0)" % H,
                 "header != '' implies out[0] == %s" % HEAD,
                 "footer != '' implies out[len(out) - 1] == footer",
                 "all(out[%s + k] == %s for k in range(len(iterable)))" % (H, single)],
        modifies=[])
    if not any(c.name == case.name for c in it.cases):
        k = min([j for j, c in enumerate(it.cases) if c.trusted] or [len(it.cases)])
        it.cases.insert(k, case)


# ------------------------------------------------------------------------------- SourceEl(cache, call="_load_flow")
AD = "lena/core/adapters.py"
CA = "lena/flow/cache.py"


def register_sourceel_of_cache(ix):
    """Cache.alter_sequence (C18, contract in P_out.py) builds SourceEl(cache, call="_load_flow").  P_out.py ASSUMED that
    constructor for a Cache instance and recorded the method NAME in a ghost field _call_name.  Here the case is PROVED from
    the real SourceEl.__init__ (docstring: "Element el must ... contain a callable method call"; LenaTypeError otherwise):
    for a Cache and the name "_load_flow" nothing is raised, the adapter keeps the element itself and its _call IS the bound
    method _load_flow of that element.  The clauses of Cache.alter_sequence that spoke about the ghost name now speak about
    the real field."""
    se = ix.by_key.get((AD, "SourceEl.__init__"))
    ca = ix.by_key.get((CA, "Cache.alter_sequence"))
    if se is None or ca is None or "SourceEl_of_cache" not in ix.classes:
        return
    name = "SourceEl.__init__[Cache element, method name]"
    old = [c for c in (se.cases or []) if c.name == name and c.trusted]
    if not old:
        return
    ix.add_class(ClassSpec("SourceEl_of_cache", AD, alias_of="SourceEl", fields={"_el": "Inst[Cache]"}))
    se.cases[se.cases.index(old[0])] = Contract(
        AD, "SourceEl.__init__", name="SourceEl.__init__[Cache element, '_load_flow']",
        params={"self": "Self[SourceEl0]", "el": "Inst[Cache]", "call": "Str['_load_flow']"}, post_class="SourceEl_of_cache",
        raises={}, ensures=["self._el is el", "self._call is el._load_flow"], modifies=["self._call", "self._el"],
        notes="proved (replaces the assumed case of P_out.py)")
    for c in ca.cases or []:
        c.ensures = [e.replace("result._first._call_name == '_load_flow'", "result._first._call is result._first._el._load_flow")
                     for e in c.ensures]
    register_source_of_cache(ix, ca)


SO = "lena/core/source.py"
SRC_MOD = ["self._name", "self._seq", "self._data_seq", "self._static_context", "self._exc", "self._first", "self._tail"]


def register_source_of_cache(ix, ca):
    """Source(SourceEl(cache, ...)) with NO tail (a single Cache, or the last element of the sequence is the filled Cache):
    P_out.py assumed the constructor and recorded `_n_tail == 0` in a ghost field.  Proved here from the real
    Source.__init__ (docstring: "First argument is the initial element with no input flow ... Following arguments (if
    present) form a sequence of elements"): nothing is raised for the adapter (it is callable), the Source keeps that very
    object as its first element and has the empty tail ()."""
    so = ix.by_key.get((SO, "Source.__init__"))
    name = "Source.__init__[SourceEl of a Cache first, 0 tail elements]"
    old = [c for c in (so.cases or []) if c.name == name and c.trusted] if so is not None else []
    if not old:
        return
    ix.add_class(ClassSpec("Source_hoisted_0", SO, alias_of="Source", fields={"_first": "Inst[SourceEl_of_cache]", "_tail": "Tuple[]"}))
    so.cases[so.cases.index(old[0])] = Contract(
        SO, "Source.__init__", name=name,
        params={"self": "Self[Source]", "args": "Tuple[Inst[SourceEl_of_cache]]"}, vararg="args", post_class="Source_hoisted_0",
        raises={}, ensures=["self._first is args[0]", "len(self._tail) == 0"], modifies=SRC_MOD,
        notes="proved (replaces the assumed case of P_out.py)")
    for c in ca.cases or []:
        c.ensures = [e.replace("result._n_tail == 0", "len(result._tail) == 0") for e in c.ensures]
    # ---- one tail element: the tail is Sequence(that element) (as the proved case of C01.py for an abstract first element).
    # Sequence refuses what is no run element: the docstring of alter_sequence speaks of "the Sequence seq", whose elements
    # are run elements -- that is now a stated precondition of the (element, Cache, element) case.
    name1 = "Source.__init__[SourceEl of a Cache first, 1 tail elements]"
    old1 = [c for c in so.cases if c.name == name1 and c.trusted]
    if not old1:
        return
    ix.add_class(ClassSpec("Source_hoisted_1", SO, alias_of="Source",
                           fields={"_first": "Inst[SourceEl_of_cache]", "_tail": "Inst[Sequence]"}))
    RUN_EL = "not has_attr({x}, '_has_no_data') and has_attr({x}, 'run') and callable_m({x}, 'run')"
    so.cases[so.cases.index(old1[0])] = Contract(
        SO, "Source.__init__", name=name1,
        params={"self": "Self[Source]", "args": "Tuple[Inst[SourceEl_of_cache],Obj]"}, vararg="args",
        post_class="Source_hoisted_1", requires=[RUN_EL.format(x="args[1]")],
        raises={}, ensures=["self._first is args[0]", "is_instance_of(self._tail, 'Sequence')",
                            "len(self._tail._data_seq) == 1", "self._tail._data_seq[0] is args[1]"],
        modifies=SRC_MOD, notes="proved (replaces the assumed case of P_out.py)")
    name2 = "Source.__init__[SourceEl of a Cache first, 2 tail elements]"
    old2 = [c for c in so.cases if c.name == name2 and c.trusted]
    if old2:
        ix.add_class(ClassSpec("Source_hoisted_2", SO, alias_of="Source",
                               fields={"_first": "Inst[SourceEl_of_cache]", "_tail": "Inst[Sequence]"}))
        so.cases[so.cases.index(old2[0])] = Contract(
            SO, "Source.__init__", name=name2,
            params={"self": "Self[Source]", "args": "Tuple[Inst[SourceEl_of_cache],Obj,Obj]"}, vararg="args",
            post_class="Source_hoisted_2", requires=[RUN_EL.format(x="args[1]"), RUN_EL.format(x="args[2]")],
            raises={}, ensures=["self._first is args[0]", "is_instance_of(self._tail, 'Sequence')",
                                "len(self._tail._data_seq) == 2", "self._tail._data_seq[0] is args[1]",
                                "self._tail._data_seq[1] is args[2]"],
            modifies=SRC_MOD, notes="proved (replaces the assumed case of P_out.py)")
    for c in ca.cases or []:
        if c.name == "Cache.alter_sequence[(element, Cache, element)]":
            if RUN_EL.format(x="seq[2]") not in c.requires:
                c.requires.append(RUN_EL.format(x="seq[2]"))
            c.ensures = [e.replace("result._n_tail == 1 and result._tail_0 is seq[2]",
                                   "len(result._tail._data_seq) == 1 and result._tail._data_seq[0] is seq[2]") for e in c.ensures]


def register(ix):
    register_helpers(ix)
    register_sourceel_of_cache(ix)
    register_table_header(ix)
    register_update_changed(ix)
    register_run_command(ix)
    register_run_command_timeout(ix)
    register_launch(ix)
