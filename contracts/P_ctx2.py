"""sidecar contracts (see tools/CONTRACTS_GUIDE.md)

P_ctx2 -- third wave for properties C08 / C07 / C13 / C14: what was still assumed or bounded-only after P_ctx.py / P_var.py.
"""
from pyvc.contracts import Contract, LoopSpec, ClassSpec
from pyvc.smt import T, I
from pyvc.sym import Opaque, Bool, Str, Num
from pyvc.dicts import dterm
from pyvc.verify import Lemma

CF = "lena/context/functions.py"
SENT = "Sentinel[lena.context.functions._sentinel]"


def replace(ix, c):
    """register c under its key INSTEAD of whatever an earlier module registered there (an assumed contract)"""
    for lst in ix.by_simple.values():
        lst[:] = [x for x in lst if x.key != c.key]
    return ix.add(c)


def sp_nestkx(ip, st, pos, kws):
    """nestkx(keys, i, n, v) == nestk(keys, i, n, v) of P_ctx.py; when keys are the components of a string LITERAL (their
    number is known) the definition of nestk is added at every level i, i+1, .. (instances of the same definition)"""
    import re
    from contracts.P_ctx import sp_nestk, nestk_def, _karr
    r = sp_nestk(ip, st, pos, kws)
    if not ip.bound_stack:
        ks = _karr(ip, st, pos[0]).s
        m = re.match(r"^\(arr_Lst_Key \(ksplit \|key:([^|]*)\|\)\)$", ks)
        if m and ip.num(pos[1]).s == "0":
            n, v = ip.num(pos[2]).s, dterm(ip, st, pos[3]).s
            from pyvc.dicts import scalar, key_as_val
            comps = m.group(1).split(".")
            facts = [nestk_def(ks, str(j), n, v) for j in range(1, len(comps))]
            # a string literal as a context value (scalar id S n) is the embedding of that very string (dicts.string_embedding)
            facts += ["(= %s %s)" % (key_as_val(ip, ip.reg.key(c)).s, scalar(ip, st, Str(c)).s) for c in comps]
            for f in facts:
                ax = T(f, "Bool")
                if not any(x.s == ax.s for x in st.pc):
                    st.pc.append(ax)
    return r


# ---------------------------------------------------------------------------- 1. assumed duplicates of proved contracts
def register_cleanup(ix):
    # to_string: P_acc.py registered a stand-in before P_ctx.py registered the verified contract
    replace(ix, ix.by_key[(CF, "to_string")])
    assert not ix.by_key[(CF, "to_string")].trusted
    register_update_recursively_str(ix)
    register_sel_callees(ix)


SE = "lena/structures/elements.py"
SB = "lena/structures/split_into_bins.py"


def register_sel_callees(ix):
    """P_sel.py took Variable._update_context (HistToGraph.run) and update_nested (IterateBins.run, MapBins.run) under
    assumed frame contracts (ghost assumed_callees); here those units are switched to the PROVED contracts of P_var.py /
    P_ctx.py"""
    VA = "lena/variables/variable.py"
    # the proved contracts say a little more (what the assumed frames said): the updated dictionaries stay dictionaries
    uc = ix.by_key[(VA, "Variable._update_context")]
    assert not uc.trusted and uc.props == ["C14"]
    if "isdict(context)" not in uc.ensures:
        uc.ensures.append("isdict(context)")
    un = ix.by_key[(CF, "update_nested")]
    assert not un.trusted
    for e in ("isdict(d)", "isdict(old(other)) implies isdict(other)"):
        if e not in un.ensures:
            un.ensures.append(e)
    hg = ix.by_key[(SE, "HistToGraph.run")]
    hg.ghost.pop("assumed_callees", None)
    from contracts.P_var import WF, wf_var
    # the make_value variable is a Variable: its class invariant (proved for Variable.__init__ / Compose.__init__ in P_var.py)
    cs = ix.classes["HistToGraph"]
    for inv in ["isdict(self._make_value.var_context)"] + wf_var("self._make_value.var_context"):
        if inv not in cs.invariant:
            cs.invariant.append(inv)
    # the context of an example bin: if it has a context.variable, that is one that variables produce (the precondition
    # of the proved contract of Variable._update_context; the region of the open C14 finding is excluded by it)
    ty, cl = hg.abstract["bin_context"]
    wfb = "implies('variable' in bin_context, %s)" % WF.format(x="bin_context['variable']")
    if wfb not in cl:
        hg.abstract["bin_context"] = (ty, cl + " and " + wfb)
    # update_nested for ANY `other` (P_ctx.py required other.key.key... to consist of dictionaries): if d has the key and the
    # chain other.key.key... runs into a value that is no dictionary, TypeError is raised and nothing is changed
    gm = ix.by_key[(CF, "update_nested.get_most_nested_subdict_with")]
    assert gm.requires == ["kchain(d, key)"] and gm.raises == {}
    gm.requires = []
    gm.raises = {"TypeError": "not kchain(d, key)"}
    gm.raises_frame = "pure"
    inv = gm.loops[0].invariant
    assert inv[1] == "kchain(d, key)"
    inv[1] = "kchain(d, key) == kchain(old(d), key)"
    assert un.requires == ["isdict(d)", "kchain(other, key)"] and un.raises == {}
    un.requires = ["isdict(d)"]
    un.raises = {"TypeError": "(key in d) and not kchain(other, key)"}
    un.raises_frame = "pure"
    for q in ("IterateBins.run", "MapBins.run"):
        c = ix.by_key[(SB, q)]
        c.ghost.pop("assumed_callees", None)


def register_update_recursively_str(ix):
    """update_recursively(d, "a.b.c") / update_recursively(d, "a.b", value): docstring -- `other` can be a dot-separated
    string; str_to_dict converts it (and the value) to a dictionary, then as for a dictionary."""
    ix.spec_names["nestkx"] = sp_nestkx
    ur = ix.by_key[(CF, "update_recursively")]
    base = [c for c in (ur.cases or []) if not c.trusted]
    assert len(base) == 1, [c.name for c in (ur.cases or [])]
    base = base[0]
    KS = "split_dots(other)"
    loops = {0: LoopSpec(invariant=list(base.loops[0].invariant))}
    ur.cases = [
        Contract(CF, "update_recursively", name="update_recursively[d, dotted string]", dict_model="Val",
                 params={"d": "Dict", "other": "Str", "value": SENT}, result=None,
                 raises={"LenaValueError": "len(%s) < 2 and other != ''" % KS,
                         "LenaTypeError": "(len(%s) >= 2 or other == '') and not isdict(d)" % KS},
                 raises_frame="pure",
                 ensures=["other == '' implies d == old(d)",
                          "other != '' implies d == upd_spec(old(d), nestkx(%s, 0, len(%s) - 1, key_value(%s[len(%s) - 1])))"
                          % (KS, KS, KS, KS)],
                 loops=loops, modifies=["d"]),
        Contract(CF, "update_recursively", name="update_recursively[d, dotted string, value]", dict_model="Val",
                 params={"d": "Dict", "other": "Str", "value": "Val"}, result=None,
                 raises={"LenaValueError": "other == ''", "LenaTypeError": "other != '' and not isdict(d)"},
                 raises_frame="pure",
                 ensures=["d == upd_spec(old(d), nestkx(%s, 0, len(%s), value))" % (KS, KS)],
                 loops={0: LoopSpec(invariant=list(base.loops[0].invariant))}, modifies=["d"]),
        # a value with a dictionary: "a value argument is allowed only when other is a string, otherwise LenaValueError"
        Contract(CF, "update_recursively", name="update_recursively[d, dictionary, value]", dict_model="Val",
                 params={"d": "Dict", "other": "Val", "value": "Val"}, result=None,
                 requires=["not isinstance(other, str)"],
                 raises={"LenaValueError": "True"}, raises_frame="pure"),
        base]


def register(ix):
    register_cleanup(ix)
