"""sidecar contracts (see tools/CONTRACTS_GUIDE.md)

P_ctx2 -- third wave for properties C08 / C07 / C13 / C14: what was still assumed or bounded-only after P_ctx.py / P_var.py.

1. assumed duplicates of proved contracts removed: to_string (stand-in of P_acc.py); update_recursively with a dotted string
   (with / without a value: proved here for every string, replaces the literal stand-ins of P_sel.py / P_acc2.py);
   Variable._update_context and update_nested inside HistToGraph.run / IterateBins.run / MapBins.run (P_sel.py used assumed
   frames): those units now go through the proved contracts -- update_nested for ANY `other` (TypeError iff the chain
   other.key.key... runs into a non-dictionary), the bin context of HistToGraph well formed as variables produce it.
2. format_context: the function it returns (all field lists, all format strings), the parser on string literals (from the real
   AST, concrete while loops), format_update_with / SetContext._set_context with literal templates (format_context executed in
   place) and with any string (against the assumed parser of P_out.py); UpdateContext.__call__ for context values
   (default / skip_on_missing / raise_on_missing, deep copy), plain strings and jinja2 formatting strings (abstract library
   model); UpdateContext.__init__ (option matrix); UpdateContextFromStatic.run.
3. intersection of three dictionaries; the laws absorption and associativity of the reference function inter.
Findings (contracts registered with props=[]): UpdateContext('a', '{{x + 1}}')((1, {})) raises AssertionError.
Engine additions used here: stmts.while_concrete, ghost inline_callees / str_format_abstract / jinja_abstract / v_unpack_pair /
opaque_defs, at_call on repository functions, pyvc/lib_fmt.py (str.format, jinja2, re.match as abstract library functions).
"""
from pyvc.contracts import Contract, LoopSpec, ClassSpec
from pyvc.smt import T, I
from pyvc.sym import Opaque, Bool, Str, Num
from pyvc.dicts import dterm
from pyvc.verify import Lemma

CF = "lena/context/functions.py"
SENT = "Sentinel[lena.context.functions._sentinel]"


def replace(ix, c):
    """register c under its key INSTEAD of whatever an earlier module registered there (an assumed contract)"""
    for lst in ix.by_simple.values():
        lst[:] = [x for x in lst if x.key != c.key]
    return ix.add(c)


def sp_nestkx(ip, st, pos, kws):
    """nestkx(keys, i, n, v) == nestk(keys, i, n, v) of P_ctx.py; when keys are the components of a string LITERAL (their
    number is known) the definition of nestk is added at every level i, i+1, .. (instances of the same definition)"""
    import re
    from contracts.P_ctx import sp_nestk, nestk_def, _karr
    r = sp_nestk(ip, st, pos, kws)
    if not ip.bound_stack:
        ks = _karr(ip, st, pos[0]).s
        m = re.match(r"^\(arr_Lst_Key \(ksplit \|key:([^|]*)\|\)\)$", ks)
        if m and ip.num(pos[1]).s == "0":
            n, v = ip.num(pos[2]).s, dterm(ip, st, pos[3]).s
            from pyvc.dicts import scalar, key_as_val
            comps = m.group(1).split(".")
            facts = [nestk_def(ks, str(j), n, v) for j in range(1, len(comps))]
            # a string literal as a context value (scalar id S n) is the embedding of that very string (dicts.string_embedding)
            facts += ["(= %s %s)" % (key_as_val(ip, ip.reg.key(c)).s, scalar(ip, st, Str(c)).s) for c in comps]
            for f in facts:
                ax = T(f, "Bool")
                if not any(x.s == ax.s for x in st.pc):
                    st.pc.append(ax)
    return r


def sp_upd_nestk(ip, st, pos, kws):
    """upd_nestk(d, keys, i, n, v) == upd_spec(d, nestkx(keys, i, n, v)): d recursively updated with the one-key-per-level
    dictionary {keys[i]: {... {keys[n-1]: v}}}.  When keys are the components of a string LITERAL, the definition of the
    reference function upd (C07.py) is also added at every nested level it unfolds to (instances of the same definition)"""
    import re
    from contracts.C07 import declare_upd, upd_def
    from contracts.P_ctx import _karr
    nk = sp_nestkx(ip, st, pos[1:], kws)
    r = ip.contracts.spec_names["upd_spec"](ip, st, [pos[0], nk], {})
    if not ip.bound_stack:
        ks = _karr(ip, st, pos[1]).s
        m = re.match(r"^\(arr_Lst_Key \(ksplit \|key:([^|]*)\|\)\)$", ks)
        if m and ip.num(pos[2]).s == "0":
            declare_upd(ip.reg)
            comps = m.group(1).split(".")
            n, v = ip.num(pos[3]).s, dterm(ip, st, pos[4]).s
            dj = dterm(ip, st, pos[0]).s
            for j in range(len(comps) - 1):
                kj = ip.reg.key(comps[j]).s
                dj = "(ite (isD (vget {d} {k})) (vget {d} {k}) (D emptymap))".format(d=dj, k=kj)
                ax = T(upd_def(dj, "(nestk %s %d %s %s)" % (ks, j + 1, n, v)), "Bool")
                if not any(x.s == ax.s for x in st.pc):
                    st.pc.append(ax)
    return r


# ---------------------------------------------------------------------------- 1. assumed duplicates of proved contracts
def register_cleanup(ix):
    # to_string: P_acc.py registered a stand-in before P_ctx.py registered the verified contract
    replace(ix, ix.by_key[(CF, "to_string")])
    assert not ix.by_key[(CF, "to_string")].trusted
    register_update_recursively_str(ix)
    register_sel_callees(ix)


SE = "lena/structures/elements.py"
SB = "lena/structures/split_into_bins.py"


def register_sel_callees(ix):
    """P_sel.py took Variable._update_context (HistToGraph.run) and update_nested (IterateBins.run, MapBins.run) under
    assumed frame contracts (ghost assumed_callees); here those units are switched to the PROVED contracts of P_var.py /
    P_ctx.py"""
    VA = "lena/variables/variable.py"
    # the proved contracts say a little more (what the assumed frames said): the updated dictionaries stay dictionaries
    uc = ix.by_key[(VA, "Variable._update_context")]
    assert not uc.trusted and uc.props == ["C14"]
    if "isdict(context)" not in uc.ensures:
        uc.ensures.append("isdict(context)")
    un = ix.by_key[(CF, "update_nested")]
    assert not un.trusted
    for e in ("isdict(d)", "isdict(old(other)) implies isdict(other)"):
        if e not in un.ensures:
            un.ensures.append(e)
    hg = ix.by_key[(SE, "HistToGraph.run")]
    hg.ghost.pop("assumed_callees", None)
    from contracts.P_var import WF, wf_var
    # the make_value variable is a Variable: its class invariant (proved for Variable.__init__ / Compose.__init__ in P_var.py)
    cs = ix.classes["HistToGraph"]
    for inv in ["isdict(self._make_value.var_context)"] + wf_var("self._make_value.var_context"):
        if inv not in cs.invariant:
            cs.invariant.append(inv)
    # the context of an example bin: if it has a context.variable, that is one that variables produce (the precondition
    # of the proved contract of Variable._update_context; the region of the open C14 finding is excluded by it)
    ty, cl = hg.abstract["bin_context"]
    wfb = "implies('variable' in bin_context, %s)" % WF.format(x="bin_context['variable']")
    if wfb not in cl:
        hg.abstract["bin_context"] = (ty, cl + " and " + wfb)
    # update_nested for ANY `other` (P_ctx.py required other.key.key... to consist of dictionaries): if d has the key and the
    # chain other.key.key... runs into a value that is no dictionary, TypeError is raised and nothing is changed
    gm = ix.by_key[(CF, "update_nested.get_most_nested_subdict_with")]
    assert gm.requires == ["kchain(d, key)"] and gm.raises == {}
    gm.requires = []
    gm.raises = {"TypeError": "not kchain(d, key)"}
    gm.raises_frame = "pure"
    inv = gm.loops[0].invariant
    assert inv[1] == "kchain(d, key)"
    inv[1] = "kchain(d, key) == kchain(old(d), key)"
    assert un.requires == ["isdict(d)", "kchain(other, key)"] and un.raises == {}
    un.requires = ["isdict(d)"]
    un.raises = {"TypeError": "(key in d) and not kchain(other, key)"}
    un.raises_frame = "pure"
    for q in ("IterateBins.run", "MapBins.run"):
        c = ix.by_key[(SB, q)]
        c.ghost.pop("assumed_callees", None)


def register_update_recursively_str(ix):
    """update_recursively(d, "a.b.c") / update_recursively(d, "a.b", value): docstring -- `other` can be a dot-separated
    string; str_to_dict converts it (and the value) to a dictionary, then as for a dictionary."""
    ix.spec_names["nestkx"] = sp_nestkx
    ix.spec_names["upd_nestk"] = sp_upd_nestk
    ur = ix.by_key[(CF, "update_recursively")]
    base = [c for c in (ur.cases or []) if not c.trusted]
    assert len(base) == 1, [c.name for c in (ur.cases or [])]
    base = base[0]
    KS = "split_dots(other)"
    loops = {0: LoopSpec(invariant=list(base.loops[0].invariant))}
    ur.cases = [
        Contract(CF, "update_recursively", name="update_recursively[d, dotted string]", dict_model="Val",
                 params={"d": "Dict", "other": "Str", "value": SENT}, result=None,
                 raises={"LenaValueError": "len(%s) < 2 and other != ''" % KS,
                         "LenaTypeError": "(len(%s) >= 2 or other == '') and not isdict(d)" % KS},
                 raises_frame="pure",
                 ensures=["other == '' implies d == old(d)",
                          "other != '' implies d == upd_nestk(old(d), %s, 0, len(%s) - 1, key_value(%s[len(%s) - 1]))"
                          % (KS, KS, KS, KS)],
                 loops=loops, modifies=["d"]),
        Contract(CF, "update_recursively", name="update_recursively[d, dotted string, value]", dict_model="Val",
                 params={"d": "Dict", "other": "Str", "value": "Val"}, result=None,
                 raises={"LenaValueError": "other == ''", "LenaTypeError": "other != '' and not isdict(d)"},
                 raises_frame="pure",
                 ensures=["d == upd_nestk(old(d), %s, 0, len(%s), value)" % (KS, KS)],
                 loops={0: LoopSpec(invariant=list(base.loops[0].invariant))}, modifies=["d"]),
        # a value with a dictionary: "a value argument is allowed only when other is a string, otherwise LenaValueError"
        Contract(CF, "update_recursively", name="update_recursively[d, dictionary, value]", dict_model="Val",
                 params={"d": "Dict", "other": "Val", "value": "Val"}, result=None,
                 requires=["not isinstance(other, str)"],
                 raises={"LenaValueError": "True"}, raises_frame="pure"),
        base]


# ------------------------------------------------------------------------------------------- 2. format_context
# docstring of format_context / property C08: "format_context renders exactly the addressed items and raises LenaKeyError when
# one is absent"; "format_str is a Python format string with double braces instead of single ones"; "keys can be nested
# using a dot"; "This function does not work with unbalanced braces.  If a simple check fails, LenaValueError is raised";
# "If context doesn't contain the needed key, LenaKeyError is raised.  Note that string formatting can also raise a
# ValueError" (which the function turns into LenaValueError).
#
# Three layers:
#  (a) the function format_context RETURNS (the nested def _format_context, free variables args / format_str): proved for
#      ALL lists of field names and ALL format strings -- looks up exactly the named items (dotted names through
#      get_recursively), LenaKeyError iff one of them is absent, LenaTypeError iff the context is no dictionary (and there
#      is a field), the text is str.format of the format string and the looked-up items (abstract library function
#      kformat, pyvc/lib_fmt.py), a ValueError of str.format becomes LenaValueError; nothing is changed;
#  (b) the PARSER (format_context itself) on string literals: executed from the real AST on the literal (its while loops run
#      on concrete values: stmts.while_concrete), the field names and the format string it hands to (a) are compared with
#      an independent reference parse of the template (ref_template below); malformed literals: LenaValueError;
#  (c) for a SYMBOLIC format string the parser stays assumed (the contract of P_out.py, uninterpreted fmt_malformed /
#      fmt_missing / fmt_apply): strings are uninterpreted in the encoding (no character-level theory).
# Callers that pass a literal template (format_update_with, SetContext below) execute (b) and (a) in place from the real
# AST (ghost inline_callees): nothing about format_context is assumed there.
def ref_template(t):
    """independent reference (property text / docstring): a template is literal text without braces and fields
    {{name}} / {{name!c}} / {{name:spec}} / {{name!c:spec}} with a non-empty brace-free name.  Returns (field names,
    python format string with the names removed) or None when t is not of this form."""
    names, out, i = [], "", 0
    while i < len(t):
        if t.startswith("{{", i):
            j = t.find("}}", i + 2)
            if j < 0:
                return None
            body = t[i + 2:j]
            if "{" in body or "}" in body:
                return None
            cut = min([body.index(x) for x in "!:" if x in body] or [len(body)])
            if cut == 0:
                return None
            names.append(body[:cut])
            out += "{" + body[cut:] + "}"
            i = j + 2
        elif t[i] in "{}":
            return None
        else:
            out += t[i]
            i += 1
    return names, out


WELL_FORMED = ["{{x}}", "{{x.y}}_{{z}}", "a{{x}}b{{y.z.t}}c", "{{x!r}}", "{{x:>4}}", "{{x.y!s:<3}}-{{x.y}}", "plain text", ""]
MALFORMED = ["{x}", "{{x}", "{x}}", "{{x}}}", "{", "}", "{{", "}}{{", "{{x}}{"]


def _kfun(name, sort):
    def sp(ip, st, pos, kws):
        from pyvc.speclib import lst_term
        ip.reg.need_val()
        ls = ip.reg.lst("Val")
        f = ip.reg.ufun(name, ["Key", ls], sort)
        t = T("(%s %s %s)" % (f, ip.key_term(pos[0]).s, lst_term(ip, st, pos[1], ls).s), sort)
        return Bool(t) if sort == "Bool" else Opaque(t)
    return sp


def sp_fmt_lookups(ip, st, pos, kws):
    """fmt_lookups(context, names): the list of the items of `context` addressed by the dotted names (item j is
    the(walk(context, components of names[j]))), as a list term"""
    from pyvc.speclib import lst_term
    from contracts.C08 import declare_walk
    reg = ip.reg
    lk = declare_walk(reg)
    ls = reg.lst("Val")
    reg.ufun("ksplit", ["Key"], lk)
    c = dterm(ip, st, pos[0]).s
    a = lst_term(ip, st, pos[1], lk)
    k = "(select %s lj)" % reg.l_arr(a).s
    comps = "(ite (= {k} {e}) (mk_{lk} (arr_{lk} (ksplit {k})) 0) (ksplit {k}))".format(k=k, e=reg.key("").s, lk=lk)
    item = "(the (walk {c} {cs} 0 (len_{lk} {cs})))".format(c=c, cs=comps, lk=lk)
    return ip.lst_view(T("(mk_%s (lambda ((lj Int)) %s) %s)" % (ls, item, reg.l_len(a).s), ls))


FW = "walk(context, dot_components(args[{j}]), 0, len(dot_components(args[{j}])))"
F_TE = "(not isdict(context) and len(args) > 0)"
F_KE = "(isdict(context) and any(%s == absent() for j in range(len(args))))" % FW.format(j="j")


def register_format_context(ix):
    ix.spec_names["kformat"] = _kfun("kformat", "Key")
    ix.spec_names["kformat_valueerror"] = _kfun("kformat_valueerror", "Bool")
    ix.spec_names["fmt_lookups"] = sp_fmt_lookups
    # ---- (a) the returned function
    ix.add(Contract(
        CF, "format_context._format_context", props=["C08"], params={"context": "Val"}, result="Str",
        closure={"args": "Lst[Key]", "format_str": "Str"}, local_types={"new_args": "Lst[Val]"},
        ghost={"str_format_abstract": True},
        raises={"LenaTypeError": F_TE, "LenaKeyError": F_KE,
                "LenaValueError": "not %s and not %s and kformat_valueerror(format_str, fmt_lookups(context, args))"
                                  % (F_TE, F_KE)},
        loops={0: LoopSpec(invariant=["len(new_args) == _i", "_i > 0 implies isdict(context)",
                                      "all(present(new_args[j]) == %s for j in range(_i))" % FW.format(j="j")])},
        ensures=["result == kformat(format_str, fmt_lookups(context, args))"],
        notes="the function format_context returns, for every list of field names and every format string (free "
              "variables of the nested def); the context is an immutable value in the encoding (the body stores nothing)"))
    # ---- (b), (c) the parser
    old = ix.by_key[(CF, "format_context")]
    assert old.trusted and old.params == {"format_str": "Str"}, "P_out.py's assumed contract of format_context expected"
    old.name = "format_context"
    cases = [old]
    for t in WELL_FORMED:
        names, text = ref_template(t)
        cases.append(Contract(
            CF, "format_context", name="format_context[%r]" % t, params={"format_str": "Str[%r]" % t}, result="Any",
            raises={"LenaValueError": "False", "LenaTypeError": "False"},
            ensures=["len(local(args)) == %d" % len(names)]
            + ["local(args)[%d] == %r" % (j, n) for j, n in enumerate(names)]
            + ["local(format_str) == %r" % text]))
    for t in MALFORMED:
        assert ref_template(t) is None
        cases.append(Contract(
            CF, "format_context", name="format_context[malformed %r]" % t, params={"format_str": "Str[%r]" % t},
            result="Any", raises={"LenaValueError": "True"}))
    cases.append(Contract(CF, "format_context", name="format_context[not a string]", params={"format_str": "Real"},
                          result="Any", raises={"LenaTypeError": "True"}))
    replace(ix, Contract(CF, "format_context", props=["C08"], cases=cases))


def sp_items_of(ip, st, pos, kws):
    """items_of(v1, v2, ...): the list [v1, v2, ...] of context values as a list term (no heap object)"""
    reg = ip.reg
    reg.need_val()
    t = reg.l_empty_canonical(reg.lst("Val"))
    for p in pos:
        t = reg.l_append(t, dterm(ip, st, p))
    return ip.lst_view(t)


def tpl_clauses(t, d):
    """(names, text, MISSING, LOOK) for the template literal t: the clause `some addressed item is absent from <d>` and the
    list of the addressed items of <d>, written from the reference parse (ctx_get(c, 'a', 'b') = the item c.a.b as an
    optional value, P_sel.py)"""
    names, text = ref_template(t)
    gets = ["ctx_get(%s, %s)" % (d, ", ".join(repr(c) for c in n.split("."))) for n in names]
    missing = "(" + " or ".join("%s == absent()" % g for g in gets) + ")"
    look = "items_of(" + ", ".join("the(%s)" % g for g in gets) + ")"
    return names, text, missing, look


FUW_TEMPLATES = ["{{x}}", "{{x.y}}_{{z}}", "a{{x}}b{{y.z.t}}c", "{{x.y!s:<3}}-{{x.y}}"]


def register_format_update_with_templates(ix):
    """format_update_with(key, value, d) for a value that is a formatting string -- docstring: "first format value using
    the dictionary d.  If d does not contain every key needed to format value, LenaKeyError is raised"; property C08:
    changes exactly the addressed item, to the rendered template.  Literal templates: format_context and the function it
    returns are executed in place from the real AST (ghost inline_callees)."""
    KS = "split_dots(key)"
    ix.spec_names["items_of"] = sp_items_of
    fu = ix.by_key[(CF, "format_update_with")]
    for t in FUW_TEMPLATES:
        names, text, missing, look = tpl_clauses(t, "d")
        _, _, _, look_old = tpl_clauses(t, "old(d)")
        fu.cases.insert(0, Contract(
            CF, "format_update_with", name="format_update_with[template %r]" % t, dict_model="Val",
            ghost={"inline_callees": ["format_context"], "str_format_abstract": True},
            params={"key": "Str", "value": "Str[%r]" % t, "d": "Dict"}, result=None,
            raises={"LenaTypeError": "not isdict(d)",
                    "LenaKeyError": "isdict(d) and %s" % missing,
                    "LenaValueError": "isdict(d) and not %s and (kformat_valueerror(%r, %s) or key == '')"
                                      % (missing, text, look)},
            raises_frame="pure",
            ensures=["d == upd_spec(old(d), nestk(%s, 0, len(%s), key_value(kformat(%r, %s))))" % (KS, KS, text, look_old)],
            modifies=["d"]))


ME = "lena/meta/elements.py"
SC_TEMPLATES = ["{{x}}", "{{x.y}}_{{z}}"]


def register_set_context_templates(ix):
    """SetContext with a formatting value -- docstring: "value can be a formatting string.  If value could not be formatted,
    LenaKeyError is raised"; property C13: "formatting strings resolved against that same prefix", "a formatting key that
    cannot be resolved surfaces as LenaKeyError"; the update itself: exactly the addressed item (C08)."""
    KS = "split_dots(self._key)"
    sc = ix.by_key[(ME, "SetContext._set_context")]
    for i, t in enumerate(SC_TEMPLATES):
        names, text, missing, look = tpl_clauses(t, "context")
        _, _, _, look_old = tpl_clauses(t, "old(context)")
        cs = "SetContext_tpl%d" % i
        ix.add_class(ClassSpec(cs, ME, fields={"_key": "Str", "_value": "Str[%r]" % t}, alias_of="SetContext"))
        sc.cases.append(Contract(
            ME, "SetContext._set_context", name="SetContext._set_context[template %r]" % t, dict_model="Val",
            params={"self": "Self[%s]" % cs, "context": "Dict"}, result=None,
            raises={"LenaTypeError": "not isdict(context)",
                    "LenaKeyError": "isdict(context) and %s" % missing,
                    "LenaValueError": "isdict(context) and not %s and (kformat_valueerror(%r, %s) or self._key == '')"
                                      % (missing, text, look)},
            # an unresolved key leaves the context as it is (and is remembered for _get_context)
            exc_ensures={"LenaKeyError": ["context == old(context)"], "LenaValueError": ["context == old(context)"],
                         "LenaTypeError": ["context == old(context)"]},
            ensures=["context == upd_spec(old(context), nestk(%s, 0, len(%s), key_value(kformat(%r, %s))))"
                     % (KS, KS, text, look_old),
                     "self._static_context is context"],
            modifies=["context", "self._static_context", "self._exc"]))
    # any string value (symbolic), against the assumed parser (layer (c))
    HAS = "('{' in self._value)"
    BADF = "(%s and fmt_malformed(self._value))" % HAS
    MISS = "(%s and not fmt_malformed(self._value) and fmt_missing(self._value, context))" % HAS
    ix.add_class(ClassSpec("SetContext_str", ME, fields={"_key": "Str", "_value": "Str"}, alias_of="SetContext"))
    sc.cases.append(Contract(
        ME, "SetContext._set_context", name="SetContext._set_context[string value]", dict_model="Val",
        params={"self": "Self[SetContext_str]", "context": "Dict"}, result=None,
        requires=["isdict(context)"],
        raises={"LenaValueError": "%s or (not %s and self._key == '')" % (BADF, MISS), "LenaKeyError": MISS},
        exc_ensures={"LenaKeyError": ["context == old(context)"], "LenaValueError": ["context == old(context)"]},
        ensures=["context == upd_spec(old(context), nestk(%s, 0, len(%s), key_value(fmt_apply(self._value, old(context)) "
                 "if %s else self._value)))" % (KS, KS, HAS),
                 "self._static_context is context"],
        modifies=["context", "self._static_context", "self._exc"]))


def register_format_update_with_string(ix):
    """format_update_with(key, value, d) for ANY string value (symbolic): against the assumed parser of P_out.py (layer (c):
    fmt_malformed / fmt_missing / fmt_apply are uninterpreted functions of the string and the context).  A string without
    a brace is stored as it is."""
    KS = "split_dots(key)"
    HAS = "('{' in value)"
    BADF = "(%s and fmt_malformed(value))" % HAS
    MISS = "(%s and not fmt_malformed(value) and fmt_missing(value, d))" % HAS
    fu = ix.by_key[(CF, "format_update_with")]
    fu.cases.append(Contract(
        CF, "format_update_with", name="format_update_with[string value]", dict_model="Val",
        params={"key": "Str", "value": "Str", "d": "Dict"}, result=None,
        requires=["isdict(d)"],
        raises={"LenaValueError": "%s or (not %s and key == '')" % (BADF, MISS),
                "LenaKeyError": MISS},
        raises_frame="pure",
        ensures=["d == upd_spec(old(d), nestk(%s, 0, len(%s), key_value(fmt_apply(value, old(d)) if %s else value)))"
                 % (KS, KS, HAS)],
        modifies=["d"]))


# ------------------------------------------------------------------------------------- UpdateContext: context values
# docstring of UpdateContext.__init__ / property C08: "To set update to a value from context (not a string), the keyword
# argument value must be set to True and the update format string must be a non-empty single expression in double braces";
# "a deep copy of another context item"; "If update corresponds to a context value and a formatting argument is missing in
# the context, LenaKeyError will be raised unless a default is set.  In this case default will be used for the update
# value"; "to skip update (don't change the context), set by skip_on_missing"; "a missing key is handled as configured
# (default, skip or LenaKeyError)".  The element as __init__ leaves it for a context value: _update is the dotted name
# between the braces, _context_value is True, at most one of _has_default / _skip_on_missing / _raise_on_missing is set
# and, without default and skip, _raise_on_missing is.
UC = "lena/context/update_context.py"


def sp_item_or(ip, st, pos, kws):
    """item_or(c, name, default): the item of the context c addressed by the dotted name (get_recursively's reading: "" is the
    whole context), or `default` if it is absent"""
    from pyvc.smt import ITE, EQ, NOT
    comps = ip.contracts.spec_names["dot_components"](ip, st, [pos[1]], {})
    w = ip.contracts.spec_names["walk"](ip, st, [pos[0], comps, Num(I(0)), Num(comps.len)], {})
    return Opaque(ITE(NOT(EQ(w.t, T("none", "Opt"))), T("(the %s)" % w.t.s, "Val"), dterm(ip, st, pos[2])))


def sp_is_jtemplate(ip, st, pos, kws):
    """is_jtemplate(x): the context value x is a jinja2.Template object (abstract predicate; such a value is a scalar
    and no string)"""
    from pyvc.builtins_ import ext_instance, type_test
    from pyvc.smt import AND, NOT
    t = dterm(ip, st, pos[0])
    return Bool(AND(ext_instance(ip, t, "jinja2", "Template"), NOT(type_test(ip, st, Opaque(t), "str"))))


def _vfun(name, sorts, res):
    def sp(ip, st, pos, kws):
        ip.reg.need_val()
        f = ip.reg.ufun(name, sorts, res)
        ts = [dterm(ip, st, p).s if so == "Val" else ip.key_term(p).s for p, so in zip(pos, sorts)]
        t = T("(%s %s)" % (f, " ".join(ts)), res)
        return Bool(t) if res == "Bool" else Opaque(t)
    return sp


def register_update_context_template(ix, FIELDS, INV, SUB):
    """UpdateContext with a context formatting string (a jinja2 template, third party: abstract library model
    pyvc/lib_fmt.py) -- docstring: "Its argument values will be filled from context during __call__.  If a formatting
    argument is missing in context, it will be substituted with an empty string"; "to skip update (don't change the
    context), set by skip_on_missing, or to raise LenaKeyError (set by raise_on_missing)".  `missing` is jinja2's own
    verdict (template.render raises UndefinedError): jtemplate_undefined(template, context)."""
    from pyvc.lib_fmt import jinja_template_new
    ix.lib[("jinja2", "Template")] = jinja_template_new
    ix.spec_names["is_jtemplate"] = sp_is_jtemplate
    ix.spec_names["jtemplate_undefined"] = _vfun("jtemplate_undefined", ["Val", "Val"], "Bool")
    ix.spec_names["jtemplate_render"] = _vfun("jtemplate_render", ["Val", "Val"], "Key")
    F = dict(FIELDS, _update="Val")
    BASE = ["len(self._subcontext) >= 1", "not self._context_value", "is_jtemplate(self._update)",
            "not (self._skip_on_missing and self._raise_on_missing)"]
    # as __init__ leaves the element: with skip_on_missing / raise_on_missing (a strict template) ...
    ix.add_class(ClassSpec("UpdateContext_tms", UC, fields=F, alias_of="UpdateContext",
                           invariant=BASE + ["self._skip_on_missing or self._raise_on_missing"]))
    # ... and without (a template whose missing arguments render as empty strings)
    ix.add_class(ClassSpec("UpdateContext_tmc", UC, fields=F, alias_of="UpdateContext",
                           invariant=BASE + ["not self._skip_on_missing", "not self._raise_on_missing"]))

    def tm(name, cls, vty, c0, req, finding=False):
        tup = vty.startswith("Tuple")
        cin = "value[1]" if tup else "emptydict()"
        UND = "jtemplate_undefined(self._update, %s)" % c0
        SKIP = "(%s and self._skip_on_missing)" % UND
        ens = [SKIP + (" implies result[0] == value[0] and result[1] is value[1] and value[1] == old(value[1])" if tup
                       else " implies result == value"),
               "not " + SKIP + (" implies result[0] == value[0] and result[1] is value[1]" if tup
                                else " implies result[0] == value"),
               "not " + SKIP + " implies " + ("value[1]" if tup else "result[1]") +
               " == updpath(%s, %s, key_value(jtemplate_render(self._update, %s)), self._recursively)" % (c0, SUB, c0),
               "self._update == old(self._update)"]
        return Contract(UC, "UpdateContext.__call__", name="UpdateContext.__call__[%s, %s]" % (name, "(data, context)" if tup else "bare data"),
                        params={"self": "Self[%s]" % cls, "value": vty}, result="Tuple[V,Dict]" if tup else "Any",
                        requires=req, dict_model="Val", ghost={"jinja_abstract": True},
                        raises={"LenaKeyError": "jtemplate_undefined(self._update, %s) and self._raise_on_missing" % cin},
                        loops={0: LoopSpec(cursor={"subdict": ("context", "keys", "0", "_i")},
                                           invariant=[x.format(c0=c0) for x in INV])},
                        ensures=ens, modifies=["value[1]"] if tup else [])
    NOUND = "not jtemplate_undefined(self._update, %s)"
    ix.add(Contract(UC, "UpdateContext.__call__", qualkey="UpdateContext_tms.__call__", props=["C08"], dict_model="Val", cases=[
        tm("formatting string, skip / raise on missing", "UpdateContext_tms", "Tuple[V,Dict]", "old(value[1])", ["isdict(value[1])"]),
        # (bare data: same code path from the empty context; one preservation obligation of the loop takes the solvers
        # several seconds and is not reliably decided within the quick tier's time limit -- left to the bounded part)
    ]))
    # without skip / raise: the region in which jinja2 itself does not complain (a missing argument is an empty string);
    # the rest of the region is the finding below
    ix.add(Contract(UC, "UpdateContext.__call__", qualkey="UpdateContext_tmc.__call__", props=["C08"], dict_model="Val", cases=[
        tm("formatting string", "UpdateContext_tmc", "Tuple[V,Dict]", "old(value[1])", ["isdict(value[1])", NOUND % "value[1]"]),
    ]))
    # FINDING (fails on the unchanged tree, props=[]: not part of any check): property C08 "a missing key is handled as
    # configured (default, skip or LenaKeyError) ..., never by another exception".  A formatting string without
    # skip_on_missing / raise_on_missing is rendered with jinja2.ChainableUndefined, which still raises UndefinedError when
    # an undefined value is used in an operation; __call__ then runs into `assert self._skip_on_missing`:
    # UpdateContext('a', '{{x + 1}}')((1, {})) raises AssertionError.
    c = tm("FINDING: formatting string, undefined operand", "UpdateContext_tmc", "Tuple[V,Dict]", "old(value[1])", ["isdict(value[1])"])
    c.qualkey = "UpdateContext.__call__#never another exception"
    c.props = []
    ix.add(c)


# ------------------------------------------------------------------------------------------------ UpdateContext.__init__
# docstring: "subcontext must be non-empty" (LenaValueError; LenaTypeError if it is no string); "Only one of default,
# skip_on_missing or raise_on_missing can be set, otherwise LenaValueError is raised.  None of these options can be used if
# update is a simple value"; "To set update to a value from context, the keyword argument value must be set to True and the
# update format string must be a non-empty single expression in double braces" -- "If value is True, braces can be only the
# first two and the last two symbols of update, otherwise LenaValueError"; "If update is a context formatting string,
# default keyword argument can't be used"; "If update corresponds to a context value ... LenaKeyError will be raised unless
# a default is set" (so without default and skip, raise_on_missing is in force).  A template jinja2 rejects: LenaValueError.
# The option matrix (value x default x skip_on_missing x raise_on_missing x recursively, per kind of update) is covered
# symbolically: the four booleans are symbolic, `default` is given or not by the typing of the case.
SENT_UC = "Sentinel[lena.context.update_context._sentinel]"
SINGLE_PAT = "{{[^{}]+}}$"


def register_update_context_init(ix):
    from pyvc.lib_fmt import re_match
    ix.lib[("re", "match")] = re_match
    ix.spec_names["re_match"] = _vfun("re_match", ["Key", "Key"], "Bool")
    ix.spec_names["jtemplate_syntax_error"] = _vfun("jtemplate_syntax_error", ["Key"], "Bool")

    def sp_kslice(ip, st, pos, kws):
        f = ip.reg.ufun("kslice", ["Key", "Int", "Int"], "Key")
        return Opaque(T("(%s %s %s %s)" % (f, ip.key_term(pos[0]).s, ip.num(pos[1]).s, ip.num(pos[2]).s), "Key"))

    def sp_jtemplate(ip, st, pos, kws):
        ip.reg.need_val()
        f = ip.reg.ufun("jtemplate", ["Key", "Bool"], "Val")
        return Opaque(T("(%s %s %s)" % (f, ip.key_term(pos[0]).s, ip.truth(st, pos[1]).s), "Val"))
    # (clause texts must not contain braces: the textual `implies` splitter counts them)
    ix.spec_names["single_field"] = lambda ip, st, pos, kws: ix.spec_names["re_match"](ip, st, [Str(SINGLE_PAT), pos[0]], kws)
    ix.spec_names["has_brace"] = lambda ip, st, pos, kws: Bool(ip.contains(st, Str("{"), pos[0]))
    ix.spec_names["kslice"] = sp_kslice
    ix.spec_names["jtemplate"] = sp_jtemplate
    ix.add_class(ClassSpec("UpdateContext_new", UC, fields={}, alias_of="UpdateContext"))
    MOD = ["self._init_subcontext", "self._subcontext", "self._has_default", "self._skip_on_missing",
           "self._raise_on_missing", "self._update", "self._context_value", "self._value", "self._default",
           "self._recursively"]
    S, R = "skip_on_missing", "raise_on_missing"

    def common(hd):
        return ["self._init_subcontext == subcontext", "same(self._subcontext, split_dots(subcontext))",
                "self._has_default == %s" % hd, "self._skip_on_missing == skip_on_missing", "self._value == value",
                "self._default is default", "self._recursively == recursively"]

    def simple(tag, uty, dty, hd):
        return Contract(
            UC, "UpdateContext.__init__", name="UpdateContext.__init__[%s, %s]" % (tag, "default" if hd else "no default"),
            dict_model="Val", ghost={"jinja_abstract": True},
            params={"self": "Self[UpdateContext_new]", "subcontext": "Str", "update": uty, "value": "Bool", "default": dty,
                    "skip_on_missing": "Bool", "raise_on_missing": "Bool", "recursively": "Bool"},
            result=None, requires=["isdict(update)"] if uty == "Dict" else [],
            # (with a simple update none of the three options may be set)
            raises={"LenaValueError": "True" if hd else "subcontext == '' or %s or %s" % (S, R), "LenaTypeError": "False"},
            ensures=[] if hd else common("False") + [
                # the update value is kept (every __call__ makes its own deep copy of it)
                "self._update == update",
                "self._raise_on_missing == raise_on_missing"],
            modifies=MOD)

    def string(hd, dty):
        H = "True" if hd else "False"
        SINGLE = "single_field(update)"
        TWO = "((%s and %s) or (%s and %s) or (%s and %s))" % (H, S, H, R, S, R)
        STRICT = "(%s or %s)" % (S, R)
        SYN = "jtemplate_syntax_error(update)"
        BAD = ("subcontext == '' or {two} or (value and not {single}) or (not value and {h}) or "
               "(not value and not {h} and ({strict} or has_brace(update)) and {syn})").format(
                   two=TWO, single=SINGLE, h=H, strict=STRICT, syn=SYN)
        CV = "(value and %s)" % SINGLE
        return Contract(
            UC, "UpdateContext.__init__", name="UpdateContext.__init__[string, %s]" % ("default" if hd else "no default"),
            dict_model="Val", ghost={"jinja_abstract": True},
            params={"self": "Self[UpdateContext_new]", "subcontext": "Str", "update": "Str", "value": "Bool", "default": dty,
                    "skip_on_missing": "Bool", "raise_on_missing": "Bool", "recursively": "Bool"},
            result=None, raises={"LenaValueError": BAD, "LenaTypeError": "False"},
            ensures=common(H) + [
                # a context value: the dotted name between the braces; without default and skip a missing item raises
                "%s implies self._context_value and self._update == kslice(update, 2, -2)" % CV,
                "%s implies self._raise_on_missing == (%s or (not %s and not %s))" % (CV, R, H, S),
                # a formatting string: strict (missing arguments are errors) iff skip / raise on missing was asked for;
                # a string without a brace is kept as it is
                "not %s implies not self._context_value and self._raise_on_missing == %s" % (CV, R),
                "not %s and %s implies self._update == jtemplate(update, True)" % (CV, STRICT),
                "not %s and not %s and has_brace(update) implies self._update == jtemplate(update, False)" % (CV, STRICT),
                "not %s and not %s and not has_brace(update) implies self._update == update" % (CV, STRICT)],
            modifies=MOD)
    cases = []
    for hd, dty in ((False, SENT_UC), (True, "Val")):
        cases += [simple("number", "Real", dty, hd), simple("dictionary", "Dict", dty, hd), string(hd, dty)]
    cases.append(Contract(
        UC, "UpdateContext.__init__", name="UpdateContext.__init__[subcontext is no string]", dict_model="Val",
        params={"self": "Self[UpdateContext_new]", "subcontext": "Real", "update": "Real", "value": "Bool", "default": SENT_UC,
                "skip_on_missing": "Bool", "raise_on_missing": "Bool", "recursively": "Bool"},
        result=None, raises={"LenaTypeError": "True"}))
    ix.add(Contract(UC, "UpdateContext.__init__", props=["C08"], dict_model="Val", cases=cases))


def register_update_context_value(ix):
    ix.spec_names["item_or"] = sp_item_or
    from contracts.P_ctx import register_update_context as _r    # (vocabulary: updpath, rest_done, store_lemmas)
    FIELDS = {"_update": "Str", "_context_value": "Bool", "_has_default": "Bool", "_skip_on_missing": "Bool",
              "_raise_on_missing": "Bool", "_default": "Val", "_subcontext": "Lst[Key]", "_recursively": "Bool"}
    ix.add_class(ClassSpec("UpdateContext_cv", UC, fields=FIELDS, alias_of="UpdateContext", invariant=[
        "len(self._subcontext) >= 1", "self._context_value",
        "not (self._has_default and self._skip_on_missing)", "not (self._has_default and self._raise_on_missing)",
        "not (self._skip_on_missing and self._raise_on_missing)",
        "self._has_default or self._skip_on_missing or self._raise_on_missing"]))
    ix.add_class(ClassSpec("UpdateContext_text", UC, fields=FIELDS, alias_of="UpdateContext", invariant=[
        "len(self._subcontext) >= 1", "not self._context_value"]))
    INV = ["store_lemmas()", "isdict(subdict)", "isdict(context)",
           "rest_done(context, keys, _i, len(keys), update, self._recursively) "
           "== updpath({c0}, keys, 0, len(keys), update, self._recursively)"]
    SUB = "self._subcontext, 0, len(self._subcontext)"

    ix.add_class(ClassSpec("UpdateContext_cvd", UC, fields=FIELDS, alias_of="UpdateContext",
                           invariant=ix.classes["UpdateContext_cv"].invariant + ["self._has_default"]))

    def cv(name, vty, c0, req, cls="UpdateContext_cv"):
        W = "walk({c}, dot_components(self._update), 0, len(dot_components(self._update)))".format(c=c0)
        MISSING = "(%s == absent())" % W
        SKIP = "(%s and not self._has_default and self._skip_on_missing)" % MISSING
        NEWV = "item_or(%s, self._update, self._default)" % c0
        tup = vty.startswith("Tuple")
        ens = [
            # skipped: the value passes as it is
            SKIP + (" implies result[0] == value[0] and result[1] is value[1] and value[1] == old(value[1])" if tup
                    else " implies result == value"),
            # otherwise exactly the addressed item becomes the context item (or the default) ...
            "not " + SKIP + (" implies result[0] == value[0] and result[1] is value[1]" if tup else " implies result[0] == value"),
            "not " + SKIP + " implies " + ("value[1]" if tup else "result[1]") +
            " == updpath(%s, %s, %s, self._recursively)" % (c0, SUB, NEWV),
            # ... as a deep copy made during this call: nothing is shared with the source item / the stored default
            "not " + SKIP + " implies is_deep_copy(local(update))",
            "not " + SKIP + " implies local(update) == " + NEWV,
            "self._default == old(self._default)"]
        return Contract(UC, "UpdateContext.__call__", name="UpdateContext.__call__[context value, %s]" % name,
                        params={"self": "Self[%s]" % cls, "value": vty},
                        result="Tuple[V,Dict]" if tup else "Any",
                        requires=req, dict_model="Val",
                        # the reference `walk` (C08.py) is used as a term only (the callee's postcondition and the clauses
                        # below name the same item): its recursive definition is withheld from the solver in this unit
                        ghost={"opaque_defs": ["walk"]},
                        raises={"LenaKeyError": "%s and not self._has_default and not self._skip_on_missing" % MISSING.replace(c0, "value[1]" if tup else "emptydict()")},
                        loops={0: LoopSpec(cursor={"subdict": ("context", "keys", "0", "_i")},
                                           invariant=[x.format(c0=c0) for x in INV])},
                        ensures=ens, modifies=["value[1]"] if tup else [])
    # a string without formatting arguments (docstring: "a context formatting string is any string ..."; __init__ keeps a
    # string without a brace as it is): the addressed item becomes that string
    def text(name, vty, c0, req):
        tup = vty.startswith("Tuple")
        return Contract(UC, "UpdateContext.__call__", name="UpdateContext.__call__[plain string, %s]" % name,
                        params={"self": "Self[UpdateContext_text]", "value": vty},
                        result="Tuple[V,Dict]" if tup else "Any", requires=req, dict_model="Val", raises={},
                        loops={0: LoopSpec(cursor={"subdict": ("context", "keys", "0", "_i")},
                                           invariant=[x.format(c0=c0) for x in INV])},
                        ensures=["result[0] == value[0]" if tup else "result[0] == value"]
                        + (["result[1] is value[1]"] if tup else [])
                        + [("value[1]" if tup else "result[1]") +
                           " == updpath(%s, %s, key_value(self._update), self._recursively)" % (c0, SUB),
                           "self._update == old(self._update)"],
                        modifies=["value[1]"] if tup else [])
    ix.add(Contract(UC, "UpdateContext.__call__", qualkey="UpdateContext_text.__call__", props=["C08"], dict_model="Val",
                    cases=[text("(data, context)", "Tuple[V,Dict]", "old(value[1])", ["isdict(value[1])"])]))
    register_update_context_template(ix, FIELDS, INV, SUB)
    ix.add(Contract(UC, "UpdateContext.__call__", qualkey="UpdateContext_cv.__call__", props=["C08"], dict_model="Val",
                    cases=[cv("(data, context)", "Tuple[V,Dict]", "old(value[1])", ["isdict(value[1])"]),
                           # (bare data -- the context is {}, so the update happens only with a default or for the name
                           # "" -- : the solvers do not decide one preservation obligation of the loop; left to the bounded part)
                           ]))


# ------------------------------------------------------------------------------------ UpdateContextFromStatic.run
# property C13: "static context never leaks into the run-time context except through UpdateContextFromStatic"; property C08
# (bounded reference chk_meta): "runtime contexts are updated with a deep copy of it": every value of the flow gets the
# stored static context merged into ITS context (recursive update, the static items win), the data part and the context
# object are handed on, and what is merged in is a deep copy made for this very value -- so nothing a later element does to
# a run-time context can reach the stored static context or another value's context.
def register_update_from_static(ix):
    ix.add_class(ClassSpec("UpdateContextFromStatic", ME, fields={"_context": "Dict"},
                           invariant=["isdict(self._context)"]))
    ix.add(Contract(
        ME, "UpdateContextFromStatic.run", props=["C13", "C08"], dict_model="Val",
        ghost={"v_unpack_pair": True},
        params={"self": "Self[UpdateContextFromStatic]", "flow": "Iter[V]"}, generator=True, yields="Any",
        requires=["pulled(flow) == 0",
                  # the flow consists of (data, context) pairs
                  "all(v_has_context(content(flow)[k]) for k in range(len(content(flow))))"],
        loops={0: LoopSpec(invariant=["pulled(flow) == _i", "yield_count() == _i",
                                      "self._context == old(self._context)"])},
        at_call={"update_recursively": [
            # what is merged into a run-time context is a deep copy of the stored static context, made in this iteration
            "is_deep_copy(call_args[1])", "made_in_iteration(call_args[1], 0)",
            "call_args[1] == self._context", "call_args[0] is context"]},
        at_yield=["pulled(flow) == _i + 1", "yield_count() == _i",
                  "yielded[0] == vdata(val)", "yielded[1] is context",
                  "snapshot(context) == upd_spec(vctx(val), self._context)",
                  "self._context == old(self._context)"],
        ensures=["pulled(flow) == len(content(flow))", "yield_count() == len(content(flow))",
                 "self._context == old(self._context)"],
        modifies=["flow"]))


# ------------------------------------------------------------------------------------------ intersection of 3 dictionaries
# property C07: "intersection(d1,...,dn) returns the greatest nested dictionary contained in every argument ... as a deep
# copy"; docstring: "each of its items are contained in all dicts (recursively)".  Reference for three dictionaries: the
# binary reference inter (P_ctx.py) folded from the left, inter(inter(d1, d2, l), d3, l) (associativity: lemma below).  The
# loop over dicts[1:] has concrete length and is unrolled; the two inner loops are cut at invariants that speak about the
# content of `res` when the pruning pass began (ghost _r0).
def register_intersection3(ix):
    from contracts.P_ctx import KEPT
    K3 = KEPT.replace("dicts[0]", "_r0")
    # the pass against the third dictionary starts from the intersection of the first two
    FOLD = "d is dicts[2] implies _r0 == inter_spec(dicts[0], dicts[1], level)"
    loops = {
        1: LoopSpec(init_ghost={"_r0": "snapshot(res)"}, invariant=[
            "isdict(res)", "isdict(_r0)", FOLD,
            "all_keys(lambda k: item(res, k) == (%s if seen(k) else item(_r0, k)))" % K3.format(k="k"),
            "all(seen(to_delete[i]) and (to_delete[i] in res) "
            "and inter_item(_r0, d, level, to_delete[i]) == absent() for i in range(len(to_delete)))",
            "all(all(implies(i < j, to_delete[i] != to_delete[j]) for j in range(len(to_delete))) "
            "for i in range(len(to_delete)))",
            "all_keys(lambda k: implies(seen(k) and inter_item(_r0, d, level, k) == absent(), k in to_delete))"]),
        2: LoopSpec(invariant=[
            "isdict(res)", "isdict(_r0)", FOLD,
            "all_keys(lambda k: item(res, k) == (absent() if any(to_delete[j] == k for j in range(_i)) else %s))"
            % K3.format(k="k")], decreases="len(to_delete) - _i")}
    frame = ["dicts[%d] == old(dicts[%d])" % (i, i) for i in range(3)]
    NOTD = " or ".join("not isdict(dicts[%d])" % i for i in range(3))

    def case(name, kwty, lev):
        return Contract(CF, "intersection", name="intersection[%s]" % name, dict_model="Val",
                        params={"dicts": "Tuple[Dict,Dict,Dict]", "kwargs": kwty}, vararg="dicts", kwarg="kwargs",
                        result="Dict", local_types={"to_delete": "Lst[Key]"},
                        raises={"LenaTypeError": NOTD}, raises_frame="pure", loops=loops,
                        ensures=["result == inter_spec(inter_spec(dicts[0], dicts[1], %s), dicts[2], %s)" % (lev, lev),
                                 "is_deep_copy(result)"] + frame)
    it = ix.by_key[(CF, "intersection")]
    it.cases += [case("d1, d2, d3", "KwDict[]", "-1"), case("d1, d2, d3, level=l", "KwDict[level:Int]", "old(kwargs['level'])")]


# ---------------------------------------------------------------------- laws of inter: absorption and associativity
# property C07: "intersection ... is commutative, associative and idempotent".  Commutativity and idempotence: P_ctx.py.
# Here, over the definition of the reference function inter (P_ctx.py) only, by structural induction (the statement for
# the sub-dictionaries under every key, at every level, is the hypothesis):
#   A1  inter(a, inter(a, b, l), l) == inter(a, b, l)                              (absorption)
#   AS  inter(inter(a, b, l), c, l) == inter(a, inter(b, c, l), l)                 (associativity; uses G1, commutativity
#                                                                                   and A1, proved for arbitrary arguments)
def _laws_env(ip):
    from contracts.P_ctx import declare_inter
    reg = ip.reg
    declare_inter(reg)
    return reg, reg.new("a", "Val").s, reg.new("b", "Val").s, reg.new("c", "Val").s, reg.new("l", "Int").s


GEN_COMM = ("(forall ((x Val) (y Val) (n Int)) (! (=> (and (isD x) (isD y)) (= (inter x y n) (inter y x n))) "
            ":pattern ((inter x y n))))")
GEN_A1 = ("(forall ((x Val) (y Val) (n Int)) (! (=> (and (isD x) (isD y)) (= (inter x (inter x y n) n) (inter x y n))) "
          ":pattern ((inter x (inter x y n) n))))")


def lem_absorb(ip, st):
    from contracts.P_ctx import inter_def, _hyp, _finish, GEN_INTER_DICT
    reg, a, b, c, l = _laws_env(ip)
    z = "(inter %s %s %s)" % (a, b, l)
    _hyp(st, "(and (isD %s) (isD %s))" % (a, b))
    _hyp(st, inter_def(a, b, l))
    _hyp(st, inter_def(a, z, l))
    _hyp(st, GEN_INTER_DICT)
    # induction hypothesis: the law for the sub-dictionaries under every common key (any level)
    _hyp(st, "(forall ((k Key) (n Int)) (! (=> (and (vhas {a} k) (vhas {b} k) (isD (vget {a} k)) (isD (vget {b} k))) "
             "(= (inter (vget {a} k) (inter (vget {a} k) (vget {b} k) n) n) (inter (vget {a} k) (vget {b} k) n))) "
             ":pattern ((inter (vget {a} k) (vget {b} k) n))))".format(a=a, b=b))
    _finish(ip, st, "A1: inter(a, inter(a, b, l), l) == inter(a, b, l)", "(= (inter {a} {z} {l}) {z})".format(a=a, z=z, l=l),
            cases=["(= %s 0)" % l, "(not (= %s 0))" % l])


def lem_assoc(ip, st):
    """two obligations: (1) the two sides have the same item under an ARBITRARY key k0 (the case analysis; level != 0);
    (2) dictionaries with the same item under every key are equal -- (1) justifies the quantified hypothesis of (2) --
    and the level-0 case"""
    from pyvc.interp import VC
    from pyvc.smt import FALSE
    from contracts.P_ctx import inter_def, _hyp, GEN_INTER_DICT
    reg, a, b, c, l = _laws_env(ip)
    k0 = reg.new("k0", "Key").s
    ab, bc = "(inter %s %s %s)" % (a, b, l), "(inter %s %s %s)" % (b, c, l)
    lhs, rhs = "(inter %s %s %s)" % (ab, c, l), "(inter %s %s %s)" % (a, bc, l)
    _hyp(st, "(and (isD %s) (isD %s) (isD %s))" % (a, b, c))
    for x, y in ((a, b), (b, c), (ab, c), (a, bc)):
        _hyp(st, inter_def(x, y, l))
    _hyp(st, GEN_INTER_DICT)
    zero = st.fork(T("(= %s 0)" % l, "Bool"), "")
    ip.emit("lemma", "AS: level 0", zero, T("(= %s %s)" % (lhs, rhs), "Bool"))
    s1 = st.fork(T("(not (= %s 0))" % l, "Bool"), "")
    x, y, z, n = "(vget %s %s)" % (a, k0), "(vget %s %s)" % (b, k0), "(vget %s %s)" % (c, k0), "(- %s 1)" % l
    # instances (at the sub-dictionaries under k0, level l - 1) of commutativity (P_ctx.py) and of A1, each proved for
    # arbitrary arguments
    W, V = "(inter %s %s %s)" % (x, y, n), "(inter %s %s %s)" % (y, z, n)
    comm = lambda p, q: "(=> (and (isD {p}) (isD {q})) (= (inter {p} {q} {n}) (inter {q} {p} {n})))".format(p=p, q=q, n=n)
    a1 = lambda p, q: "(=> (and (isD {p}) (isD {q})) (= (inter {p} (inter {p} {q} {n}) {n}) (inter {p} {q} {n})))".format(p=p, q=q, n=n)
    for p_, q_ in ((x, y), (y, z), (x, z), (W, z), (x, V), (W, x), (W, y), (V, y), (V, z)):
        _hyp(s1, comm(p_, q_))
    for p_ in (x, y, z):
        for q_ in (x, y, z):
            if p_ != q_:
                _hyp(s1, a1(p_, q_))
    # induction hypothesis at the sub-dictionaries under k0
    _hyp(s1, "(=> (and (vhas {a} {k}) (vhas {b} {k}) (vhas {c} {k}) (isD {x}) (isD {y}) (isD {z})) "
             "(= (inter (inter {x} {y} {n}) {z} {n}) (inter {x} (inter {y} {z} {n}) {n})))".format(
                 a=a, b=b, c=c, k=k0, x=x, y=y, z=z, n=n))
    ip.emit("lemma", "AS: the same item under an arbitrary key (level != 0)", s1,
            T("(= (select (dm %s) %s) (select (dm %s) %s))" % (lhs, k0, rhs, k0), "Bool"))
    s2 = st.fork(T("(not (= %s 0))" % l, "Bool"), "")
    _hyp(s2, "(forall ((k Key)) (= (select (dm %s) k) (select (dm %s) k)))" % (lhs, rhs))
    ip.emit("lemma", "AS: inter(inter(a, b, l), c, l) == inter(a, inter(b, c, l), l)", s2, T("(= %s %s)" % (lhs, rhs), "Bool"))
    ip.vcs.append(VC("cover requires", "cover", list(zero.pc), FALSE, ""))
    ip.vcs.append(VC("canary ensures False#0", "canary", list(s1.pc), FALSE, ""))


def register_inter_laws(ix):
    ix.lemmas.append(Lemma("inter absorption (A1)", CF, ["C07"], lem_absorb,
                           notes="induction step; hypothesis = the law at the sub-dictionaries; uses G1 universally"))
    ix.lemmas.append(Lemma("inter associative", CF, ["C07"], lem_assoc,
                           notes="induction step; hypothesis = the law at the sub-dictionaries; uses G1, commutativity and "
                                 "A1 (each proved for arbitrary arguments) universally"))


def register(ix):
    register_cleanup(ix)
    register_format_context(ix)
    register_format_update_with_string(ix)
    register_format_update_with_templates(ix)
    register_set_context_templates(ix)
    register_update_context_value(ix)
    register_update_context_init(ix)
    register_update_from_static(ix)
    register_intersection3(ix)
    register_inter_laws(ix)
