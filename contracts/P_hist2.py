"""sidecar contracts (see tools/CONTRACTS_GUIDE.md)

P_hist2 -- graph structure, histogram -> graph / CSV conversions, 2-dimensional histograms, scale_to (property C12).
Sidecar contracts of lena/structures/graph.py, lena/structures/hist_functions.py, lena/output/to_csv.py,
lena/flow/group_scale.py, lena/structures/elements.py."""
from pyvc.contracts import Contract, LoopSpec, ClassSpec
from pyvc.smt import T
from pyvc.sym import Num
from contracts.P_hist import H1_INV, H1_FIELDS, mono, incr, CLOSE

GR = "lena/structures/graph.py"
HF = "lena/structures/hist_functions.py"
HI = "lena/structures/histogram.py"
TC = "lena/output/to_csv.py"
GS = "lena/flow/group_scale.py"
SE = "lena/structures/elements.py"


def register(ix):
    from pyvc import lib_graph
    lib_graph.register(ix)          # functools.partial, map over lists of symbolic length, str.format
    register_graph_scale(ix)
    register_graph_init(ix)
    register_hist_to_graph(ix)
    register_hist_to_csv(ix)
    register_hist2d_to_csv(ix)
    register_scale_to(ix)
    register_iterable_to_table(ix)
    register_hist2d(ix)


# ---------------------------------------------------------------------------------------------- graph objects
def graph_fields(d, e, scale_ty, alias=None):
    n = d + e
    cols = ["Lst[Real]"] * n
    for k, j in (alias or {}).items():
        cols[k] = "Same[%d]" % j
    return {"coords": "PyList[%d,%s]" % (n, ",".join(cols)) if n > 1 else "PyList[1,Lst[Real]]",
            "field_names": "Tuple[%s]" % ",".join(["Str"] * n),
            "_parsed_error_names": "PyList[%d,Tuple[Str['error'],Str,Str,Int]]" % e,
            "_coord_names": "Tuple[%s]" % ",".join(["Str"] * d),
            "dim": "Int[%d]" % d, "_scale": scale_ty}


def graph_inv(d, e):
    """what graph.__init__ establishes (see its contract): dim coordinates first, then the error fields; the k-th parsed
    error is the field number dim + k and names one of the coordinates"""
    inv = []
    for k in range(e):
        inv.append("self._parsed_error_names[%d][3] == %d" % (k, d + k))
        inv.append("(" + " or ".join("self._parsed_error_names[%d][1] == self.field_names[%d]" % (k, c) for c in range(d)) + ")")
    for a in range(d):
        for b in range(a + 1, d):
            inv.append("self.field_names[%d] != self.field_names[%d]" % (a, b))
    return inv


def gname(d, e, scaled, alias=None):
    return "graph_%dc%de_%s%s" % (d, e, "scaled" if scaled else "unscaled",
                                  "".join("_a%d%d" % (k, j) for k, j in sorted((alias or {}).items())))


GRAPH_SHAPES = [(d, e) for d in (1, 2, 3) for e in (0, 1, 2, 3)]
# graphs whose columns are the SAME list object (column k is column j): the identity function graph([xs, xs]), symmetric
# errors graph([xs, ys, errs, errs], "x,y,error_y_low,error_y_high"), an error column that is a coordinate column
ALIASED = [(2, 0, {1: 0}), (2, 2, {3: 2}), (2, 1, {2: 0}), (3, 1, {2: 0}), (2, 1, {2: 1})]


def register_graph_scale(ix):
    """graph.scale docstring: `If other is None, return the scale of this graph.  If a numeric other is provided, rescale
    to that value.  If the graph has unknown or zero scale, rescaling that will raise LenaValueError. ... Only the last
    coordinate is rescaled. ... All errors are rescaled together with their coordinate.`
    C12: `multiplies exactly ... the last coordinate and its error columns by s/old scale, leaves ... the other
    coordinates untouched ... raises LenaValueError for a zero or unknown scale`.
    Which error column belongs to which coordinate is what graph.__init__ parsed (`_parsed_error_names[k][1]`, see its
    contract below): column dim + k is rescaled iff that name is the name of the last coordinate."""
    ix.add(Contract(GR, "graph._get_err_indices", props=[], params={"self": "Any", "coord_name": "Any"}, inline=True))
    cases = []
    for d, e, alias in [(d, e, None) for d, e in GRAPH_SHAPES] + ALIASED:
        for scaled in (True, False):
            ix.add_class(ClassSpec(gname(d, e, scaled, alias), GR, alias_of="graph",
                                   fields=graph_fields(d, e, "Real" if scaled else "None", alias), invariant=graph_inv(d, e)))
        n = d + e
        last = "self.field_names[%d]" % (d - 1)
        tag = "%d coordinates, %d error fields%s" % (d, e, "".join(", column %d is column %d" % (k, j)
                                                                   for k, j in sorted((alias or {}).items())))

        def resc(k):
            if k == d - 1:
                return "True"
            if k < d:
                return "False"
            return "(self._parsed_error_names[%d][1] == %s)" % (k - d, last)
        ens = ["self._scale == other"]
        same = []
        for k in range(n):
            col, oldc = "self.coords[%d]" % k, "old(self.coords[%d])" % k
            ens.append("len(%s) == len(%s)" % (col, oldc))
            ens.append("all(%s[i] == (%s[i] * (other / old(self._scale)) if %s else %s[i]) for i in range(len(%s)))"
                       % (col, oldc, resc(k), oldc, col))
            # (ground instance of the clause above: the first point)
            ens.append("len(%s) > 0 implies %s[0] == (%s[0] * (other / old(self._scale)) if %s else %s[0])"
                       % (oldc, col, oldc, resc(k), oldc))
            same.append("len(%s) == len(%s)" % (col, oldc))
            same.append("all(%s[i] == %s[i] for i in range(len(%s)))" % (col, oldc, col))
        # the list OBJECTS of the coordinates before the last one are not written to either (frame); the rescaled
        # columns may be new lists or the old ones changed in place (the property speaks about their content)
        mod = ["self.coords", "self._scale"] + ["self.coords[%d]" % k for k in range(d - 1, n)
                                                if not (alias and any(alias.get(k2, k2) == alias.get(k, k) and k2 < d - 1
                                                                      for k2 in range(n)))]
        cases.append(Contract(
            GR, "graph.scale", name="graph.scale[set, %s]" % tag,
            params={"self": "Self[%s]" % gname(d, e, True, alias), "other": "Real"}, result=None,
            raises={"LenaValueError": "self._scale == 0"},
            exc_ensures={"LenaValueError": same + ["self._scale == old(self._scale)"]}, raises_frame="pure",
            ensures=ens, modifies=mod))
        if alias:
            continue
        cases.append(Contract(
            GR, "graph.scale", name="graph.scale[set, unknown scale, %s]" % tag,
            params={"self": "Self[%s]" % gname(d, e, False), "other": "Real"}, result=None,
            raises={"LenaValueError": "True"}, exc_ensures={"LenaValueError": same + ["self._scale is None"]},
            raises_frame="pure", modifies=[]))
        cases.append(Contract(
            GR, "graph.scale", name="graph.scale[get, %s]" % tag,
            params={"self": "Self[%s]" % gname(d, e, True), "other": "None"}, defaults={"other": None}, result="Real",
            ensures=["result == self._scale"] + same, modifies=[]))
        cases.append(Contract(
            GR, "graph.scale", name="graph.scale[get, unknown scale, %s]" % tag,
            params={"self": "Self[%s]" % gname(d, e, False), "other": "None"}, defaults={"other": None}, result="None",
            ensures=same, modifies=[]))
    ix.add(Contract(GR, "graph.scale", props=["C12"], cases=cases))


# ---------------------------------------------------------------------------------------------- hist1d_to_csv, hist2d_to_csv
H1_REQ = ["len(hist.edges) >= 2", "len(hist.bins) == len(hist.edges) - 1"]
LINE1 = "'{{:f}}{{}}{{:f}}'.format({x}, separator, {c})"
LINE2 = "'{{:f}}{{}}{{:f}}{{}}{{:f}}'.format({x}, separator, {y}, separator, {c})"


def register_hist_to_csv(ix):
    """hist1d_to_csv docstring: `Yield CSV-formatted strings for a one-dimensional histogram.`  ToCSV docstring: `If
    duplicate_last_bin is True, then for histograms contents of the last bin will be written in the end twice. ... if last
    bin is from 9 to 10, then the plot may end on 9, while this parameter allows to write bin content at 10`.
    C12: `ToCSV writes one row per cell (plus the rows duplicating the last edge when requested)`; every row is
    `<lower edge(s)><separator><content>` of ITS cell, in the order of iter_bins.
    The text of a number is an uninterpreted function of the format spec and the number (pyvc/lib_graph.py)."""
    from pyvc.contracts import ClassSpec
    ix.add_class(ClassSpec("histogram_csv1", HI, alias_of="histogram",
                           fields={"edges": "Lst[Real]", "bins": "Lst[Real]", "dim": "Int[1]"}))
    n = "len(hist.bins)"

    def h1(name, header_ty, h, first):
        row = lambda k: LINE1.format(x="hist.edges[%s]" % k, c="hist.bins[%s]" % k)
        dup = LINE1.format(x="hist.edges[%s]" % n, c="hist.bins[%s - 1]" % n)
        rows = ["all(out[%s + k] == %s for k in range(%s))" % (h, row("k"), n)]
        return Contract(
            TC, "hist1d_to_csv", name="hist1d_to_csv[%s]" % name, ghost={"str_format": True},
            params={"hist": "Inst[histogram_csv1]", "header": header_ty, "separator": "Str", "duplicate_last_bin": "Bool"},
            defaults={"header": None, "separator": ",", "duplicate_last_bin": True},
            generator=True, yields="Key", requires=H1_REQ,
            loops={0: LoopSpec(invariant=["len(out) == %s + _i" % h, "_i <= %s" % n] + first +
                               ["all(out[%s + k] == %s for k in range(_i))" % (h, row("k"))],
                               # (`bin_content = None` before the loop; the body assigns it before it is read)
                               ghost={"bin_content": "Real"})},
            ensures=["len(out) == %s + %s + (1 if duplicate_last_bin else 0)" % (h, n)] + first + rows +
                    ["duplicate_last_bin implies out[%s + %s] == %s" % (h, n, dup),
                     # (ground instances: the first and the last cell)
                     "out[%s] == %s" % (h, row("0")), "out[%s + %s - 1] == %s" % (h, n, row("%s - 1" % n))],
            modifies=[])
    H = "(1 if header != '' else 0)"
    replace_keeping_assumed(ix, Contract(
        TC, "hist1d_to_csv", props=["C12"],
        cases=[h1("no header", "None", "0", []),
               h1("header", "Str", H, ["header != '' implies out[0] == header"])]))


def replace_keeping_assumed(ix, c):
    """register c under its key; the ASSUMED contract an earlier module registered there (P_sel: the lines are a function of
    an abstract flow value and the settings) stays as the last case, for call sites whose data is an abstract flow value
    (ToCSV.run: the histogram is a `V`, its fields cannot be read)"""
    old = ix.by_key.get(c.key)
    if old is not None:
        for lst in ix.by_simple.values():
            lst[:] = [x for x in lst if x is not old]
        for oc in (old.cases or [old]):
            if oc.trusted:
                if not oc.name or oc.name == old.qual:
                    oc.name = "%s[abstract flow value, assumed]" % old.qual
                c.cases.append(oc)
    return ix.add(c)


# ---- hist2d_to_csv: the lines as a reference list (row-major, built by appends)
def sp_csv2_ref(ip, st, pos, kws):
    """csv2_ref(e0, e1, bins, separator, dup, header, i, j): the lines hist2d_to_csv has delivered after i complete x blocks
    and j cells of block i.  With nx = len(e0) - 1, ny = len(e1) - 1, row(i) = i if i < nx else nx - 1 (the block of the
    upper x edge repeats the LAST x row), line(x, y, c) = '{:f}{}{:f}{}{:f}'.format(x, sep, y, sep, c):
        csv2_ref(i, j) = csv2_ref(i, j - 1) + [line(e0[i], e1[j - 1], bins[row(i)][j - 1])]                  if j > 0
        csv2_ref(i, 0) = csv2_ref(i - 1, ny) + ([line(e0[i - 1], e1[ny], bins[row(i - 1)][ny - 1])] if dup else [])  if i > 0
        csv2_ref(0, 0) = [header] if header else []
    The whole output is csv2_ref(nx + (1 if dup else 0), 0): one line per cell in the order of iter_bins, each x block
    followed by the line at the upper y edge, and the block of the upper x edge, iff dup."""
    from pyvc.speclib import lst_term
    from pyvc.sym import NoneV, Str, Opaque
    reg = ip.reg
    reg.need_val()
    lr = reg.lst("Real")
    llr = reg.lst(lr)
    lk = reg.lst("Key")
    kcat = reg.ufun("kcat", ["Key", "Key"], "Key")
    nf = reg.ufun("num_format_Real", ["Key", "Real"], "Key")
    fkey = reg.key("f").s
    F = lambda x: "(%s %s %s)" % (nf, fkey, x)
    line = lambda x, y, c: "(%s (%s (%s (%s %s sep) %s) sep) %s)" % (kcat, kcat, kcat, kcat, F(x), F(y), F(c))
    app = lambda l, v: "(let ((l_ %s)) (mk_%s (store (arr_%s l_) (len_%s l_) %s) (+ (len_%s l_) 1)))" % (l, lk, lk, lk, v, lk)
    sel = lambda a, i: "(select (arr_%s %s) %s)" % (lr, a, i)
    cell = lambda r, c: "(select (arr_%s (select (arr_%s b) %s)) %s)" % (lr, llr, r, c)
    NX, NY = "(- (len_%s e0) 1)" % lr, "(- (len_%s e1) 1)" % lr
    row = lambda i: "(ite (< %s %s) %s (- %s 1))" % (i, NX, i, NX)
    rec = lambda i, j: "(csv2_ref e0 e1 b sep dup base %s %s)" % (i, j)
    body = "(ite (> j 0) %s (ite (> i 0) (ite dup %s %s) base))" % (
        app(rec("i", "(- j 1)"), line(sel("e0", "i"), sel("e1", "(- j 1)"), cell(row("i"), "(- j 1)"))),
        app(rec("(- i 1)", NY), line(sel("e0", "(- i 1)"), sel("e1", NY), cell(row("(- i 1)"), "(- %s 1)" % NY))),
        rec("(- i 1)", NY))
    reg.fun_decl("csv2_ref", "(define-fun-rec csv2_ref ((e0 %s) (e1 %s) (b %s) (sep Key) (dup Bool) (base %s) (i Int) (j Int)) %s %s)"
                 % (lr, lr, llr, lk, lk, body))
    e0, e1 = lst_term(ip, st, pos[0], lr), lst_term(ip, st, pos[1], lr)
    b = lst_term(ip, st, pos[2], llr)
    sep = ip.key_term(pos[3])
    dup = ip.truth(st, pos[4])
    empty = reg.l_empty_canonical(lk)
    hdr = pos[5]
    if isinstance(hdr, NoneV):
        base = empty.s
    else:
        h = ip.key_term(hdr)
        base = "(ite (= %s %s) %s %s)" % (h.s, reg.key("").s, empty.s, reg.l_append(empty, h).s)
    return ip.lst_view(T("(csv2_ref %s %s %s %s %s %s %s %s)" % (e0.s, e1.s, b.s, sep.s, dup.s, base, ip.num(pos[6]).s,
                                                               ip.num(pos[7]).s), lk))


def register_hist2d_to_csv(ix):
    """hist2d_to_csv docstring: `Yield CSV-formatted strings for a two-dimensional histogram.`  C12: one row per cell (plus
    the rows duplicating the last edge when requested); rectangular histograms: the rows at the upper x edge repeat the
    LAST x row (see csv2_ref)."""
    ix.spec_names["csv2_ref"] = sp_csv2_ref
    ix.add_class(ClassSpec("histogram_csv2", HI, alias_of="histogram",
                           fields={"edges": "PyList[2,Lst[Real]]", "bins": "Lst[Lst[Real]]", "dim": "Int[2]",
                                   "nbins": "PyList[2,Int]"}))
    NX, NY = "(len(hist.edges[0]) - 1)", "(len(hist.edges[1]) - 1)"
    req = ["len(hist.edges[0]) >= 2", "len(hist.edges[1]) >= 2", "len(hist.bins) == %s" % NX,
           "all(len(hist.bins[i]) == %s for i in range(len(hist.bins)))" % NY,
           "hist.nbins[0] == %s" % NX, "hist.nbins[1] == %s" % NY]
    R0 = lambda i, j: "csv2_ref(hist.edges[0], hist.edges[1], hist.bins, separator, duplicate_last_bin, header, %s, %s)" % (i, j)

    def h2(name, header_ty, rows_only=False):
        H = "0" if header_ty == "None" else "(1 if header != '' else 0)"
        D = "(1 if duplicate_last_bin else 0)"
        W = "(%s + %s)" % (NY, D)
        if rows_only:
            # the NUMBER of rows, as a unit of its own (plain arithmetic: no reference list among the hypotheses)
            cnt0 = ["len(out) == %s + _i0 * %s" % (H, W)]
            cnt1 = ["len(out) == %s + _i0 * %s + _i1" % (H, W)]
            cnt2 = ["len(out) == %s + %s * %s + _i2" % (H, NX, W)]
            # one row per cell, plus one row per x block and the block of the upper x edge when requested
            ens = ["len(out) == %s + (%s + %s) * %s" % (H, NX, D, W)]
            R = lambda i, j: "out"
        else:
            cnt0 = cnt1 = cnt2 = []
            ens = ["out == " + R0("%s + (1 if duplicate_last_bin else 0)" % NX, "0")]
            R = R0
        return Contract(
            TC, "hist2d_to_csv", name="hist2d_to_csv[%s%s]" % (name, ", number of rows" if rows_only else ""),
            ghost={"str_format": True},
            params={"hist": "Inst[histogram_csv2]", "header": header_ty, "separator": "Str", "duplicate_last_bin": "Bool"},
            defaults={"header": None, "separator": ",", "duplicate_last_bin": True},
            generator=True, yields="Key", requires=req,
            loops={0: LoopSpec(invariant=["_i0 <= %s" % NX, "out == " + R("_i0", "0"), "_i0 > 0 implies x_ind == _i0 - 1"] + cnt0,
                               ghost={"x_ind": "Int", "bin_content": "Real"}),
                   1: LoopSpec(invariant=["_i1 <= %s" % NY, "out == " + R("_i0", "_i1"),
                                          "_i1 > 0 implies bin_content == hist.bins[_i0][_i1 - 1]"] + cnt1,
                               ghost={"bin_content": "Real"}),
                   2: LoopSpec(invariant=["_i2 <= %s" % NY, "out == " + R(NX, "_i2"),
                                          "_i2 > 0 implies bin_content == hist.bins[%s - 1][_i2 - 1]" % NX] + cnt2,
                               ghost={"bin_content": "Real"})},
            ensures=ens,
            modifies=[])
    replace_keeping_assumed(ix, Contract(TC, "hist2d_to_csv", props=["C12"],
                                         cases=[h2("no header", "None"), h2("header", "Str")]))
    ix.add(Contract(TC, "hist2d_to_csv", props=["C12"], qualkey="hist2d_to_csv#rows",
                    cases=[h2("no header", "None", True), h2("header", "Str", True)]))


# ---------------------------------------------------------------------------------------------- graph.__init__
def is_err(f):
    return "%s.startswith('error_')" % f


def belongs(e, c):
    """docstring: `Name of a coordinate error is "error_" appended by coordinate name.  Further error details are appended
    after '_'`: the error field e belongs to the coordinate named c"""
    return "({e}[6:] == {c} or {e}[6:].startswith({c} + '_'))".format(e=e, c=c)


def register_graph_init(ix):
    """graph.__init__ docstring: `field_names must have as many elements as coords and each field name must be unique. ...
    Error fields must go after all other coordinates.  Name of a coordinate error is "error_" appended by coordinate name.
    Further error details are appended after '_'. ... dim is the dimension of the graph, that is of all its coordinates
    without errors.  In case of incorrect initialization arguments, LenaTypeError or LenaValueError is raised.`
    (+ the comment `require coords to be of the same size`).  Strings are symbolic: startswith / slicing / concatenation
    are uninterpreted functions of their arguments, so the clauses hold for EVERY naming of the given shape."""
    ix.add_class(ClassSpec("graph0", GR, fields={}, alias_of="graph"))          # under construction
    ix.add(Contract(GR, "graph._parse_error_names", props=[], params={"self": "Any", "field_names": "Any"}, inline=True))
    ALL = ["self.coords", "self._scale", "self.field_names", "self._parsed_error_names", "self._coord_names", "self.dim"]
    cases = []
    for d, e in GRAPH_SHAPES:
        n = d + e
        fn = lambda k: "field_names[%d]" % k
        shape = ["not " + is_err(fn(k)) for k in range(d)] + [is_err(fn(k)) for k in range(d, n)]
        unequal = " or ".join("len(coords[%d]) != len(coords[0])" % k for k in range(1, n)) or "False"
        dupl = " or ".join("%s == %s" % (fn(a), fn(b)) for a in range(n) for b in range(a + 1, n)) or "False"
        # number of coordinates an error field belongs to: must be exactly one
        count = lambda k: " + ".join("(1 if %s else 0)" % belongs(fn(d + k), fn(c)) for c in range(d))
        badname = " or ".join("(%s) != 1" % count(k) for k in range(e)) or "False"
        for scaled in (False, True):
            ens = ["self.coords is coords", "self.field_names == field_names", "self.dim == %d" % d,
                   "self._scale == scale" if scaled else "self._scale is None"]
            ens += ["self._coord_names[%d] == %s" % (c, fn(c)) for c in range(d)] + ["len(self._coord_names) == %d" % d]
            ens.append("len(self._parsed_error_names) == %d" % e)
            for k in range(e):
                pe = "self._parsed_error_names[%d]" % k
                ens += ["%s[0] == 'error'" % pe, "%s[3] == %d" % (pe, d + k),
                        # ... names THE coordinate this error field belongs to (and is one of the coordinate names)
                        "(" + " or ".join("%s[1] == %s" % (pe, fn(c)) for c in range(d)) + ")"]
                ens += ["%s implies %s[1] == %s" % (belongs(fn(d + k), fn(c)), pe, fn(c)) for c in range(d)]
                ens.append("%s[2] == %s[6:][len(%s[1]) + 1:]" % (pe, fn(d + k), pe))
            cases.append(Contract(
                GR, "graph.__init__", name="graph.__init__[%d coordinates, %d error fields, scale %s]"
                % (d, e, "given" if scaled else "None"),
                params={"self": "Self[graph0]", "coords": "PyList[%d,Lst[Real]]" % n,
                        "field_names": "Tuple[%s]" % ",".join(["Str"] * n), "scale": "Real" if scaled else "None"},
                defaults={"scale": None}, post_class=gname(d, e, scaled), requires=shape,
                raises={"LenaValueError": "(%s) or (%s) or (%s)" % (unequal, dupl, badname)},
                ensures=ens, modifies=ALL))
    # ---- incorrect initialization arguments
    def bad(name, coords_ty, names_ty, raises, ensures=()):
        return Contract(GR, "graph.__init__", name="graph.__init__[%s]" % name,
                        params={"self": "Self[graph0]", "coords": coords_ty, "field_names": names_ty, "scale": "None"},
                        defaults={"scale": None}, raises=raises, ensures=list(ensures), modifies=ALL)
    for n in (2, 3, 4):
        fn = lambda k: "field_names[%d]" % k
        misordered = " or ".join("(%s and not %s)" % (is_err(fn(i)), is_err(fn(j))) for i in range(n) for j in range(i + 1, n))
        # whatever the naming: the constructor returns only if no error field precedes a coordinate field and the names are
        # pairwise different (otherwise it raises; only LenaValueError may escape)
        cases.append(bad("%d fields in any naming: error fields go after the coordinate fields" % n, "PyList[%d,Lst[Real]]" % n,
                         "Tuple[%s]" % ",".join(["Str"] * n), {"LenaValueError": "?"},
                         ["not (%s)" % misordered] + ["%s != %s" % (fn(a), fn(b)) for a in range(n) for b in range(a + 1, n)]))
    cases.append(bad("no coords", "PyList[0,Lst[Real]]", "Tuple[Str,Str]", {"LenaValueError": "True"}))
    cases.append(bad("field names in a list", "PyList[2,Lst[Real]]", "PyList[2,Str]",
                     {"LenaValueError": "len(coords[1]) != len(coords[0])", "LenaTypeError": "len(coords[1]) == len(coords[0])"}))
    ix.add(Contract(GR, "graph.__init__", props=["C12"], cases=cases, ghost={"select_by_requires": True}))


# ---------------------------------------------------------------------------------------------- hist_to_graph (1-d)
def register_hist_to_graph(ix):
    """hist_to_graph docstring: `make_value is a function to set the value of a graph's point.  By default it is bin
    content. ... get_coordinate defines what the coordinate of a graph point created from a histogram bin will be.  It
    can be "left" (default), "right" and "middle". ... field_names set field names of the graph.  Their number must be the
    same as the dimension of the result. ... scale becomes the graph's scale (unknown by default).  If it is True, it uses
    the histogram scale.`  C12: `hist_to_graph yields one point per cell at its left/right/middle coordinate with that
    cell's value`."""
    MODES = [("left", "hist.edges[k]"), ("right", "hist.edges[k + 1]"), ("middle", "0.5 * (hist.edges[k] + hist.edges[k + 1])")]

    def coord_clauses(col, n):
        # the k-th point lies at the left / right edge or in the middle of cell k
        return ["get_coordinate == '%s' implies all(%s[k] == %s for k in range(%s))" % (m, col, x, n) for m, x in MODES]
    bad_coord = "get_coordinate != 'left' and get_coordinate != 'right' and get_coordinate != 'middle'"
    H_REQ = [inv.replace("self.", "hist.") for inv in H1_INV]

    def h2g(name, hist_ty, mv_ty, d, e, scale_ty, value, scale_ens, scaled, modifies=()):
        ncol = d + e
        fn_ty = "Tuple[%s]" % ",".join(["Str"] * ncol)
        names_ok = ["not " + is_err("field_names[%d]" % k) for k in range(d)] + [is_err("field_names[%d]" % k) for k in range(d, ncol)]
        dupl = " or ".join("field_names[%d] == field_names[%d]" % (a, b) for a in range(ncol) for b in range(a + 1, ncol))
        count = lambda k: " + ".join("(1 if %s else 0)" % belongs("field_names[%d]" % (d + k), "field_names[%d]" % c) for c in range(d))
        badname = " or ".join("(%s) != 1" % count(k) for k in range(e)) or "False"
        ens = ["len(result.coords) == %d" % ncol, "result.field_names == field_names", "result.dim == %d" % d] + scale_ens
        ens += ["len(result.coords[%d]) == len(hist.bins)" % c for c in range(ncol)]
        ens += coord_clauses("result.coords[0]", "len(hist.bins)")
        inv = ["len(coords[%d]) == _i" % c for c in range(ncol)] + coord_clauses("coords[0]", "_i")
        for c, v in enumerate(value):
            ens.append("all(result.coords[%d][k] == %s for k in range(len(hist.bins)))" % (c + 1, v))
            inv.append("all(coords[%d][k] == %s for k in range(_i))" % (c + 1, v))
        return Contract(
            HF, "hist_to_graph", name="hist_to_graph[1-d, %s]" % name,
            params={"hist": hist_ty, "make_value": mv_ty, "get_coordinate": "Str", "field_names": fn_ty, "scale": scale_ty},
            defaults={"make_value": None, "get_coordinate": "left", "scale": None},
            result="Inst[%s]" % gname(d, e, scaled), requires=H_REQ + names_ok,
            loops={0: LoopSpec(invariant=inv, havoc=["coords[%d]" % c for c in range(ncol)])},
            local_types={"coords": "PyList[%d,Lst[Real]]" % ncol},
            # a scale typed Real is an int / a float, not the object True (`if scale is True`)
            ghost={"numbers_are_not_bools": True},
            # (graph.__init__ rejects equal names and error fields that belong to no / several coordinates)
            raises={"LenaValueError": "(%s) or %s or %s" % (bad_coord, dupl, badname)}, ensures=ens,
            modifies=list(modifies))
    BIN = ["hist.bins[k]"]
    MV1 = ["make_value(hist.bins[k])"]
    MV2 = ["make_value(hist.bins[k])[0]", "make_value(hist.bins[k])[1]"]
    INTEGRAL = "integral1d(hist.bins, hist.edges, len(hist.bins))"
    ix.add(Contract(
        HF, "hist_to_graph", props=["C12"],
        cases=[
            h2g("bin content, scale unknown", "Inst[histogram_any]", "None", 2, 0, "None", BIN, ["result._scale is None"], False),
            # scale=True: the histogram's own scale (computed now and stored, or the one stored before)
            h2g("bin content, scale=True, histogram scale not computed before", "Inst[histogram]", "None", 2, 0, "Bool", BIN,
                ["scale implies result._scale == " + INTEGRAL], True, modifies=["hist._scale"]),
            h2g("bin content, scale=True, histogram scale computed before", "Inst[histogram_scaled]", "None", 2, 0, "Bool", BIN,
                ["scale implies result._scale == old(hist._scale)"], True, modifies=["hist._scale"]),
            h2g("bin content, scale given", "Inst[histogram_any]", "None", 2, 0, "Real", BIN, ["result._scale == scale"], True),
            h2g("make_value gives a number", "Inst[histogram_any]", "Fn[Real,Real]", 2, 0, "None", MV1,
                ["result._scale is None"], False),
            h2g("make_value gives (value, error), fields x, y, error_...", "Inst[histogram_any]", "Fn[Real,Tuple[Real,Real]]",
                2, 1, "None", MV2, ["result._scale is None"], False),
            h2g("make_value gives a pair, three coordinate fields", "Inst[histogram_any]", "Fn[Real,Tuple[Real,Real]]",
                3, 0, "Real", MV2, ["result._scale == scale"], True),
        ]))


# ---------------------------------------------------------------------------------------------- ScaleTo.__call__, scale_to
H_SC = "integral1d({h}.bins, {h}.edges, len({h}.bins))"


def hist_rescaled(h, s, old_scale):
    """histogram h rescaled to s from old_scale (clauses over the state after / before the call)"""
    return ["len({h}.bins) == old(len({h}.bins))".format(h=h),
            "all({h}.bins[i] == old({h}.bins[i]) * {s} / {o} for i in range(len({h}.bins)))".format(h=h, s=s, o=old_scale),
            "{h}.n_out_of_range == old({h}.n_out_of_range) * ({s} / {o})".format(h=h, s=s, o=old_scale),
            "{h}._scale == {s}".format(h=h, s=s)]


def hist_same(h):
    return ["len({h}.bins) == old(len({h}.bins))".format(h=h),
            "all({h}.bins[i] == old({h}.bins[i]) for i in range(len({h}.bins)))".format(h=h),
            "{h}.n_out_of_range == old({h}.n_out_of_range)".format(h=h)]


def graph_rescaled(g, d, e, s):
    ens = ["%s._scale == %s" % (g, s)]
    for k in range(d + e):
        col, oldc = "%s.coords[%d]" % (g, k), "old(%s.coords[%d])" % (g, k)
        resc = "True" if k == d - 1 else "False" if k < d else "(%s._parsed_error_names[%d][1] == %s.field_names[%d])" % (g, k - d, g, d - 1)
        ens.append("len(%s) == len(%s)" % (col, oldc))
        ens.append("all(%s[i] == (%s[i] * (%s / old(%s._scale)) if %s else %s[i]) for i in range(len(%s)))"
                   % (col, oldc, s, g, resc, oldc, col))
    return ens


def graph_same(g, d, e):
    ens = []
    for k in range(d + e):
        col, oldc = "%s.coords[%d]" % (g, k), "old(%s.coords[%d])" % (g, k)
        ens += ["len(%s) == len(%s)" % (col, oldc), "all(%s[i] == %s[i] for i in range(len(%s)))" % (col, oldc, col)]
    return ens


def register_scale_to(ix):
    """ScaleTo docstring: `scale_to is the number to which the data will be scaled. ... Scale the data part of the value.  If
    the structure has zero or unknown scale, LenaValueError or LenaAttributeError will be raised.`
    scale_to docstring: `Scale each structure in a group.  The group is a sequence of (structure, context) pairs ...  Each
    structure must have a method scale.  The original group is rescaled in place.  If any item could not be rescaled and
    the options were not set to ignore that, LenaValueError is raised.`  C12: `scale_to / ScaleTo use structure.scale`:
    the structure is rescaled as its own scale() does it, the context is left alone."""
    ix.add_class(ClassSpec("ScaleTo", SE, fields={"_scale_to": "Real"}))
    D, S = "value[0]", "self._scale_to"
    g21 = lambda sc: "Inst[%s]" % gname(2, 1, sc)

    def call(name, data_ty, raises, ens, exc_ens, mod, req=()):
        return Contract(
            SE, "ScaleTo.__call__", name="ScaleTo.__call__[%s]" % name, dict_model="Val",
            params={"self": "Self[ScaleTo]", "value": "Tuple[%s,Dict]" % data_ty}, result="Any",
            requires=["isdict(value[1])"] + list(req), raises=raises, raises_frame="pure",
            exc_ensures={"LenaValueError": exc_ens} if exc_ens else {},
            # the very same structure and the very same context are handed on
            ensures=["result[0] is value[0]", "result[1] is value[1]", "value[1] == old(value[1])"] + ens,
            modifies=mod)
    HREQ = [inv.replace("self.", "value[0].") for inv in H1_INV]
    hmod = ["value[0].bins", "value[0].n_out_of_range", "value[0]._scale"]
    gmod = ["value[0].coords", "value[0]._scale", "value[0].coords[1]", "value[0].coords[2]"]
    ix.add(Contract(
        SE, "ScaleTo.__call__", props=["C12"],
        cases=[
            call("(histogram, context), scale computed before", "Inst[histogram_scaled]", {"LenaValueError": D + "._scale == 0"},
                 hist_rescaled(D, S, "old(%s._scale)" % D), hist_same(D), hmod, HREQ),
            call("(histogram, context), scale not computed before", "Inst[histogram]",
                 {"LenaValueError": H_SC.format(h=D) + " == 0"},
                 hist_rescaled(D, S, "old(%s)" % H_SC.format(h=D)), hist_same(D), hmod, HREQ),
            call("(graph x, y, error_..., context)", g21(True), {"LenaValueError": D + "._scale == 0"},
                 graph_rescaled(D, 2, 1, S), graph_same(D, 2, 1), gmod),
            call("(graph of unknown scale, context)", g21(False), {"LenaValueError": "True"}, [], graph_same(D, 2, 1), []),
        ]))


    # ---- scale_to(number, group): every structure of the group is rescaled by its own scale()
    HS, G20, G21 = "Inst[histogram_scaled]", "Inst[%s]" % gname(2, 0, True), "Inst[%s]" % gname(2, 1, True)
    GU = "Inst[%s]" % gname(2, 0, False)
    SHAPE = {HS: None, G20: (2, 0), G21: (2, 1)}

    def group_case(name, tys, props_note=""):
        n = len(tys)
        it = lambda k: "group[%d][0]" % k
        zero = lambda k: "%s._scale == 0" % it(k)
        req, mod = [], []
        for k, ty in enumerate(tys):
            req.append("isdict(group[%d][1])" % k)
            if SHAPE[ty] is None:
                req += [inv.replace("self.", it(k) + ".") for inv in H1_INV]
                mod += ["%s.bins" % it(k), "%s.n_out_of_range" % it(k), "%s._scale" % it(k)]
            else:
                d, e = SHAPE[ty]
                mod += ["%s.coords" % it(k), "%s._scale" % it(k)] + ["%s.coords[%d]" % (it(k), c) for c in range(d - 1, d + e)]
        rescaled = lambda k: hist_rescaled(it(k), "scale_to", "old(%s._scale)" % it(k)) if SHAPE[tys[k]] is None \
            else graph_rescaled(it(k), SHAPE[tys[k]][0], SHAPE[tys[k]][1], "scale_to")
        same = lambda k: hist_same(it(k)) + ["%s._scale == old(%s._scale)" % (it(k), it(k))] if SHAPE[tys[k]] is None \
            else graph_same(it(k), *SHAPE[tys[k]]) + ["%s._scale == old(%s._scale)" % (it(k), it(k))]
        ens, exc = [], []
        for k in range(n):
            # an item with a non-zero scale is rescaled to scale_to; one with a zero scale is left as it is (only reached
            # when allow_zero_scale: otherwise the call raises)
            ens += ["not old(%s) implies %s" % (zero(k), cl) for cl in rescaled(k)]
            ens += ["old(%s) implies %s" % (zero(k), cl) for cl in same(k)]
            ens.append("group[%d][1] == old(group[%d][1])" % (k, k))
            # on the exception: the items before the first one of zero scale are rescaled already, it and the later ones
            # are untouched (`The original group is rescaled in place`)
            before_zero = " and ".join("not old(%s)" % zero(j) for j in range(k + 1))
            first_zero_before = " or ".join("old(%s)" % zero(j) for j in range(k + 1))
            exc += ["%s implies %s" % (before_zero, cl) for cl in rescaled(k)]
            exc += ["(%s) implies %s" % (first_zero_before, cl) for cl in same(k)]
        return Contract(
            GS, "scale_to", name="scale_to[number, group of %s]" % name, dict_model="Val",
            params={"scale_to": "Real", "group": "PyList[%d,%s]" % (n, ",".join("Tuple[%s,Dict]" % t for t in tys)) if n > 1
                    else "PyList[1,Tuple[%s,Dict]]" % tys[0], "allow_zero_scale": "Bool", "allow_unknown_scale": "Bool"},
            defaults={"allow_zero_scale": False, "allow_unknown_scale": False}, result=None, requires=req,
            raises={"LenaValueError": "not allow_zero_scale and (%s)" % " or ".join(zero(k) for k in range(n))},
            exc_ensures={"LenaValueError": exc}, ensures=ens, modifies=mod)
    # FINDING (docstring vs code, not attached to a property: props=[]).  GroupScale docstring: `attempts to rescale a
    # structure with unknown or zero scale raise an error.  If allow_zero_scale and allow_unknown_scale are set to True, the
    # corresponding errors are ignored and the structure remains unscaled`, read as: allow_unknown_scale governs structures
    # of UNKNOWN scale.  A `graph` of unknown scale raises LenaValueError from scale() (not AttributeError), which scale_to
    # files under "scale is zero": allow_unknown_scale=True alone does not ignore it, allow_zero_scale=True alone does.
    # `python3-vt tools/dbg.py lena/flow/group_scale.py "scale_to#docstring-literal"` shows the failed obligations.
    ix.add(Contract(GS, "scale_to", props=[], qualkey="scale_to#docstring-literal", cases=[Contract(
        GS, "scale_to", name="scale_to[number, a graph of unknown scale: allow_unknown_scale decides]", dict_model="Val",
        params={"scale_to": "Real", "group": "PyList[1,Tuple[%s,Dict]]" % GU, "allow_zero_scale": "Bool", "allow_unknown_scale": "Bool"},
        defaults={"allow_zero_scale": False, "allow_unknown_scale": False}, result=None, requires=["isdict(group[0][1])"],
        raises={"LenaValueError": "not allow_unknown_scale"}, ensures=graph_same("group[0][0]", 2, 0), modifies=[])],
        notes="documents a finding; deliberately not attached to a property"))
    ix.add(Contract(
        GS, "scale_to", props=["C12"],
        cases=[group_case("one histogram", [HS]),
               group_case("a histogram and a graph", [HS, G20]),
               group_case("a graph with errors, a graph and a histogram", [G21, G20, HS])]))


# ---------------------------------------------------------------------------------------------- iterable_to_table
def register_iterable_to_table(ix):
    """iterable_to_table docstring: `The resulting table is yielded line by line.  If the header or footer is empty, it is
    not yielded.  format_ controls the output of individual cells in a row.  By default, it uses standard Python
    representation. ... Each row is prepended with row_start and appended with row_end.  If it consists of several
    columns, they are joined by row_separator.`  C12 (ToCSV for structures with rows()): one line per row, in order.
    The text of a number is an uninterpreted function of the number (pyvc/lib_graph.py)."""
    H = "(1 if header != '' else 0)"
    PARAMS = {"iterable": None, "format_": "None", "header": "Str", "header_fields": "Tuple[]", "row_start": "Str",
              "row_end": "Str", "row_separator": "Str", "footer": "Str"}
    DEF = {"format_": None, "header": "", "header_fields": (), "row_start": "", "row_end": "", "row_separator": ",", "footer": ""}
    frame = ["header != '' implies out[0] == header",
             "footer != '' implies out[len(out) - 1] == footer"]
    # rows that are single numbers (not iterable: `cols = (row,)`)
    single = "row_start + row_separator.join([repr(iterable[k])]) + row_end"
    # rows that are pairs of numbers
    pair = lambda k: "row_start + row_separator.join([repr(iterable[%s][0]), repr(iterable[%s][1])]) + row_end" % (k, k)
    fpair = lambda k: "row_start + '{:.2f};{:.0f}'.format(iterable[%s][0], iterable[%s][1]) + row_end" % (k, k)

    def rows3(name, fmt_ty, line, sep_ty="Str"):
        return Contract(
            TC, "iterable_to_table", name="iterable_to_table[%s]" % name, ghost={"str_format": True},
            params=dict(PARAMS, iterable="PyList[3,Tuple[Real,Real]]", format_=fmt_ty, row_separator=sep_ty), defaults=DEF,
            generator=True, yields="Key",
            ensures=["len(out) == %s + 3 + (1 if footer != '' else 0)" % H] + frame +
                    ["out[%s + %d] == %s" % (H, k, line(k)) for k in range(3)],
            modifies=[])
    replace_keeping_assumed(ix, Contract(
        TC, "iterable_to_table", props=["C12"],
        cases=[
            Contract(TC, "iterable_to_table", name="iterable_to_table[rows are single numbers, default format]",
                     ghost={"str_format": True}, params=dict(PARAMS, iterable="Lst[Real]"), defaults=DEF,
                     generator=True, yields="Key",
                     loops={0: LoopSpec(invariant=["len(out) == %s + _i" % H, "header != '' implies out[0] == header",
                                                   "all(out[%s + k] == %s for k in range(_i))" % (H, single)])},
                     ensures=["len(out) == %s + len(iterable) + (1 if footer != '' else 0)" % H] + frame +
                             ["all(out[%s + k] == %s for k in range(len(iterable)))" % (H, single)],
                     modifies=[]),
            rows3("three rows of pairs, default format", "None", pair),
            rows3("three rows of pairs, format_=('{:.2f}', '{:.0f}'), separator ';'", "Tuple[Str['{:.2f}'],Str['{:.0f}']]", fpair,
                  sep_ty="Str[';']"),
        ]))


# ---------------------------------------------------------------------------------------------- 2-dimensional histograms
H2_FIELDS = {"edges": "PyList[2,Lst[Real]]", "bins": "Lst[Lst[Real]]", "n_out_of_range": "Real", "dim": "Int[2]",
             "nbins": "PyList[2,Int]", "ranges": "PyList[2,Tuple[Real,Real]]"}
H2_INV = ["len(self.edges[0]) >= 2", "len(self.edges[1]) >= 2", mono("self.edges[0]"), mono("self.edges[1]"),
          "len(self.bins) == len(self.edges[0]) - 1",
          "all(len(self.bins[i]) == len(self.edges[1]) - 1 for i in range(len(self.bins)))",
          "self.nbins[0] == len(self.edges[0]) - 1", "self.nbins[1] == len(self.edges[1]) - 1"]
ALL2 = "all(all({body} for j in range(len(self.bins[i]))) for i in range(len(self.bins)))"


def register_hist2d(ix):
    """histogram.scale for 2-dimensional histograms whose scale was computed before (C12: `Rescaling a histogram ... to s
    multiplies exactly its contents (bins and n_out_of_range) ... by s/old scale, leaves edges ... untouched ... and raises
    LenaValueError for a zero ... scale`; `all 1- to 3-dimensional histograms`)."""
    ix.add_class(ClassSpec("histogram2_scaled", HI, fields=dict(H2_FIELDS, _scale="Real"), invariant=H2_INV, alias_of="histogram"))
    untouched = ["len(self.bins) == old(len(self.bins))",
                 "all(len(self.bins[i]) == old(len(self.bins[i])) for i in range(len(self.bins)))",
                 ALL2.format(body="self.bins[i][j] == old(self.bins[i][j])"),
                 "self.n_out_of_range == old(self.n_out_of_range)", "self._scale == old(self._scale)"]
    md = register_md_map(ix)
    ix._p_hist2_md = md
    sc = ix.by_key[(HI, "histogram.scale")]
    new = [
        Contract(HI, "histogram.scale", name="histogram.scale[2-d, set, computed before]",
                 params={"self": "Self[histogram2_scaled]", "other": "Real", "recompute": "Bool"}, result=None,
                 defaults={"recompute": False},
                 raises={"LenaValueError": "self._scale == 0"}, exc_ensures={"LenaValueError": untouched},
                 ensures=["len(self.bins) == old(len(self.bins))",
                          "all(len(self.bins[i]) == old(len(self.bins[i])) for i in range(len(self.bins)))",
                          ALL2.format(body="self.bins[i][j] == old(self.bins[i][j]) * other / old(self._scale)"),
                          "self.n_out_of_range == old(self.n_out_of_range) * (other / old(self._scale))",
                          "self._scale == other",
                          # (ground instance of the cell-wise clause: the first cell)
                          "self.bins[0][0] == old(self.bins[0][0]) * other / old(self._scale)"],
                 modifies=["self.bins", "self.n_out_of_range", "self._scale"], ghost={"assumed_callees": {"md_map": md}}),
        Contract(HI, "histogram.scale", name="histogram.scale[2-d, get, computed before]",
                 params={"self": "Self[histogram2_scaled]", "other": "None", "recompute": "Bool"}, result="Real",
                 defaults={"other": None, "recompute": False}, requires=["not recompute"],
                 ensures=["result == old(self._scale)"] + untouched, modifies=[]),
    ]
    for c in new:
        if not any(x.name == c.name for x in sc.cases):
            sc.cases.append(c)
    register_hist2d_init_add(ix, md)
    register_iter_bins_2d(ix)


def add_cases(ix, key, cases, first=False):
    """further cases of a contract another module registered (other typings of the same function)"""
    c = ix.by_key[key]
    for k in cases:
        if not any(x.name == k.name for x in c.cases):
            if first:
                c.cases.insert(0, k)
            else:
                c.cases.append(k)


def register_hist2d_init_add(ix, md):
    """histogram.__init__ / histogram.add for 2-dimensional histograms (docstrings quoted in P_hist.py; C12: `histogram.add
    returns the cell-wise a + w*b without modifying its operands and only for equal edges`)."""
    MU = "lena/math/utils.py"
    ix.add_class(ClassSpec("histogram2", HI, fields=dict(H2_FIELDS, _scale="None"), invariant=H2_INV, alias_of="histogram"))
    ix.add_class(ClassSpec("histogram2_any", HI, fields=H2_FIELDS, invariant=H2_INV, alias_of="histogram"))
    H_ALL = ["self.edges", "self.bins", "self.n_out_of_range", "self.dim", "self._scale", "self.nbins", "self.ranges"]
    bad_edges = " or ".join("len(edges[%d]) <= 1 or not %s" % (d, incr("edges[%d]" % d)) for d in range(2))
    common = ["self.edges is edges", "self.n_out_of_range == 0", "self._scale is None", "self.dim == 2",
              "self.nbins[0] == len(edges[0]) - 1", "self.nbins[1] == len(edges[1]) - 1",
              "self.ranges[0][0] == edges[0][0]", "self.ranges[0][1] == edges[0][len(edges[0]) - 1]",
              "self.ranges[1][0] == edges[1][0]", "self.ranges[1][1] == edges[1][len(edges[1]) - 1]"]
    add_cases(ix, (HI, "histogram.__init__"), [
        Contract(HI, "histogram.__init__", name="histogram.__init__[dim=2, bins given]",
                 params={"self": "Self[histogram0]", "edges": "PyList[2,Lst[Real]]", "bins": "Lst[Lst[Real]]", "initial_value": "Real"},
                 defaults={"initial_value": 0}, post_class="histogram2",
                 # (only the number of rows is checked: a row of another length is the caller's business)
                 requires=["all(len(bins[i]) == len(edges[1]) - 1 for i in range(len(bins)))"],
                 raises={"LenaValueError": bad_edges + " or len(bins) != len(edges[0]) - 1"},
                 ensures=common + ["same(self.bins, bins)"], modifies=H_ALL),
        Contract(HI, "histogram.__init__", name="histogram.__init__[dim=2, bins None]",
                 params={"self": "Self[histogram0]", "edges": "PyList[2,Lst[Real]]", "bins": "None", "initial_value": "Real"},
                 defaults={"bins": None, "initial_value": 0}, post_class="histogram2",
                 raises={"LenaValueError": bad_edges},
                 ensures=common + ["len(self.bins) == len(edges[0]) - 1",
                                   "all(len(self.bins[i]) == len(edges[1]) - 1 for i in range(len(self.bins)))",
                                   ALL2.format(body="self.bins[i][j] == initial_value")],
                 modifies=H_ALL)])
    # isclose on the edges of a 2-dimensional histogram: [x edges, y edges]
    CL = lambda d: "all(%s for k in range(len(a[%d])))" % (CLOSE.format(a="a[%d][k]" % d, b="b[%d][k]" % d), d)
    add_cases(ix, (MU, "isclose"), [
        Contract(MU, "isclose", name="isclose[two lists of two lists of numbers]",
                 params={"a": "PyList[2,Lst[Real]]", "b": "PyList[2,Lst[Real]]", "rel_tol": "Real", "abs_tol": "Real"},
                 result="Bool", defaults={"rel_tol": 1e-09, "abs_tol": 0.0},
                 requires=["len(a[0]) <= len(b[0])", "len(a[1]) <= len(b[1])"],
                 ensures=["result == (%s and %s)" % (CL(0), CL(1))], modifies=[])])
    O_REQ = [inv.replace("self.", "other.") for inv in H2_INV]
    EC = lambda d: "all(%s for k in range(len(self.edges[%d])))" % (
        CLOSE.format(a="self.edges[%d][k]" % d, b="other.edges[%d][k]" % d)
        .replace("rel_tol", "edges_rel_tol").replace("abs_tol", "edges_abs_tol"), d)
    RB = "all(all({body} for j in range(len(result.bins[i]))) for i in range(len(result.bins)))"
    add_cases(ix, (HI, "histogram.add"), [
        Contract(HI, "histogram.add", name="histogram.add[2-d histograms]",
                 params={"self": "Self[histogram2_any]", "other": "Inst[histogram2_any]", "weight": "Real",
                         "edges_abs_tol": "Real", "edges_rel_tol": "Real"},
                 defaults={"weight": 1, "edges_abs_tol": 0.0, "edges_rel_tol": 1e-09},
                 result="Inst[histogram2]", requires=O_REQ,
                 ghost={"assumed_callees": {"md_map": md}},
                 raises={"LenaValueError": "len(self.edges[0]) != len(other.edges[0]) or len(self.edges[1]) != len(other.edges[1]) "
                                           "or not (%s and %s)" % (EC(0), EC(1))},
                 ensures=["result is not self and result is not other",
                          "len(result.bins) == len(self.bins)",
                          "all(len(result.bins[i]) == len(self.bins[i]) for i in range(len(result.bins)))",
                          RB.format(body="result.bins[i][j] == self.bins[i][j] + weight * other.bins[i][j]"),
                          "result.n_out_of_range == self.n_out_of_range + weight * other.n_out_of_range",
                          "result.edges[0] == self.edges[0]", "result.edges[1] == self.edges[1]",
                          "result._scale is None", "result.dim == 2"],
                 modifies=[], raises_frame="pure")])


MM = "lena/math/meshes.py"


def register_md_map(ix):
    """md_map docstring: `Return function f mapped to contents of multidimensional arrays.  f is a function of that many
    arguments as the number of arrays.  An item of arrays must be a list of (possibly nested) lists.  Its contents remain
    unchanged.  Returned array has same dimensions as those of the initial ones (they are all assumed equal).`
    Call sites of the 1-dimensional contracts (P_hist) execute md_map in place; for nested lists the function calls itself
    inside a comprehension, so here it is proved as a unit of its own (key `md_map#contract`) and the 2-dimensional callers
    below use exactly these clauses (`assumed_callees`: listed as an assumption of the caller, proved here)."""
    def cases(trusted):
        A1, A2 = "arrays[0]", "arrays[1]"
        return [
            Contract(MM, "md_map", name="md_map[f, two 2-d lists]", trusted=trusted, vararg="arrays",
                     params={"f": "Fn[Real,Real,Real]", "arrays": "Tuple[Lst[Lst[Real]],Lst[Lst[Real]]]"}, result="Lst[Lst[Real]]",
                     requires=["len(%s) >= len(%s)" % (A2, A1),
                               "all(len(%s[i]) >= len(%s[i]) for i in range(len(%s)))" % (A2, A1, A1)],
                     ensures=["len(result) == len(%s)" % A1, "all(len(result[i]) == len(%s[i]) for i in range(len(result)))" % A1,
                              "all(all(result[i][j] == f(%s[i][j], %s[i][j]) for j in range(len(result[i]))) for i in range(len(result)))"
                              % (A1, A2)], modifies=[]),
            Contract(MM, "md_map", name="md_map[f, one 2-d list]", trusted=trusted, vararg="arrays",
                     params={"f": "Fn[Real,Real]", "arrays": "Tuple[Lst[Lst[Real]]]"}, result="Lst[Lst[Real]]",
                     ensures=["len(result) == len(%s)" % A1, "all(len(result[i]) == len(%s[i]) for i in range(len(result)))" % A1,
                              "all(all(result[i][j] == f(%s[i][j]) for j in range(len(result[i]))) for i in range(len(result)))" % A1],
                     modifies=[]),
            Contract(MM, "md_map", name="md_map[f, two 1-d lists]", trusted=trusted, vararg="arrays",
                     params={"f": "Fn[Real,Real,Real]", "arrays": "Tuple[Lst[Real],Lst[Real]]"}, result="Lst[Real]",
                     requires=["len(%s) >= len(%s)" % (A2, A1)],
                     ensures=["len(result) == len(%s)" % A1,
                              "all(result[i] == f(%s[i], %s[i]) for i in range(len(result)))" % (A1, A2)], modifies=[]),
            Contract(MM, "md_map", name="md_map[f, one 1-d list]", trusted=trusted, vararg="arrays",
                     params={"f": "Fn[Real,Real]", "arrays": "Tuple[Lst[Real]]"}, result="Lst[Real]",
                     ensures=["len(result) == len(%s)" % A1, "all(result[i] == f(%s[i]) for i in range(len(result)))" % A1],
                     modifies=[]),
        ]
    assumed = Contract(MM, "md_map", props=[], trusted=True, cases=cases(True),
                       notes="the clauses of md_map#contract (proved there)")
    proved = cases(False)
    for c in proved:
        # (`len(arrays) == 1` for a known number of arrays is decided, not explored as two branches)
        c.ghost = {"fold_literals": True}
    for c in proved[:2]:
        c.ghost["assumed_callees"] = {"md_map": assumed}          # the recursive call on the rows: the 1-d clauses
    ix.add(Contract(MM, "md_map", props=["C12"], qualkey="md_map#contract", cases=proved))
    return assumed


# ---------------------------------------------------------------------------------------------- iter_bins, integral (2-d)
def _decl_flat(ip):
    """reference functions of the row-major enumeration of a rectangular 2-dimensional array with rows of length ny >= 1:
    cell number k is (ri2(ny, k), ci2(ny, k)):  cell 0 is (0, 0); the cell after (r, c) is (r, c + 1) if c + 1 < ny,
    else (r + 1, 0).  rowoff2(b, i) = len(b[0]) + ... + len(b[i - 1]) is the number of cells of the first i rows."""
    reg = ip.reg
    llr = reg.lst(reg.lst("Real"))
    lr = reg.lst("Real")
    reg.ufun("ci2", ["Int", "Int"], "Int")
    reg.ufun("ri2", ["Int", "Int"], "Int")
    reg.fun_decl("rowoff2", "(declare-fun rowoff2 (%s Int) Int)" % llr)
    # defining equations as axioms instantiated where the function is applied (total functions defined by recursion on
    # the second argument: the equations have exactly one solution).  `define-fun-rec` makes the solvers unfold them
    # without end on symbolic arguments.
    AX = ["(forall ((ny Int) (k Int)) (! (= (ci2 ny k) (ite (<= k 0) 0 (ite (< (+ (ci2 ny (- k 1)) 1) ny) "
          "(+ (ci2 ny (- k 1)) 1) 0))) :pattern ((ci2 ny k))))",
          "(forall ((ny Int) (k Int)) (! (= (ri2 ny k) (ite (<= k 0) 0 (ite (< (+ (ci2 ny (- k 1)) 1) ny) "
          "(ri2 ny (- k 1)) (+ (ri2 ny (- k 1)) 1)))) :pattern ((ri2 ny k))))",
          "(forall ((b %s) (i Int)) (! (= (rowoff2 b i) (ite (<= i 0) 0 (+ (rowoff2 b (- i 1)) "
          "(len_%s (select (arr_%s b) (- i 1)))))) :pattern ((rowoff2 b i))))" % (llr, lr, llr)]
    for ax in AX:
        if not any(a.s == ax for a in reg.axioms):
            reg.axioms.append(T(ax, "Bool"))
    return lr, llr


def sp_ri2(ip, st, pos, kws):
    _decl_flat(ip)
    return Num(T("(ri2 %s %s)" % (ip.num(pos[0]).s, ip.num(pos[1]).s), "Int"))


def sp_ci2(ip, st, pos, kws):
    _decl_flat(ip)
    return Num(T("(ci2 %s %s)" % (ip.num(pos[0]).s, ip.num(pos[1]).s), "Int"))


def sp_rowoff2(ip, st, pos, kws):
    from pyvc.speclib import lst_term
    lr, llr = _decl_flat(ip)
    return Num(T("(rowoff2 %s %s)" % (lst_term(ip, st, pos[0], llr).s, ip.num(pos[1]).s), "Int"))


def sp_integral2d(ip, st, pos, kws):
    """integral2d(bins, e0, e1, n): sum over the first n cells (row-major) of (e0[r+1] - e0[r]) * (e1[c+1] - e1[c]) *
    bins[r][c]  (`scale (integral of the histogram)`, over the reals)"""
    from pyvc.speclib import lst_term
    lr, llr = _decl_flat(ip)
    # area of cell (r, c); a function of its own so that the scaling lemma can be proved for ANY such function
    ip.reg.fun_decl("vol2d", (
        "(define-fun vol2d ((e0 {lr}) (e1 {lr}) (r Int) (c Int)) Real (* (* 1.0 (- (select (arr_{lr} e0) (+ r 1)) "
        "(select (arr_{lr} e0) r))) (- (select (arr_{lr} e1) (+ c 1)) (select (arr_{lr} e1) c))))").format(lr=lr))
    # integral2d is an uninterpreted symbol; its defining equation is added as a fact for every GROUND application a
    # clause makes (not for applications under a quantifier): a quantified or recursive definition makes the solvers
    # unfold it without end in queries that only need the symbol
    ip.reg.fun_decl("integral2d", "(declare-fun integral2d (%s %s %s Int) Real)" % (llr, lr, lr))
    b = lst_term(ip, st, pos[0], llr)
    e0, e1 = lst_term(ip, st, pos[1], lr), lst_term(ip, st, pos[2], lr)
    n = ip.num(pos[3])
    app = "(integral2d %s %s %s %s)" % (b.s, e0.s, e1.s, n.s)
    if _ground(app):
        ny = "(len_%s (select (arr_%s %s) 0))" % (lr, llr, b.s)
        r, c = "(ri2 %s (- %s 1))" % (ny, n.s), "(ci2 %s (- %s 1))" % (ny, n.s)
        inst = ("(= {app} (ite (<= {n} 0) 0.0 (+ (integral2d {b} {e0} {e1} (- {n} 1)) (* (vol2d {e0} {e1} {r} {c}) "
                "(select (arr_{lr} (select (arr_{llr} {b}) {r})) {c})))))").format(app=app, n=n.s, b=b.s, e0=e0.s, e1=e1.s, r=r, c=c,
                                                                                lr=lr, llr=llr)
        if not any(h.s == inst for h in st.pc):
            st.assume(T(inst, "Bool"))
    return Num(T(app, "Real"))


def _ground(text):
    """no bound variable occurs in the SMT text: declared constants are written |name!k|, everything else that looks like
    an identifier with a number is a bound variable (q12, li3, wf0 ...) unless it is one of the function symbols used here"""
    import re
    t = re.sub(r"\|[^|]*\|", " ", text)
    t = re.sub(r"\b(ri2|ci2|vol2d|integral2d|rowoff2)\b", " ", t)
    return re.search(r"\b[A-Za-z_]+[0-9]+\b", t) is None


def register_iter_bins_2d(ix):
    """iter_bins docstring: `Iterate on bins.  Yield (index, bin content).  Edges with higher index are iterated first (that
    is z, then y, then x for a 3-dimensional histogram).`  2-dimensional (rectangular) bins: the k-th value is cell
    (ri2(ny, k), ci2(ny, k)) with its content -- every cell once, row by row."""
    for n, f in (("ri2", sp_ri2), ("ci2", sp_ci2), ("rowoff2", sp_rowoff2), ("integral2d", sp_integral2d)):
        ix.spec_names[n] = f
    NY = "len(bins[0])"
    R, C = "ri2(%s, k)" % NY, "ci2(%s, k)" % NY
    cell = ("out[k][0][0] == {r} and out[k][0][1] == {c} and out[k][1] == bins[{r}][{c}] and "
            "0 <= out[k][0][0] < len(bins) and 0 <= out[k][0][1] < {ny}").format(r=R, c=C, ny=NY)
    ALLK = "all(%s for k in range(len(out)))" % cell
    L = "len(out) - 1"
    last = lambda r, c: "ri2(%s, %s) == %s and ci2(%s, %s) == %s" % (NY, L, r, NY, L, c)
    add_cases(ix, (HF, "iter_bins"), [
        Contract(HF, "iter_bins", name="iter_bins[2-d bins]",
                 params={"bins": "Lst[Lst[Real]]"}, generator=True, yields="Tuple[Tuple[Int,Int],Real]",
                 requires=["len(bins) >= 1", "len(bins[0]) >= 1", "all(len(bins[i]) == len(bins[0]) for i in range(len(bins)))"],
                 loops={0: LoopSpec(invariant=["len(out) == (_i0 * len(bins[0]))", "_i0 <= len(bins)", ALLK,
                                               "_i0 > 0 implies " + last("_i0 - 1", NY + " - 1"),
                                               # (the position of the next cell)
                                               "ri2(%s, len(out)) == _i0 and ci2(%s, len(out)) == 0" % (NY, NY)]),
                        1: LoopSpec(invariant=["len(out) == (_i0 * len(bins[0])) + _i1", "_i1 <= " + NY, "_i0 < len(bins)",
                                               "_i1 < %s implies ri2(%s, len(out)) == _i0 and ci2(%s, len(out)) == _i1" % (NY, NY, NY),
                                               "_i1 == %s implies ri2(%s, len(out)) == _i0 + 1 and ci2(%s, len(out)) == 0" % (NY, NY, NY),
                                               ALLK,
                                               "_i1 > 0 implies " + last("_i0", "_i1 - 1"),
                                               "_i1 == 0 and _i0 > 0 implies " + last("_i0 - 1", NY + " - 1")])},
                 at_yield=["yielded[0][0] == ri2(%s, len(out))" % NY, "yielded[0][1] == ci2(%s, len(out))" % NY,
                           "yielded[1] == bins[yielded[0][0]][yielded[0][1]]"],
                 out_def=("(len(bins) * len(bins[0]))", "k", "((%s, %s), bins[%s][%s])" % (R, C, R, C)),
                 ensures=["len(out) == (len(bins) * len(bins[0]))",
                          "all(out[k] == ((%s, %s), bins[%s][%s]) for k in range(len(out)))" % (R, C, R, C),
                          "all(0 <= %s < len(bins) and 0 <= %s < %s for k in range(len(out)))" % (R, C, NY)])])

    RECT = ["len(edges[0]) >= 2", "len(edges[1]) >= 2", "len(bins) == len(edges[0]) - 1",
            "all(len(bins[i]) == len(edges[1]) - 1 for i in range(len(bins)))"]
    add_cases(ix, (HF, "integral"), [
        Contract(HF, "integral", name="integral[2-d: bins, [x edges, y edges]]",
                 params={"bins": "Lst[Lst[Real]]", "edges": "PyList[2,Lst[Real]]"}, result="Real", requires=RECT,
                 loops={0: LoopSpec(invariant=[
                     "total == integral2d(bins, edges[0], edges[1], _i)",
                     # (the next cell lies inside the array: an instance of iter_bins' range clause)
                     "_i < (len(bins) * len(bins[0])) implies 0 <= ri2(len(bins[0]), _i) < len(bins) and "
                     "0 <= ci2(len(bins[0]), _i) < len(bins[0])"], ghost={"total": "Real"})},
                 # the sum over all cells (row by row) of cell area * content
                 ensures=["result == integral2d(bins, edges[0], edges[1], (len(bins) * len(bins[0])))",
                          # (every cell number lies inside the array: iter_bins' clause, handed on to callers)
                          "all(0 <= ri2(len(bins[0]), k) < len(bins) and 0 <= ci2(len(bins[0]), k) < len(bins[0]) "
                          "for k in range((len(bins) * len(bins[0]))))"])])

    # ---- histogram.scale, 2-d, scale computed from the integral
    I2 = "integral2d(self.bins, self.edges[0], self.edges[1], (len(self.bins) * len(self.bins[0])))"
    untouched = ["len(self.bins) == old(len(self.bins))",
                 "all(len(self.bins[i]) == old(len(self.bins[i])) for i in range(len(self.bins)))",
                 ALL2.format(body="self.bins[i][j] == old(self.bins[i][j])"),
                 "self.n_out_of_range == old(self.n_out_of_range)"]
    md = ix._p_hist2_md
    # (every cell number lies inside the array: handed on from integral / iter_bins)
    RANGES = ("all(0 <= ri2(len(self.bins[0]), k) < len(self.bins) and 0 <= ci2(len(self.bins[0]), k) < len(self.bins[0]) "
              "for k in range(len(self.bins) * len(self.bins[0])))")
    add_cases(ix, (HI, "histogram.scale"), [
        Contract(HI, "histogram.scale", name="histogram.scale[2-d, get, not computed before]",
                 params={"self": "Self[histogram2]", "other": "None", "recompute": "Bool"}, result="Real",
                 defaults={"other": None, "recompute": False}, post_class="histogram2_scaled",
                 ensures=["result == " + I2, "self._scale == result", RANGES] + untouched, modifies=["self._scale"]),
        Contract(HI, "histogram.scale", name="histogram.scale[2-d, get, recompute]",
                 params={"self": "Self[histogram2_scaled]", "other": "None", "recompute": "Bool"}, result="Real",
                 defaults={"other": None, "recompute": False}, requires=["recompute"],
                 ensures=["result == " + I2, "self._scale == result", RANGES] + untouched, modifies=["self._scale"]),
        Contract(HI, "histogram.scale", name="histogram.scale[2-d, set, not computed before]",
                 params={"self": "Self[histogram2]", "other": "Real", "recompute": "Bool"}, result=None,
                 defaults={"recompute": False}, post_class="histogram2_scaled",
                 ghost={"assumed_callees": {"md_map": md}},
                 raises={"LenaValueError": I2 + " == 0"}, exc_ensures={"LenaValueError": untouched},
                 lemmas=["integral2d_scaled(self.bins, old(self.bins), self.edges[0], self.edges[1], other, old(%s), "
                         "(len(self.bins) * len(self.bins[0])))" % I2],
                 ensures=[I2 + " == other",          # C12: the recomputed scale equals the requested one (over the reals)
                          "len(self.bins) == old(len(self.bins))",
                          "all(len(self.bins[i]) == old(len(self.bins[i])) for i in range(len(self.bins)))",
                          ALL2.format(body="self.bins[i][j] == old(self.bins[i][j]) * other / old(%s)" % I2),
                          "self.n_out_of_range == old(self.n_out_of_range) * (other / old(%s))" % I2,
                          "self._scale == other"],
                 modifies=["self.bins", "self.n_out_of_range", "self._scale"])])

    register_lemma_2d(ix)


# ---- lemma: rescaling every cell by num/den rescales integral2d by num/den (induction on the number of cells)
def _i2_parts(lr, llr):
    ny = lambda b: "(len_%s (select (arr_%s %s) 0))" % (lr, llr, b)
    cellk = lambda b, k: "(select (arr_{lr} (select (arr_{llr} {b}) (ri2 {ny} {k}))) (ci2 {ny} {k}))".format(lr=lr, llr=llr, b=b, ny=ny(b), k=k)
    return ny, cellk


def integral2d_scaled_stmt(lr, llr, b2, b1, e0, e1, num, den, n, i="li"):
    ny, cellk = _i2_parts(lr, llr)
    prem = ("(and (not (= {den} 0.0)) (= {ny2} {ny1}) (forall (({i} Int)) (=> (and (<= 0 {i}) (< {i} {n})) "
            "(= {c2} (/ (* {c1} {num}) {den})))))").format(den=den, ny2=ny(b2), ny1=ny(b1), i=i, n=n, c2=cellk(b2, i), c1=cellk(b1, i), num=num)
    concl = "(= (integral2d {b2} {e0} {e1} {n}) (/ (* (integral2d {b1} {e0} {e1} {n}) {num}) {den}))".format(
        b2=b2, b1=b1, e0=e0, e1=e1, n=n, num=num, den=den)
    return prem, concl


def sp_integral2d_scaled(ip, st, pos, kws):
    """integral2d_scaled(new_bins, old_bins, e0, e1, num, den, n): instance of the lemma `if den != 0, both arrays have rows
    of the same length and each of the first n cells (row-major) of new_bins is the cell of old_bins times num/den, then
    integral2d(new_bins, e0, e1, n) == integral2d(old_bins, e0, e1, n) * num / den`"""
    from pyvc.speclib import lst_term
    from pyvc.sym import Bool
    from pyvc.smt import to_real
    lr, llr = _decl_flat(ip)
    sp_integral2d(ip, st, [pos[0], pos[2], pos[3], Num(T("0", "Int"))], {})          # (declares integral2d)
    b2, b1 = lst_term(ip, st, pos[0], llr), lst_term(ip, st, pos[1], llr)
    e0, e1 = lst_term(ip, st, pos[2], lr), lst_term(ip, st, pos[3], lr)
    prem, concl = integral2d_scaled_stmt(lr, llr, b2.s, b1.s, e0.s, e1.s, to_real(ip.num(pos[4])).s, to_real(ip.num(pos[5])).s,
                                         ip.num(pos[6]).s, "li%d" % next(ip.bound))
    return Bool(T("(=> %s %s)" % (prem, concl), "Bool"))


def lemma_2d_build(ip, st):
    """base n <= 0; step-a: the premise for n gives the premise for n - 1; step-b: premise(n), conclusion(n - 1) and the
    defining equations of integral2d at n give conclusion(n).  integral2d, ri2, ci2 are left uninterpreted here: only the
    instances of the defining equation written below are used."""
    from pyvc.interp import VC
    reg = ip.reg
    lr = reg.lst("Real")
    llr = reg.lst(lr)
    reg.ufun("ci2", ["Int", "Int"], "Int")
    reg.ufun("ri2", ["Int", "Int"], "Int")
    reg.fun_decl("integral2d", "(declare-fun integral2d (%s %s %s Int) Real)" % (llr, lr, lr))
    reg.fun_decl("vol2d", "(declare-fun vol2d (%s %s Int Int) Real)" % (lr, lr))
    b2, b1 = reg.new("new_bins", llr), reg.new("old_bins", llr)
    e0, e1 = reg.new("e0", lr), reg.new("e1", lr)
    num, den, n = reg.new("num", "Real"), reg.new("den", "Real"), reg.new("n", "Int")
    ny, cellk = _i2_parts(lr, llr)

    def definition(b, nn):
        k = "(- %s 1)" % nn
        r, c = "(ri2 %s %s)" % (ny(b), k), "(ci2 %s %s)" % (ny(b), k)
        vol = "(vol2d %s %s %s %s)" % (e0.s, e1.s, r, c)
        return "(= (integral2d {b} {e0} {e1} {n}) (ite (<= {n} 0) 0.0 (+ (integral2d {b} {e0} {e1} (- {n} 1)) (* {vol} {cell}))))".format(
            b=b, e0=e0.s, e1=e1.s, n=nn, vol=vol, cell=cellk(b, k))
    stmt = lambda nn: integral2d_scaled_stmt(lr, llr, b2.s, b1.s, e0.s, e1.s, num.s, den.s, nn)
    nm1 = "(- %s 1)" % n.s
    (p_n, c_n), (p_m, c_m) = stmt(n.s), stmt(nm1)
    base = st.copy()
    base.assume(T("(<= %s 0)" % n.s, "Bool"))
    base.assume(T(definition(b2.s, n.s), "Bool"))
    base.assume(T(definition(b1.s, n.s), "Bool"))
    ip.emit("lemma", "scaling lemma (integral2d): base case n <= 0", base, T("(=> %s %s)" % (p_n, c_n), "Bool"))
    sa = st.copy()
    sa.assume(T("(> %s 0)" % n.s, "Bool"))
    sa.assume(T(p_n, "Bool"))
    ip.emit("lemma", "scaling lemma (integral2d): step, the premise for n gives the premise for n - 1", sa, T(p_m, "Bool"))
    sb = st.copy()
    sb.assume(T("(> %s 0)" % n.s, "Bool"))
    sb.assume(T(p_n, "Bool"))
    sb.assume(T(c_m, "Bool"))
    sb.assume(T(definition(b2.s, n.s), "Bool"))
    sb.assume(T(definition(b1.s, n.s), "Bool"))
    ip.emit("lemma", "scaling lemma (integral2d): step n - 1 -> n", sb, T(c_n, "Bool"))
    ip.vcs.append(VC("cover requires", "cover", list(sb.pc), T("false", "Bool"), ""))


def register_lemma_2d(ix):
    from pyvc.verify import Lemma
    ix.spec_names["integral2d_scaled"] = sp_integral2d_scaled
    ix.lemma_functions = set(getattr(ix, "lemma_functions", ())) | {"integral2d_scaled"}
    if not any(l.name.startswith("integral2d:") for l in ix.lemmas):
        ix.lemmas.append(Lemma("integral2d: rescaling the cells rescales the integral", HF, ["C12"], lemma_2d_build,
                               notes="induction on the number of cells (row-major); used by histogram.scale[2-d] through lemmas=[...]"))
