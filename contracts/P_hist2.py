"""sidecar contracts (see tools/CONTRACTS_GUIDE.md)

P_hist2 -- graph structure, histogram -> graph / CSV conversions, 2-dimensional histograms, scale_to (property C12).
Sidecar contracts of lena/structures/graph.py, lena/structures/hist_functions.py, lena/output/to_csv.py,
lena/flow/group_scale.py, lena/structures/elements.py."""
from pyvc.contracts import Contract, LoopSpec, ClassSpec
from pyvc.smt import T
from pyvc.sym import Num

GR = "lena/structures/graph.py"
HF = "lena/structures/hist_functions.py"
HI = "lena/structures/histogram.py"
TC = "lena/output/to_csv.py"
GS = "lena/flow/group_scale.py"
SE = "lena/structures/elements.py"


def register(ix):
    from pyvc import lib_graph
    lib_graph.register(ix)          # functools.partial, map over lists of symbolic length, str.format
    register_graph_scale(ix)
    register_hist_to_csv(ix)


# ---------------------------------------------------------------------------------------------- graph objects
def graph_fields(d, e, scale_ty, alias=None):
    n = d + e
    cols = ["Lst[Real]"] * n
    for k, j in (alias or {}).items():
        cols[k] = "Same[%d]" % j
    return {"coords": "PyList[%d,%s]" % (n, ",".join(cols)) if n > 1 else "PyList[1,Lst[Real]]",
            "field_names": "Tuple[%s]" % ",".join(["Str"] * n),
            "_parsed_error_names": "PyList[%d,Tuple[Str['error'],Str,Str,Int]]" % e,
            "dim": "Int[%d]" % d, "_scale": scale_ty}


def graph_inv(d, e):
    """what graph.__init__ establishes (see its contract): dim coordinates first, then the error fields; the k-th parsed
    error is the field number dim + k and names one of the coordinates"""
    inv = []
    for k in range(e):
        inv.append("self._parsed_error_names[%d][3] == %d" % (k, d + k))
        inv.append("(" + " or ".join("self._parsed_error_names[%d][1] == self.field_names[%d]" % (k, c) for c in range(d)) + ")")
    for a in range(d):
        for b in range(a + 1, d):
            inv.append("self.field_names[%d] != self.field_names[%d]" % (a, b))
    return inv


def gname(d, e, scaled, alias=None):
    return "graph_%dc%de_%s%s" % (d, e, "scaled" if scaled else "unscaled",
                                  "".join("_a%d%d" % (k, j) for k, j in sorted((alias or {}).items())))


GRAPH_SHAPES = [(d, e) for d in (1, 2, 3) for e in (0, 1, 2, 3)]
# graphs whose columns are the SAME list object (column k is column j): the identity function graph([xs, xs]), symmetric
# errors graph([xs, ys, errs, errs], "x,y,error_y_low,error_y_high"), an error column that is a coordinate column
ALIASED = [(2, 0, {1: 0}), (2, 2, {3: 2}), (2, 1, {2: 0}), (3, 1, {2: 0}), (2, 1, {2: 1})]


def register_graph_scale(ix):
    """graph.scale docstring: `If other is None, return the scale of this graph.  If a numeric other is provided, rescale
    to that value.  If the graph has unknown or zero scale, rescaling that will raise LenaValueError. ... Only the last
    coordinate is rescaled. ... All errors are rescaled together with their coordinate.`
    C12: `multiplies exactly ... the last coordinate and its error columns by s/old scale, leaves ... the other
    coordinates untouched ... raises LenaValueError for a zero or unknown scale`.
    Which error column belongs to which coordinate is what graph.__init__ parsed (`_parsed_error_names[k][1]`, see its
    contract below): column dim + k is rescaled iff that name is the name of the last coordinate."""
    ix.add(Contract(GR, "graph._get_err_indices", props=[], params={"self": "Any", "coord_name": "Any"}, inline=True))
    cases = []
    for d, e, alias in [(d, e, None) for d, e in GRAPH_SHAPES] + ALIASED:
        for scaled in (True, False):
            ix.add_class(ClassSpec(gname(d, e, scaled, alias), GR, alias_of="graph",
                                   fields=graph_fields(d, e, "Real" if scaled else "None", alias), invariant=graph_inv(d, e)))
        n = d + e
        last = "self.field_names[%d]" % (d - 1)
        tag = "%d coordinates, %d error fields%s" % (d, e, "".join(", column %d is column %d" % (k, j)
                                                                   for k, j in sorted((alias or {}).items())))

        def resc(k):
            if k == d - 1:
                return "True"
            if k < d:
                return "False"
            return "(self._parsed_error_names[%d][1] == %s)" % (k - d, last)
        ens = ["self._scale == other"]
        same = []
        for k in range(n):
            col, oldc = "self.coords[%d]" % k, "old(self.coords[%d])" % k
            ens.append("len(%s) == len(%s)" % (col, oldc))
            ens.append("all(%s[i] == (%s[i] * (other / old(self._scale)) if %s else %s[i]) for i in range(len(%s)))"
                       % (col, oldc, resc(k), oldc, col))
            # (ground instance of the clause above: the first point)
            ens.append("len(%s) > 0 implies %s[0] == (%s[0] * (other / old(self._scale)) if %s else %s[0])"
                       % (oldc, col, oldc, resc(k), oldc))
            same.append("len(%s) == len(%s)" % (col, oldc))
            same.append("all(%s[i] == %s[i] for i in range(len(%s)))" % (col, oldc, col))
        # the list OBJECTS of the coordinates before the last one are not written to either (frame); the rescaled
        # columns may be new lists or the old ones changed in place (the property speaks about their content)
        mod = ["self.coords", "self._scale"] + ["self.coords[%d]" % k for k in range(d - 1, n)
                                                if not (alias and any(alias.get(k2, k2) == alias.get(k, k) and k2 < d - 1
                                                                      for k2 in range(n)))]
        cases.append(Contract(
            GR, "graph.scale", name="graph.scale[set, %s]" % tag,
            params={"self": "Self[%s]" % gname(d, e, True, alias), "other": "Real"}, result=None,
            raises={"LenaValueError": "self._scale == 0"},
            exc_ensures={"LenaValueError": same + ["self._scale == old(self._scale)"]}, raises_frame="pure",
            ensures=ens, modifies=mod))
        if alias:
            continue
        cases.append(Contract(
            GR, "graph.scale", name="graph.scale[set, unknown scale, %s]" % tag,
            params={"self": "Self[%s]" % gname(d, e, False), "other": "Real"}, result=None,
            raises={"LenaValueError": "True"}, exc_ensures={"LenaValueError": same + ["self._scale is None"]},
            raises_frame="pure", modifies=[]))
        cases.append(Contract(
            GR, "graph.scale", name="graph.scale[get, %s]" % tag,
            params={"self": "Self[%s]" % gname(d, e, True), "other": "None"}, defaults={"other": None}, result="Real",
            ensures=["result == self._scale"] + same, modifies=[]))
        cases.append(Contract(
            GR, "graph.scale", name="graph.scale[get, unknown scale, %s]" % tag,
            params={"self": "Self[%s]" % gname(d, e, False), "other": "None"}, defaults={"other": None}, result="None",
            ensures=same, modifies=[]))
    ix.add(Contract(GR, "graph.scale", props=["C12"], cases=cases))


# ---------------------------------------------------------------------------------------------- hist1d_to_csv, hist2d_to_csv
H1_REQ = ["len(hist.edges) >= 2", "len(hist.bins) == len(hist.edges) - 1"]
LINE1 = "'{{:f}}{{}}{{:f}}'.format({x}, separator, {c})"
LINE2 = "'{{:f}}{{}}{{:f}}{{}}{{:f}}'.format({x}, separator, {y}, separator, {c})"


def register_hist_to_csv(ix):
    """hist1d_to_csv docstring: `Yield CSV-formatted strings for a one-dimensional histogram.`  ToCSV docstring: `If
    duplicate_last_bin is True, then for histograms contents of the last bin will be written in the end twice. ... if last
    bin is from 9 to 10, then the plot may end on 9, while this parameter allows to write bin content at 10`.
    C12: `ToCSV writes one row per cell (plus the rows duplicating the last edge when requested)`; every row is
    `<lower edge(s)><separator><content>` of ITS cell, in the order of iter_bins.
    The text of a number is an uninterpreted function of the format spec and the number (pyvc/lib_graph.py)."""
    from pyvc.contracts import ClassSpec
    ix.add_class(ClassSpec("histogram_csv1", HI, alias_of="histogram",
                           fields={"edges": "Lst[Real]", "bins": "Lst[Real]", "dim": "Int[1]"}))
    n = "len(hist.bins)"

    def h1(name, header_ty, h, first):
        row = lambda k: LINE1.format(x="hist.edges[%s]" % k, c="hist.bins[%s]" % k)
        dup = LINE1.format(x="hist.edges[%s]" % n, c="hist.bins[%s - 1]" % n)
        rows = ["all(out[%s + k] == %s for k in range(%s))" % (h, row("k"), n)]
        return Contract(
            TC, "hist1d_to_csv", name="hist1d_to_csv[%s]" % name, ghost={"str_format": True},
            params={"hist": "Inst[histogram_csv1]", "header": header_ty, "separator": "Str", "duplicate_last_bin": "Bool"},
            defaults={"header": None, "separator": ",", "duplicate_last_bin": True},
            generator=True, yields="Key", requires=H1_REQ,
            loops={0: LoopSpec(invariant=["len(out) == %s + _i" % h, "_i <= %s" % n] + first +
                               ["all(out[%s + k] == %s for k in range(_i))" % (h, row("k"))],
                               # (`bin_content = None` before the loop; the body assigns it before it is read)
                               ghost={"bin_content": "Real"})},
            ensures=["len(out) == %s + %s + (1 if duplicate_last_bin else 0)" % (h, n)] + first + rows +
                    ["duplicate_last_bin implies out[%s + %s] == %s" % (h, n, dup),
                     # (ground instances: the first and the last cell)
                     "out[%s] == %s" % (h, row("0")), "out[%s + %s - 1] == %s" % (h, n, row("%s - 1" % n))],
            modifies=[])
    H = "(1 if header != '' else 0)"
    ix.add(Contract(
        TC, "hist1d_to_csv", props=["C12"],
        cases=[h1("no header", "None", "0", []),
               h1("header", "Str", H, ["header != '' implies out[0] == header"])]))
