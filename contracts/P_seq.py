"""P_seq -- C05 / C01: the fill sequences (lena/core/fill_seq.py, fill_compute_seq.py, fill_request_seq.py) and
lena/core/meta.py (flatten, alter_sequence); the regrouping lemma of C01 and the result-level statement of C05 as Lemma units.

Constructors (arity-wise, 0..3 arguments; every element kind through the abstract predicates callable / callable_m / has_attr):
  FillSeq.__init__            which arguments are taken as they are / converted with adapters.FillInto (and which fill_into
                              the adapter gets), the chain of _Fill links, `fill` of the sequence = fill of the head of the chain,
                              LenaTypeError iff no argument / last one without fill / one that FillInto refuses
  FillComputeSeq.__init__     the FIRST fill/compute element is THE element; FillSeq of everything up to it, Sequence of the
  _init_sequence_with_el      rest; LenaTypeError iff there is none or one of the two refuses an argument (same for the first
  FillRequestSeq.__init__     fill/request element; one tuple argument is expanded); the keyword arguments go to the
                              FillRequest adapter the sequence runs through (one more case of FillRequest.__init__: around a
                              FillRequestSeq); run of the sequence IS _run_fill_compute of that adapter (C16)
The constructor contracts ASSUMED in contracts/P_split.py are replaced by these (replace()); its clauses about FillRequestSeq
are re-worded from ghost fields to the real attributes (retarget_split_contracts).
Fill chain: _Fill.fill for two callables before the last element, FillInto.fill_into filling a link of the chain.
Lemmas: R1-R3 (seq_run over equal segments / of a concatenation / with a nested sequence = regrouping), and for 0..2 callables
before the accumulator: FillComputeSeq filled value by value, then computed == Sequence.run on the same flow.
meta.py: flatten (element, flat tuple, flat and nested sequence objects: every element once, in order; flat input = same object),
alter_sequence (original object for elements / sequence objects without the hook, for tuples and nested sequences; an element
with the hook: what its hook returns).

Findings on the unchanged tree (props=[] / reported): FillRequestSeq with exactly the documented keywords (bufsize, reset)
always raises LenaValueError; meta.alter_sequence drops what the hook of an element of a Sequence returns (see report).
Not reached: the hook of an element INSIDE a sequence object (`el.alter_sequence(seq)` with a sequence object as argument and
`new_seq == seq` between sequence objects are not modelled); elements with their own fill_into inside the chain (no denotation for a user
fill_into); sequence objects given as ABSTRACT objects (iteration over an abstract object is not modelled)."""
from pyvc.contracts import Contract, LoopSpec, ClassSpec

AD = "lena/core/adapters.py"
FS = "lena/core/fill_seq.py"
FCS = "lena/core/fill_compute_seq.py"
FRS = "lena/core/fill_request_seq.py"
MT = "lena/core/meta.py"
SQ = "lena/core/sequence.py"
LS = "lena/core/lena_sequence.py"

HAS_FILL = "callable_m({e}, 'fill')"
HAS_FI = "(has_attr({e}, 'fill_into') and callable_m({e}, 'fill_into'))"
IS_RUN = "(has_attr({e}, 'run') and callable_m({e}, 'run'))"
# what adapters.FillInto accepts without a method name (contracts/C05.py, FillInto.__init__[no method name])
FI_CONV = ("(callable_m({e}, 'fill_into') or (callable({e}) and not is_instance_of({e}, 'Split')) or "
           "(" + IS_RUN + " and has_attr({e}, '_can_break_flow')))")


def fill_into_clauses(e, d):
    """the item `d` of a FillSeq stands for the argument `e`: `convert all elements except last to FillInto (if needed)` --
    an element with fill_into is taken as it is; FillInto: `fill_into method is searched, then __call__, then run`"""
    fi, call = HAS_FI.format(e=e), "(callable(%s) and not is_instance_of(%s, 'Split'))" % (e, e)
    return ["%s implies %s is %s" % (fi, d, e),
            "not %s implies is_instance_of(%s, 'FillInto') and %s._el is %s" % (fi, d, d, e),
            # a callable keeps the default implementation element.fill(el(value)); a run element that can break the flow
            # fills every result of running the one-value flow
            "not callable_m(%s, 'fill_into') and %s implies %s.fill_into is class_method(%s, 'fill_into')" % (e, call, d, d),
            "not callable_m(%s, 'fill_into') and not %s implies %s.fill_into is class_method(%s, '_run_fill_into')" % (e, call, d, d)]


def under(guard, clause):
    """`guard implies clause` for a clause that may be an implication itself (the textual `implies` does not nest)"""
    if " implies " in clause:
        a, b = clause.split(" implies ", 1)
        return "%s and %s implies %s" % (guard, a, b)
    return "%s implies %s" % (guard, clause)


def chain_clauses(root, data, k, last):
    """the _Fill chain hanging at `root` over the k converted elements data[0..k) ends at the element `last`"""
    out, link = [], root
    for i in range(k):
        out += ["is_instance_of(%s, '_Fill')" % link, "%s._fill_into_el is %s[%d]" % (link, data, i)]
        link += "._fill_el"
    out.append("%s is %s" % (link, last))
    return out


def register_fill_seq(ix):
    # the two assignments of _Fill.__init__ are executed in place (the fields hold elements, adapters or other _Fill objects)
    ix.add_class(ClassSpec("_Fill0", FS, fields={}, alias_of="_Fill"))
    ix.add(Contract(FS, "_Fill.__init__", props=[], inline=True,
                    params={"self": "Self[_Fill0]", "fill_into_el": "Any", "fill_el": "Any"}))
    ix.add_class(ClassSpec("FillSeq", FS, fields={}, bases=["LenaSequence"]))
    # (callers see the items of the two lists as abstract objects: an adapter made here is an object d with
    # is_instance_of(d, 'FillInto') and the data attribute d._el, ghost obj_attrs)
    # `fill` is some callable (proved: callable(self.fill)); for one argument callers also learn which (its own fill)
    ix.add_class(ClassSpec("FillSeq0", FS, fields={"_seq": "Lst[Obj]", "_data_seq": "Lst[Obj]", "fill": "OpaqueFn"},
                           alias_of="FillSeq", bases=["LenaSequence"]))
    MOD = ["self._name", "self._seq", "self._data_seq", "self._static_context", "self._exc", "self._fill_el", "self.fill"]

    def fs_init(n):
        a = lambda i: "args[%d]" % i
        nodata = ["not has_attr(%s, '_has_no_data')" % a(i) for i in range(n)]
        bad = ["not " + HAS_FILL.format(e=a(n - 1))] + ["not (%s or %s)" % (HAS_FI.format(e=a(i)), FI_CONV.format(e=a(i)))
                                                       for i in range(n - 1)]
        ens = ["len(self._seq) == %d" % n, "len(self._data_seq) == %d" % n, "self._data_seq[%d] is %s" % (n - 1, a(n - 1))]
        for i in range(n):
            ens.append("self._seq[%d] is %s" % (i, a(i)))
        for i in range(n - 1):
            ens += fill_into_clauses(a(i), "self._data_seq[%d]" % i)
        # `transform FillInto elements into _Fill`: the chain  _Fill(d0, _Fill(d1, ... _Fill(d[n-2], last)))  -- the value filled
        # into the sequence enters at the FIRST element, every link hands what it makes of it to the next, the last is filled
        ens += chain_clauses("self._fill_el", "self._data_seq", n - 1, a(n - 1))
        # FillSeq.fill IS the fill of the head of the chain (of the last element itself when there is nothing before it)
        ens.append("self.fill is method(%s, 'fill')" % a(0) if n == 1 else "self.fill is class_method(self._fill_el, 'fill')")
        ens.append("callable(self.fill)")
        return Contract(FS, "FillSeq.__init__", name="FillSeq.__init__[%d elements]" % n,
                        params={"self": "Self[FillSeq0]", "args": "Tuple[%s]" % ",".join(["Obj"] * n)}, vararg="args",
                        requires=nodata, raises={"LenaTypeError": " or ".join(bad)}, ensures=ens, modifies=MOD)
    ix.add(Contract(FS, "FillSeq.__init__", props=["C05"], cases=[
        Contract(FS, "FillSeq.__init__", name="FillSeq.__init__[no arguments]",
                 params={"self": "Self[FillSeq0]", "args": "Tuple[]"}, vararg="args",
                 raises={"LenaTypeError": "True"}),
        fs_init(1), fs_init(2), fs_init(3)]))


IS_FC = "(has_attr({e}, 'fill') and has_attr({e}, 'compute') and callable_m({e}, 'fill') and callable_m({e}, 'compute'))"
IS_FR = "(has_attr({e}, 'fill') and has_attr({e}, 'request') and callable_m({e}, 'fill') and callable_m({e}, 'request'))"
# what Sequence accepts as an element (contracts/C01.py: Sequence.__init__)
SEQ_EL = "(" + IS_RUN + " or callable({e}) or " + IS_FC + ")"
# what FillSeq accepts before its last element
FS_EL = "(" + HAS_FI + " or " + FI_CONV + ")"


def run_clauses(e, d):
    """the item `d` of a Sequence stands for the argument `e` (C01 / C05: an element with run is taken as it is, a callable
    is mapped over the flow, a fill/compute element is filled with the whole flow and then computed)"""
    hr = IS_RUN.format(e=e)
    return ["%s implies %s is %s" % (hr, d, e),
            "not %s implies is_instance_of(%s, 'Run') and %s._el is %s" % (hr, d, d, e),
            "not %s and callable(%s) implies %s.run is class_method(%s, '_call_run')" % (hr, e, d, d),
            "not %s and not callable(%s) implies %s.run is class_method(%s, '_fc_run')" % (hr, e, d, d)]


ARG = lambda i: "args[%d]" % i


def first_is(kind, n, k, a=ARG):
    """the first argument of kind `kind` among args[0..n) is args[k]"""
    return "(" + " and ".join(["not " + kind.format(e=a(i)) for i in range(k)] + [kind.format(e=a(k))]) + ")"


def split_bad(kind, n, a=ARG):
    """LenaTypeError of the two constructors: no element of the kind, or an element before it that FillSeq refuses, or an
    element after it that Sequence refuses"""
    none = "(" + (" and ".join("not " + kind.format(e=a(i)) for i in range(n)) or "True") + ")"
    alts = [none]
    for k in range(n):
        bad = ["not " + FS_EL.format(e=a(i)) for i in range(k)] + ["not " + SEQ_EL.format(e=a(j)) for j in range(k + 1, n)]
        if bad:
            alts.append("(%s and (%s))" % (first_is(kind, n, k, a), " or ".join(bad)))
    return " or ".join(alts)


def split_clauses(kind, n, attr, a=ARG):
    """what `_init_sequence_with_el` / FillComputeSeq.__init__ document: the FIRST element of the kind is THE element
    (`only the first one is chosen, the subsequent ones are used as simple Run elements`); what stands before it becomes a
    FillSeq that ends in it, what follows a Sequence"""
    out = []
    for k in range(n):
        # the FillSeq of the arguments up to and including the element (FillSeq.__init__: its _seq are its arguments, its
        # _data_seq their FillInto conversions); filling the sequence IS filling that FillSeq
        cl = ["self.%s is %s" % (attr, a(k)), "is_instance_of(self._fill_seq, 'FillSeq')", "self.fill is self._fill_seq.fill",
              "len(self._fill_seq._seq) == %d" % (k + 1), "len(self._fill_seq._data_seq) == %d" % (k + 1),
              "self._fill_seq._data_seq[%d] is %s" % (k, a(k))]
        for i in range(k + 1):
            cl.append("self._fill_seq._seq[%d] is %s" % (i, a(i)))
        for i in range(k):
            cl += fill_into_clauses(a(i), "self._fill_seq._data_seq[%d]" % i)[:2]
        # the Sequence of the arguments after it
        cl += ["is_instance_of(self._after, 'Sequence')", "len(self._after._data_seq) == %d" % (n - k - 1),
               "len(self._after._seq) == %d" % (n - k - 1)]
        for j in range(k + 1, n):
            cl.append("self._after._seq[%d] is %s" % (j - k - 1, a(j)))
            cl += run_clauses(a(j), "self._after._data_seq[%d]" % (j - k - 1))[:2]
        out += [under(first_is(kind, n, k, a), c) for c in cl]
    return out


def register_fill_compute_seq(ix):
    """FillComputeSeq.__init__: `args form a sequence with a FillCompute element.  If args contain several FillCompute
    elements, only the first one is chosen (the subsequent ones are used as simple Run elements) ...  If FillCompute element
    was not found, or if the sequences before and after that could not be correctly initialized, LenaTypeError is raised.`"""
    if "FillComputeSeq" in ix.classes:
        ix.classes["FillComputeSeq"].bases = ["LenaSequence"]
    else:
        ix.add_class(ClassSpec("FillComputeSeq", FCS, fields={}, bases=["LenaSequence"]))
    ix.add_class(ClassSpec("FillComputeSeq0", FCS, alias_of="FillComputeSeq", bases=["LenaSequence"],
                           fields={"_seq": "Lst[Obj]", "_data_seq": "Lst[Obj]", "_fill_compute": "Obj", "fill": "OpaqueFn",
                                   "_fill_seq": "Inst[FillSeq0]", "_after": "Inst[Sequence_t]"}))
    MOD = ["self._name", "self._seq", "self._data_seq", "self._static_context", "self._exc", "self._fill_compute",
           "self._fill_seq", "self.fill", "self._after"]

    def fcs_init(n):
        a = lambda i: "args[%d]" % i
        ens = ["len(self._seq) == %d" % n, "len(self._data_seq) == %d" % n]
        for i in range(n):
            ens += ["self._seq[%d] is %s" % (i, a(i)), "self._data_seq[%d] is %s" % (i, a(i))]
        return Contract(FCS, "FillComputeSeq.__init__", name="FillComputeSeq.__init__[%d elements]" % n,
                        params={"self": "Self[FillComputeSeq0]", "args": "Tuple[%s]" % ",".join(["Obj"] * n)}, vararg="args",
                        requires=["not has_attr(%s, '_has_no_data')" % a(i) for i in range(n)],
                        raises={"LenaTypeError": split_bad(IS_FC, n)},
                        ensures=ens + split_clauses(IS_FC, n, "_fill_compute"), modifies=MOD, max_paths=20000,
                        ghost={"obj_attrs": {"_el": "Obj"}})
    replace(ix, Contract(FCS, "FillComputeSeq.__init__", props=["C05"], cases=[fcs_init(n) for n in (0, 1, 2, 3)]))


def register_fill_request_seq(ix):
    """_init_sequence_with_el (the constructor of FillRequestSeq): as FillComputeSeq.__init__, for the element kind the caller
    names; `args can consist of one tuple, which in that case is expanded`"""
    if "FillRequestSeq" in ix.classes:
        ix.classes["FillRequestSeq"].bases = ["LenaSequence"]
    else:
        ix.add_class(ClassSpec("FillRequestSeq", FRS, fields={}, bases=["LenaSequence"]))
    # per number of arguments: the data sequence has exactly that many items (the arguments); `fill` is some callable (the
    # fill of the head of the FillSeq chain: proved as `callable(self.fill)`; callers learn no more about it)
    # the FillRequest adapter a FillRequestSeq keeps (`self._fr`), as callers of the constructor see it
    ix.add_class(ClassSpec("FillRequest_of_seq", AD, alias_of="FillRequest",
                           fields={"bufsize": "Int", "_reset": "Bool", "_buffer_input": "Bool", "_yield_on_remainder": "Bool"}))
    for n in (0, 1, 2, 3):
        ix.add_class(ClassSpec("FillRequestSeq_c%d" % n, FRS, alias_of="FillRequestSeq", bases=["LenaSequence"],
                               fields={"_data_seq": "PyList[%d,Obj]" % n, "fill": "OpaqueFn", "_fill_request": "Obj",
                                       "_fill_seq": "Inst[FillSeq0]", "_after": "Inst[Sequence_t]", "_seq": "Lst[Obj]",
                                       "_fr": "Inst[FillRequest_of_seq]", "_reset": "Bool"}))
    MOD = ["self._data_seq", "self._fill_request", "self._fill_seq", "self.fill", "self._after"]
    # iterating a sequence object (`self._data_seq.extend(self._fill_seq)`): its real __iter__ is executed in place
    ix.add(Contract(LS, "LenaSequence.__iter__", props=[], inline=True, params={"self": "Any"}))

    def ise(n, one_tuple=False):
        # `args can consist of one tuple, which in that case is expanded`
        a = (lambda i: "args[0][%d]" % i) if one_tuple else ARG
        objs = "Tuple[%s]" % ",".join(["Obj"] * n)
        ens = ["len(self._data_seq) == %d" % n]
        for i in range(n):
            ens.append("self._data_seq[%d] is %s" % (i, a(i)))
        return Contract(FCS, "_init_sequence_with_el", name="_init_sequence_with_el[FillRequest, %s%d elements]" % (
                            "one tuple of " if one_tuple else "", n),
                        params={"self": "Self[FillRequestSeq_c%d]" % n, "args": "Tuple[%s]" % objs if one_tuple else objs,
                                "el_attr": "Str['_fill_request']",
                                "check_el_type": "Def[lena.core.check_sequence_type.is_fill_request_el]",
                                "el_name": "Str", "seq_name": "Str"},
                        requires=["not has_attr(%s, '_has_no_data')" % a(i) for i in range(n)] +
                                 ["not isinstance(%s, tuple)" % a(0)] * (n == 1 and not one_tuple),
                        raises={"LenaTypeError": split_bad(IS_FR, n, a)},
                        ensures=ens + ["callable(self.fill)"] * (n > 0) + split_clauses(IS_FR, n, "_fill_request", a),
                        modifies=MOD, max_paths=20000,
                        ghost={"obj_attrs": {"_el": "Obj"}})
    ix.add(Contract(FCS, "_init_sequence_with_el", props=["C05"], cases=[ise(n) for n in (0, 1, 2, 3)] + [ise(2, True)]))


def register_fill_request_seq_init(ix):
    """FillRequestSeq.__init__: `args form a sequence with a FillRequest element ...  kwargs can contain bufsize or reset.  See
    FillRequest for more information on them.  By default bufsize is 1.  If FillRequest element was not found, the sequences
    could not be correctly initialized, or unknown keyword arguments were received, LenaTypeError is raised.`"""
    # ---- the FillRequest adapter around the sequence itself (one more case of the C16 contract of FillRequest.__init__)
    ix.add_class(ClassSpec("FillRequestSeq_v", FRS, alias_of="FillRequestSeq", bases=["LenaSequence"], fields={"fill": "OpaqueFn"}))
    ix.add_class(ClassSpec("FillRequest0s", AD, alias_of="FillRequest", fields={"_buffer_input": "Bool", "_n_count": "Int"}))
    fr_init = ix.by_key[(AD, "FillRequest.__init__")]
    for bity in ("Bool", "None"):
        VALUE_BAD = "(bufsize < 1 or (not yield_on_remainder and not buffer_input))" if bity == "Bool" else \
                    "(bufsize < 1 or not yield_on_remainder)"
        fr_init.cases.append(Contract(
            AD, "FillRequest.__init__", name="FillRequest.__init__[around a FillRequestSeq, buffer_input:%s]" % bity,
            params={"self": "Self[FillRequest0s]", "el": "Inst[FillRequestSeq_v]", "bufsize": "Int", "reset": "Bool",
                    "buffer_input": bity, "buffer_output": "None", "yield_on_remainder": "Bool", "fill": "Str['fill']",
                    "request": "Str['request']", "reset_name": "Str['reset']"},
            # the sequence has fill (installed by its constructor), request and reset: no LenaTypeError; `bufsize must be a
            # natural number`, `one and only one of buffer_input or buffer_output must be True` (buffer_output is not given)
            raises={"LenaValueError": VALUE_BAD},
            ensures=["self._el is el", "self.bufsize == bufsize", "self._reset == reset",
                     "self._buffer_input == (True if buffer_input else False)",
                     "self._yield_on_remainder == yield_on_remainder", "self._n_count == 0",
                     # it fills / requests / resets the SEQUENCE, block by block (no run method there: _run_fill_compute)
                     "self._el_fill is el.fill", "self._el_request is class_method(el, 'request')",
                     "self._el_reset is class_method(el, 'reset')", "self.run is class_method(self, '_run_fill_compute')"],
            modifies=["self._el_reset", "self._reset", "self._buffer_input", "self.run", "self._el_fill", "self._n_count",
                      "self._buffer_in", "self._buffer_out", "self._el_request", "self.bufsize", "self._yield_on_remainder",
                      "self._el"]))
    # ---- the constructor
    MOD = ["self._data_seq", "self._fill_request", "self._fill_seq", "self.fill", "self._after", "self._fr", "self._reset",
           "self.run", "self._seq", "self._static_context", "self._exc"]

    def frs_init(n):
        a = ARG
        tbad = split_bad(IS_FR, n)
        ens = ["len(self._seq) == %d" % n, "len(self._data_seq) == %d" % n]
        for i in range(n):
            ens += ["self._seq[%d] is %s" % (i, a(i)), "len(self._data_seq) == %d implies self._data_seq[%d] is %s" % (n, i, a(i))]
        ens += [
            # the FillRequest adapter that runs the sequence: around the sequence itself, with the keyword arguments given
            "is_instance_of(self._fr, 'FillRequest')", "self._fr._el is self", "self._fr.bufsize == kwargs['bufsize']",
            "self._fr._reset == kwargs['reset']", "self._fr._buffer_input == kwargs['buffer_input']",
            "not self._fr._yield_on_remainder", "self._reset == kwargs['reset']",
            # run of the sequence IS the run of that adapter: the block discipline of C16
            "self.run is class_method(self._fr, '_run_fill_compute')"]
        return Contract(
            FRS, "FillRequestSeq.__init__", name="FillRequestSeq.__init__[%d elements, bufsize / reset / buffer_input]" % n,
            params={"self": "Self[FillRequestSeq_c%d]" % n, "args": "Tuple[%s]" % ",".join(["Obj"] * n),
                    "kwargs": "KwDict[bufsize:Int,reset:Bool,buffer_input:Bool]"}, vararg="args", kwarg="kwargs",
            requires=["not has_attr(%s, '_has_no_data')" % a(i) for i in range(n)] +
                     ["not isinstance(%s, tuple)" % a(0)] * (n == 1),
            raises={"LenaTypeError": tbad,
                    "LenaValueError": "not (%s) and (kwargs['bufsize'] < 1 or not kwargs['buffer_input'])" % tbad},
            # (which callable `fill` is, is stated by _init_sequence_with_el; its callers only learn that it is one)
            ensures=ens + [c for c in split_clauses(IS_FR, n, "_fill_request", a) if "self.fill is" not in c],
            modifies=MOD, max_paths=20000, ghost={"obj_attrs": {"_el": "Obj"}})
    # FINDING on the unchanged tree (props=[]; run with tools/dbg.py lena/core/fill_request_seq.py "FillRequestSeq.__init__#documented-kwargs"):
    # the docstring: `kwargs can contain bufsize or reset ...  By default bufsize is 1` and LenaTypeError as the only exception.
    # With exactly these keywords (no buffer_input, which the docstring does not mention) the FillRequest adapter refuses:
    # LenaValueError `one and only one of buffer_input or buffer_output must be set` -- for every element and every value.
    tbad1 = split_bad(IS_FR, 1)
    ix.add(Contract(
        FRS, "FillRequestSeq.__init__", qualkey="FillRequestSeq.__init__#documented-kwargs",
        name="FillRequestSeq.__init__[1 element, the documented keywords bufsize and reset] (FAILS: new finding)", props=[],
        params={"self": "Self[FillRequestSeq_c1]", "args": "Tuple[Obj]", "kwargs": "KwDict[bufsize:Int,reset:Bool]"},
        vararg="args", kwarg="kwargs",
        requires=["not has_attr(args[0], '_has_no_data')", "not isinstance(args[0], tuple)", "kwargs['bufsize'] >= 1"],
        raises={"LenaTypeError": tbad1},
        ensures=["self._fr.bufsize == kwargs['bufsize']", "self._fr._reset == kwargs['reset']", "self._fill_request is args[0]"],
        modifies=MOD, ghost={"obj_attrs": {"_el": "Obj"}}))
    return [frs_init(n) for n in (1, 2)]


def register_meta(ix):
    """lena/core/meta.py (property C01: `regrouping the same elements into nested Sequences ... never changes the result`;
    mechanism `flatten / alter_sequence keep element order`).
    flatten: every element exactly once, in order, nested sequence objects unrolled; `return unchanged` for a flat input (the
    very same object) and for an element.  alter_sequence: a tuple, an element without the hook, and a sequence object none
    of whose elements defines the hook `alter_sequence` come back as they are (the very same object)."""
    NOSEQ = "not is_instance_of({e}, 'LenaSequence')"
    NOHOOK = "not (has_attr({e}, 'alter_sequence') and callable_m({e}, 'alter_sequence'))"
    # sequence objects of a concrete length (what flatten uses of them: isinstance, iteration over the arguments `_seq`)
    ix.add_class(ClassSpec("SeqObj2", SQ, alias_of="Sequence", bases=["LenaSequence"], fields={"_seq": "Tuple[Obj,Obj]"}))
    ix.add_class(ClassSpec("SeqObj1", SQ, alias_of="Sequence", bases=["LenaSequence"], fields={"_seq": "Tuple[Obj]"}))
    ix.add_class(ClassSpec("SeqObjNested", SQ, alias_of="Sequence", bases=["LenaSequence"],
                           fields={"_seq": "Tuple[Inst[SeqObj2],Obj]"}))
    ix.add_class(ClassSpec("SeqObjNested2", SQ, alias_of="Sequence", bases=["LenaSequence"],
                           fields={"_seq": "Tuple[Obj,Inst[SeqObjNested]]"}))
    flat_seq = lambda name, ty: Contract(
        MT, "flatten", name="flatten[flat sequence object, %s]" % name, params={"seq": ty}, result="Any", result_alias="seq",
        requires=[NOSEQ.format(e="seq._seq[%d]" % i) for i in range(int(ty[-2]))], raises={})

    def lst(name, ty, req, items):
        return Contract(MT, "flatten", name="flatten[%s]" % name, params={"seq": ty}, result="PyList[%d,Obj]" % len(items),
                        requires=[NOSEQ.format(e=e) for e in req], raises={},
                        ensures=["len(result) == %d" % len(items)] + ["result[%d] is %s" % (k, e) for k, e in enumerate(items)] +
                                ["is_fresh(result)"])
    cases = [
        Contract(MT, "flatten", name="flatten[element]", params={"seq": "Obj"}, result="Obj", ensures=["result is seq"],
                 requires=[NOSEQ.format(e="seq"), "not isinstance(seq, tuple)"], raises={})]
    for n in (0, 1, 2, 3):
        cases.append(Contract(MT, "flatten", name="flatten[flat tuple of %d elements]" % n,
                              params={"seq": "Tuple[%s]" % ",".join(["Obj"] * n)}, result="Any", ensures=["result is seq"],
                              requires=[NOSEQ.format(e="seq[%d]" % i) for i in range(n)], raises={}))
    cases += [
        flat_seq("one element", "Inst[SeqObj1]"), flat_seq("two elements", "Inst[SeqObj2]"),
        # nested sequence objects are unrolled in place: (e, S(a, b)) -> [e, a, b] ...
        lst("tuple (element, Sequence(a, b))", "Tuple[Obj,Inst[SeqObj2]]", ["seq[0]", "seq[1]._seq[0]", "seq[1]._seq[1]"],
            ["seq[0]", "seq[1]._seq[0]", "seq[1]._seq[1]"]),
        lst("tuple (Sequence(a, b), element, Sequence(c))", "Tuple[Inst[SeqObj2],Obj,Inst[SeqObj1]]",
            ["seq[0]._seq[0]", "seq[0]._seq[1]", "seq[1]", "seq[2]._seq[0]"],
            ["seq[0]._seq[0]", "seq[0]._seq[1]", "seq[1]", "seq[2]._seq[0]"]),
        # ... a sequence object holding a sequence object: Sequence(Sequence(a, b), e) -> [a, b, e]
        lst("Sequence(Sequence(a, b), element)", "Inst[SeqObjNested]", ["seq._seq[0]._seq[0]", "seq._seq[0]._seq[1]", "seq._seq[1]"],
            ["seq._seq[0]._seq[0]", "seq._seq[0]._seq[1]", "seq._seq[1]"]),
        # ... and at every depth: Sequence(e, Sequence(Sequence(a, b), f)) -> [e, a, b, f]
        lst("Sequence(element, Sequence(Sequence(a, b), element))", "Inst[SeqObjNested2]",
            ["seq._seq[0]", "seq._seq[1]._seq[0]._seq[0]", "seq._seq[1]._seq[0]._seq[1]", "seq._seq[1]._seq[1]"],
            ["seq._seq[0]", "seq._seq[1]._seq[0]._seq[0]", "seq._seq[1]._seq[0]._seq[1]", "seq._seq[1]._seq[1]"]),
    ]
    # callers (Cache.alter_sequence, contracts/P_out.py; alter_sequence below) execute flatten in place from its real text
    replace(ix, Contract(MT, "flatten", props=["C01"], inline=True, cases=cases))
    # ---- alter_sequence
    # len(seq) / seq[ind] of a sequence object of concrete length: the two one-line methods of LenaSequence are executed in
    # place for the view LenaSequence_v (the C16 contract of __len__ is typed for sequences of symbolic length)
    ix.add_class(ClassSpec("LenaSequence_v", LS, alias_of="LenaSequence", fields={}))
    for m in ("__len__", "__getitem__"):
        ix.add(Contract(LS, "LenaSequence." + m, qualkey="LenaSequence_v." + m, props=[], inline=True, params={"self": "Any"}))
    for cname in ("SeqObj1", "SeqObj2", "SeqObjNested"):
        ix.classes[cname].bases = ["LenaSequence_v"]
    same = dict(result="Any", ensures=["result is seq"], raises={})
    acases = [
        Contract(MT, "alter_sequence", name="alter_sequence[element without the hook]", params={"seq": "Obj"},
                 requires=[NOSEQ.format(e="seq"), "not isinstance(seq, tuple)", NOHOOK.format(e="seq")],
                 result="Obj", result_alias="seq", raises={})]
    # the hook of a single element: `return el.alter_sequence(el)` (e.g. a Cache with an up-to-date cache becomes a Source)
    def sp_hook_result(ip, st, pos, kws):
        from pyvc.smt import T
        from pyvc.sym import Opaque
        from pyvc.speclib import obj_term
        f = ip.reg.ufun("el_mo_alter_sequence", ["Obj", "Obj"], "Obj")
        return Opaque(T("(%s %s %s)" % (f, obj_term(pos[0]).s, obj_term(pos[1]).s), "Obj"))
    ix.spec_names["hook_result"] = sp_hook_result
    acases.append(Contract(
        MT, "alter_sequence", name="alter_sequence[element with the hook]", params={"seq": "Obj"},
        requires=[NOSEQ.format(e="seq"), "not isinstance(seq, tuple)", "has_attr(seq, 'alter_sequence')", "callable_m(seq, 'alter_sequence')"],
        result="Obj", ensures=["result is hook_result(seq, seq)"], raises={}))
    for n in (0, 1, 2, 3):
        # a tuple is not a sequence object: it is taken for one element (which has no hook) -- whatever its items define
        tty = "Tuple[%s]" % ",".join(["Obj"] * n)
        acases.append(Contract(MT, "alter_sequence", name="alter_sequence[tuple of %d elements]" % n, params={"seq": tty},
                               requires=[NOSEQ.format(e="seq[%d]" % i) for i in range(n)], result=tty, result_alias="seq",
                               raises={}))
    acases += [
        Contract(MT, "alter_sequence", name="alter_sequence[sequence object of one element without the hook]",
                 params={"seq": "Inst[SeqObj1]"}, requires=[NOSEQ.format(e="seq._seq[0]"), NOHOOK.format(e="seq._seq[0]")],
                 result="Any", result_alias="seq", raises={}),
        Contract(MT, "alter_sequence", name="alter_sequence[sequence object of two elements without the hook]",
                 params={"seq": "Inst[SeqObj2]"},
                 requires=[r.format(e="seq._seq[%d]" % i) for i in (0, 1) for r in (NOSEQ, NOHOOK)],
                 result="Any", result_alias="seq", raises={}),
        # nested sequences: flatten hands back a list, which is no sequence object: the original comes back
        Contract(MT, "alter_sequence", name="alter_sequence[tuple (element, Sequence(a, b))]",
                 params={"seq": "Tuple[Obj,Inst[SeqObj2]]"},
                 requires=[NOSEQ.format(e=e) for e in ("seq[0]", "seq[1]._seq[0]", "seq[1]._seq[1]")],
                 result="Tuple[Obj,Inst[SeqObj2]]", result_alias="seq", raises={}),
        Contract(MT, "alter_sequence", name="alter_sequence[Sequence(Sequence(a, b), element)]",
                 params={"seq": "Inst[SeqObjNested]"},
                 requires=[NOSEQ.format(e=e) for e in ("seq._seq[0]._seq[0]", "seq._seq[0]._seq[1]", "seq._seq[1]")],
                 result="Any", result_alias="seq", raises={}),
    ]
    # An abstract object -- also an item of a tuple -- may be a sequence OBJECT (a branch of Split given as a Sequence:
    # contracts/P_split.py); iterating an abstract object is not modelled.  For callers that pass abstract objects whose
    # class they do not restrict, the two assumed cases of P_split.py therefore stay in front (cases are chosen by type); the
    # proved cases below (elements and items that are no sequence objects; sequence objects of concrete shape) are verified
    # as units of their own and are what a caller gets that passes sequence objects of these shapes.
    prev = ix.by_key.get((MT, "alter_sequence"))
    kept = [c for c in ((prev.cases or []) if prev is not None else []) if c.trusted]
    replace(ix, Contract(MT, "alter_sequence", props=["C01", "C03"], cases=kept + acases))


# ---------------------------------------------------------------------------------------------- regrouping (C01)
# `regrouping the same elements into nested Sequences ... never changes the result`.  Sequence.run (contracts/C01.py) yields
# seq_run(els, xs, n): xs passed through the run of els[0..n) from left to right (pyvc/speclib.py).  Lemma objects over
# that DEFINITION only:
#   R1  two runs that start from equal flows and continue over equal segments of elements end in equal flows
#       (induction over the length of the segment; hypothesis = the statement for the segment without its last element);
#   R2  the run of a concatenation is the composition of the runs (two instances of R1);
#   R3  a sequence holding a NESTED sequence -- an element whose el_run is the fold over its own elements, which is what the
#       contract of Sequence.run says of a Sequence object -- runs like the flat sequence of the same elements (R1 thrice).
def _decl_seq_run(reg):
    sort, osort = reg.lst("V"), reg.lst("Obj")
    reg.ufun("el_run", ["Obj", sort], sort)
    reg.fun_decl("seq_run",
                 "(define-fun-rec seq_run ((es %s) (xs %s) (n Int)) %s "
                 "(ite (<= n 0) xs (el_run (select (arr_%s es) (- n 1)) (seq_run es xs (- n 1)))))" % (osort, sort, sort, osort))
    return sort, osort


def _alike(es, xs, a, es2, xs2, b, k):
    """R1 at these arguments (SMT text)"""
    return ("(=> (and (>= {a} 0) (>= {b} 0) (>= {k} 0) "
            "(forall ((j Int)) (=> (and (<= 0 j) (< j {k})) (= (select (arr_Lst_Obj {es}) (+ {a} j)) (select (arr_Lst_Obj {es2}) (+ {b} j))))) "
            "(= (seq_run {es} {xs} {a}) (seq_run {es2} {xs2} {b}))) "
            "(= (seq_run {es} {xs} (+ {a} {k})) (seq_run {es2} {xs2} (+ {b} {k}))))").format(es=es, xs=xs, a=a, es2=es2, xs2=xs2, b=b, k=k)


def _finish(ip, st, name, goal, cases=None):
    from pyvc.interp import VC
    from pyvc.smt import FALSE, T
    if cases:
        assert len(cases) == 2 and cases[1] == "(not %s)" % cases[0]      # exhaustive by form
        for c in cases:
            ip.emit("lemma", "%s [case %s]" % (name, c), st.fork(T(c, "Bool"), ""), T(goal, "Bool"))
    else:
        ip.emit("lemma", name, st, T(goal, "Bool"))
    ip.vcs.append(VC("cover requires", "cover", list(st.pc), FALSE, ""))
    ip.vcs.append(VC("canary ensures False#0", "canary", list(st.pc), FALSE, ""))


def _r1_instance(ip, st, *args):
    from pyvc.smt import T
    st.assume(T(_alike(*args), "Bool"))
    ip.assumptions.add("instances of lemma R1 (proved as a Lemma object in contracts/P_seq.py for arbitrary arguments) are "
                       "used as hypotheses")


def lem_r1(ip, st):
    from pyvc.smt import T
    reg = ip.reg
    sort, osort = _decl_seq_run(reg)
    es, es2 = reg.new("es", osort).s, reg.new("es2", osort).s
    xs, xs2 = reg.new("xs", sort).s, reg.new("xs2", sort).s
    a, b, k = reg.new("a", "Int").s, reg.new("b", "Int").s, reg.new("k", "Int").s
    st.assume(T(_alike(es, xs, a, es2, xs2, b, "(- %s 1)" % k), "Bool"))          # induction hypothesis
    _finish(ip, st, "R1: equal starts, equal segments of elements: equal results", _alike(es, xs, a, es2, xs2, b, k),
            cases=["(<= %s 0)" % k, "(not (<= %s 0))" % k])


def lem_r2(ip, st):
    reg = ip.reg
    sort, osort = _decl_seq_run(reg)
    es, es1, es2 = reg.new("es", osort).s, reg.new("es1", osort).s, reg.new("es2", osort).s
    xs = reg.new("xs", sort).s
    n1, n2 = reg.new("n1", "Int").s, reg.new("n2", "Int").s
    y = "(seq_run %s %s %s)" % (es1, xs, n1)
    _r1_instance(ip, st, es, xs, "0", es1, xs, "0", n1)
    _r1_instance(ip, st, es, xs, n1, es2, y, "0", n2)
    _finish(ip, st, "R2: seq_run of a concatenation is the composition of the seq_runs",
            "(=> (and (>= {n1} 0) (>= {n2} 0) "
            "(forall ((i Int)) (=> (and (<= 0 i) (< i {n1})) (= (select (arr_Lst_Obj {es}) i) (select (arr_Lst_Obj {es1}) i)))) "
            "(forall ((j Int)) (=> (and (<= 0 j) (< j {n2})) (= (select (arr_Lst_Obj {es}) (+ {n1} j)) (select (arr_Lst_Obj {es2}) j))))) "
            "(= (seq_run {es} {xs} (+ {n1} {n2})) (seq_run {es2} {y} {n2})))".format(es=es, es1=es1, es2=es2, xs=xs, n1=n1, n2=n2, y=y))


def lem_r3(ip, st):
    from pyvc.smt import T
    reg = ip.reg
    sort, osort = _decl_seq_run(reg)
    outer, flat, inner = reg.new("outer", osort).s, reg.new("flat", osort).s, reg.new("inner", osort).s
    xs = reg.new("xs", sort).s
    nested = reg.new("nested", "Obj").s
    p, m, q = reg.new("p", "Int").s, reg.new("m", "Int").s, reg.new("q", "Int").s
    sel = lambda l, i: "(select (arr_Lst_Obj %s) %s)" % (l, i)
    rng = lambda v, n, body: "(forall ((%s Int)) (=> (and (<= 0 %s) (< %s %s)) %s))" % (v, v, v, n, body)
    for h in ["(>= %s 0)" % p, "(>= %s 0)" % m, "(>= %s 0)" % q,
              # outer = pre ++ [nested] ++ post,  flat = pre ++ inner ++ post
              rng("i", p, "(= %s %s)" % (sel(outer, "i"), sel(flat, "i"))),
              "(= %s %s)" % (sel(outer, p), nested),
              rng("j", m, "(= %s %s)" % (sel(flat, "(+ %s j)" % p), sel(inner, "j"))),
              rng("j", q, "(= %s %s)" % (sel(outer, "(+ (+ %s 1) j)" % p), sel(flat, "(+ (+ %s %s) j)" % (p, m)))),
              # the nested sequence as an element: its run is the fold over its own elements (Sequence.run, C01.py)
              "(forall ((ys %s)) (! (= (el_run %s ys) (seq_run %s ys %s)) :pattern ((el_run %s ys))))" % (sort, nested, inner, m, nested)]:
        st.assume(T(h, "Bool"))
    y0 = "(seq_run %s %s %s)" % (flat, xs, p)
    _r1_instance(ip, st, outer, xs, "0", flat, xs, "0", p)                       # the common prefix
    _r1_instance(ip, st, flat, xs, p, inner, y0, "0", m)                         # inner, run inside flat = run on its own
    _r1_instance(ip, st, outer, xs, "(+ %s 1)" % p, flat, xs, "(+ %s %s)" % (p, m), q)      # the common suffix
    _finish(ip, st, "R3: a nested sequence runs like its elements in place (regrouping)",
            "(= (seq_run %s %s (+ (+ %s 1) %s)) (seq_run %s %s (+ (+ %s %s) %s)))" % (outer, xs, p, q, flat, xs, p, m, q))


def register_regrouping(ix):
    from pyvc.verify import Lemma
    for name, build, note in [
            ("regrouping R1: seq_run continues alike over equal segments of elements", lem_r1,
             "induction over the length of the segment; hypothesis = the statement for the segment without its last element"),
            ("regrouping R2: seq_run of a concatenation is the composition of the seq_runs", lem_r2, "two instances of R1"),
            ("regrouping R3: a Sequence holding a nested Sequence runs like the flat Sequence", lem_r3,
             "three instances of R1; the nested sequence is an element whose el_run is seq_run over its own elements "
             "(the postcondition of Sequence.run)")]:
        ix.lemmas.append(Lemma(name, SQ, ["C01"], build, notes=note))


# ---------------------------------------------------------------------------------------------- fill (C05)
def register_fill_chain(ix):
    """FillSeq.fill: `Value is transformed by every element of this sequence, and after that fills the last element` -- the
    chain of _Fill objects the constructor builds (FillSeq.__init__ above).  One link whose element is the FillInto adapter of
    a callable is contracts/P_fr.py `_Fill.fill`; here: a link whose NEXT link is a _Fill again (two callables before the last
    element), through one more case of FillInto.fill_into (the element that is filled is a _Fill object)."""
    ST = "elstate({e}) == el_fill({e}, old(elstate({e})), {v})"
    # the methods the classes define are placeholders: the constructors install the real ones as instance attributes
    for f, cls, spec in ((FS, "FillSeq", "FillSeq0"), (FCS, "FillComputeSeq", "FillComputeSeq0"), (FRS, "FillRequestSeq", "FillRequestSeq_c1")):
        ix.add(Contract(f, cls + ".fill", props=["C05"], params={"self": "Self[%s]" % spec, "value": "V"},
                        raises={"LenaNotImplementedError": "True"}, raises_frame="pure"))
    base = ix.by_key[(AD, "FillInto.fill_into")]
    ix.add(Contract(AD, "FillInto.fill_into", qualkey="FillInto1.fill_into", props=["C05"], cases=[
        Contract(AD, "FillInto.fill_into", name="FillInto.fill_into[element]", params=dict(base.params), raises=dict(base.raises),
                 ghost=dict(base.ghost), ensures=list(base.ensures)),
        Contract(AD, "FillInto.fill_into", name="FillInto.fill_into[the element is a link of a FillSeq chain]",
                 params={"self": "Self[FillInto1]", "element": "Inst[_Fill]", "value": "V"},
                 raises={"LenaStopFill": "?"}, ghost={"elstate": True},
                 # the link is filled with the transformed value: its own adapter transforms it once more and fills its element
                 ensures=[ST.format(e="element._fill_el", v="el_call(element._fill_into_el._el, el_call(self._el, value))")])]))
    ix.add_class(ClassSpec("_Fill_2", FS, alias_of="_Fill", fields={"_fill_into_el": "Inst[FillInto1]", "_fill_el": "Inst[_Fill]"}))
    ix.add(Contract(
        FS, "_Fill.fill", qualkey="_Fill_2.fill", name="_Fill.fill[two callables before the last element]", props=["C05"],
        params={"self": "Self[_Fill_2]", "value": "V"}, raises={"LenaStopFill": "?"}, ghost={"elstate": True},
        # `passes through every pre-element in order and the LAST element is filled with the result`
        ensures=[ST.format(e="self._fill_el._fill_el",
                           v="el_call(self._fill_el._fill_into_el._el, el_call(self._fill_into_el._el, value))")]))


def lem_drivers(npre, wrong_order=False):
    """C05, result level, over the contracts only: for a chain  f_1 .. f_npre (callables), acc (fill / compute), post.. (run
    elements)  and any flow xs, starting from the same state of acc:
        A. Sequence(f.., acc, post..).run(xs): the Run adapters of the callables map them over the flow (Run._call_run), the
           Run adapter of acc fills everything and computes (Run._fc_run), the rest is Sequence.run over post;
        B. FillComputeSeq(f.., acc, post..): fill(x) for every x of xs in order -- the _Fill chain (FillSeq.__init__; _Fill.fill,
           FillInto.fill_into) -- then compute() (FillComputeSeq.compute).
    Obligations: [step] one fill through the chain advances  fold_fill(acc, s0, ys, .)  by one value, ys = the mapped flow
    (the induction step over the length of the flow; the base is fold_fill(.., 0) = s0 by definition); [result] with all of xs
    filled, compute() delivers exactly what A delivers.  Outcomes in which a fill signals LenaStopFill are not compared: the
    contracts leave its condition open (`?`); a callable before the accumulator adds none of its own (FillInto.fill_into), and
    when the accumulator's own fill stops, A lets the exception pass (Run._fc_run) -- stopping pre-elements (Slice, Filter:
    their fill_into against their run) are the subject of the contracts of lena.flow."""
    def build(ip, st):
        import ast as _ast
        from pyvc.calls import apply_contract, eval_spec, spec_state, call_value
        from pyvc.interp import VC
        from pyvc.smt import FALSE
        from pyvc.sym import ObjCell, Fun
        C = ip.contracts
        fill_link = {0: None, 1: C.by_key[(FS, "_Fill.fill")], 2: C.by_key[(FS, "_Fill_2.fill")]}[npre]
        # ---- the objects: the chain of B is made first; its callables / accumulator are then shared with the adapters of A
        if npre == 0:
            acc, fs = ip.make("Obj", "acc", st), []
            head = None
        else:
            head = ip.make("Inst[%s]" % ("_Fill" if npre == 1 else "_Fill_2"), "chain", st)
            h = st.heap[head.cid].fields
            if npre == 1:
                fs, acc = [st.heap[h["_fill_into_el"].cid].fields["_el"]], h["_fill_el"]
            else:
                h2 = st.heap[h["_fill_el"].cid].fields
                fs = [st.heap[h["_fill_into_el"].cid].fields["_el"], st.heap[h2["_fill_into_el"].cid].fields["_el"]]
                acc = h2["_fill_el"]
        after = ip.make("Inst[Sequence_t]", "after", st)
        for inv in C.classes["Sequence_t"].invariant:
            st.assume(eval_spec(ip, st, {"self": after}, inv))
        fcs = ip.make("Inst[FillComputeSeq]", "fcs", st)
        st.heap[fcs.cid] = ObjCell(st.heap[fcs.cid].cls, dict(st.heap[fcs.cid].fields, _fill_compute=acc, _after=after))
        flow = ip.make("Iter[V]", "flow", st)
        n = ip.make("Int", "n", st)
        env = {"acc": acc, "after": after, "flow": flow, "n": n}
        st.assume(eval_spec(ip, st, env, "pulled(flow) == 0"))
        from pyvc.calls import elem_state
        elem_state(ip, st, acc)                      # (creates the ghost map of element states)
        elst0 = st.env["$elst"]
        from pyvc.sym import Opaque
        env["s0"] = Opaque(elem_state(ip, st, acc))
        ip.entry = st.copy()
        ip.oldst = ip.entry

        def spec(s_, text, **more):
            return eval_spec(ip, s_, dict(env, **dict(more, **{"$elst": s_.env["$elst"]})), text)
        # ---- A: the Sequence.  Run adapters: instances of the class spec `Run` around the SAME callables / accumulator
        cur = flow
        for f in (reversed(fs) if wrong_order else fs):          # (wrong_order: self-test of the lemma, must NOT prove)
            r = ip.make("Inst[Run]", "run_f", st)
            st.heap[r.cid] = ObjCell(st.heap[r.cid].cls, dict(st.heap[r.cid].fields, _el=f))
            (st, cur), = apply_contract(ip, st, C.by_key[(AD, "Run._call_run")], [r, cur], {})
        env["ys"] = cur                                # the mapped flow (an iterator nobody has pulled from)
        st.assume(spec(st, "pulled(ys) == 0"))
        r = ip.make("Inst[Run]", "run_acc", st)
        st.heap[r.cid] = ObjCell(st.heap[r.cid].cls, dict(st.heap[r.cid].fields, _el=acc))
        n_exc = len(ip._exc_out)
        (st, computed), = apply_contract(ip, st, C.by_key[(AD, "Run._fc_run")], [r, cur], {})
        del ip._exc_out[n_exc:]                        # (A stopped by the accumulator: not compared, see above)
        seq_run_c = [c for c in C.by_key[(SQ, "Sequence.run")].cases if "iterator" in c.name][0]
        (st, res_a), = apply_contract(ip, st, seq_run_c, [after, computed], {})
        env["res_a"] = res_a
        # ---- B: the same accumulator from the same state
        st.env["$elst"] = elst0
        # [step]
        s1 = st.copy()
        s1.assume(spec(s1, "1 <= n and n <= len(content(flow))"))
        s1.assume(spec(s1, "elstate(acc) == fold_fill(acc, s0, content(ys), n - 1)"))
        ip.spec_mode += 1
        try:
            value = ip.ev1(_ast.parse("content(flow)[n - 1]", mode="eval").body, spec_state(s1, dict(env)))
        finally:
            ip.spec_mode -= 1
        n_exc = len(ip._exc_out)
        if head is None:
            outs = call_value(ip, s1, Fun("elem-method", elem=acc, name="fill"), [value], {})
        else:
            outs = apply_contract(ip, s1, fill_link, [head, value], {})
        (s1, _), = outs
        ip.emit("lemma", "[step] one fill through the chain: the accumulator holds the fold of the mapped flow over one more value",
                s1, spec(s1, "elstate(acc) == fold_fill(acc, s0, content(ys), n)"))
        ip.vcs.append(VC("canary ensures False#1", "canary", list(s1.pc), FALSE, ""))
        del ip._exc_out[n_exc:]
        # [result]
        s2 = st.copy()
        s2.assume(spec(s2, "elstate(acc) == fold_fill(acc, s0, content(ys), len(content(flow)))"))
        (s2, res_b), = apply_contract(ip, s2, C.by_key[(FCS, "FillComputeSeq.compute")], [fcs], {})
        ip.emit("lemma", "[result] fill every value, then compute: exactly the values Sequence.run delivers", s2,
                spec(s2, "same(content(res_b), content(res_a)) and pulled(res_b) == 0 and pulled(res_a) == 0", res_b=res_b))
        ip.vcs.append(VC("canary ensures False#2", "canary", list(s2.pc), FALSE, ""))
        ip.vcs.append(VC("cover requires", "cover", list(st.pc), FALSE, ""))
    return build


def register_driver_lemmas(ix):
    from pyvc.verify import Lemma
    for k in (0, 1, 2):
        ix.lemmas.append(Lemma(
            "C05 drivers: FillComputeSeq filled value by value and computed == Sequence.run (%d callable%s before the accumulator)"
            % (k, "" if k == 1 else "s"), FCS, ["C05"], lem_drivers(k),
            notes="over the contracts of Run._call_run / Run._fc_run / Sequence.run and of _Fill.fill / FillInto.fill_into / "
                  "FillComputeSeq.compute; induction over the length of the flow: the step is an obligation, the base holds by "
                  "the definition of fold_fill"))


def declare_adapter_attr(ix):
    """Callers of Sequence.__init__ whose sequences hold elements WITHOUT run (contracts/P_split.py: _get_seq_with_type,
    Split.__init__) state `<new sequence>._data_seq[k]._el is <element>` about an item of a list typed Lst[Obj]: the Run
    adapter seen as an abstract element.  Its `_el` is a data attribute holding an object (pyvc/vmembers.py, obj_attrs) --
    read as a bound method, the identity with an element was taken for false, which made the callee's clause a contradiction
    in the caller and every path with an element that needs the adapter vacuous."""
    SP = "lena/core/split.py"
    for key in ((SP, "_get_seq_with_type#spec"), (SP, "Split.__init__")):
        c = ix.by_key.get(key)
        for case in ((c.cases or [c]) if c is not None else []):
            case.ghost.setdefault("obj_attrs", {}).setdefault("_el", "Obj")


def replace(ix, c):
    """register c under its key INSTEAD of the contract an earlier module registered there (the assumed constructor
    contracts of contracts/P_split.py)"""
    old = ix.by_key.get(c.key)
    if old is not None:
        ix.by_simple[old.simple] = [x for x in ix.by_simple.get(old.simple, []) if x is not old]
    return ix.add(c)


def retarget_split_contracts(ix):
    """contracts/P_split.py stated what the (then assumed) constructor of FillRequestSeq does through ghost fields _g_*
    recording its arguments.  The proved constructor speaks about the real attributes: the arguments are `_seq`, the keyword
    arguments are those of the FillRequest adapter `_fr` the sequence runs through.  The clauses of _get_seq_with_type and
    Split.__init__ are re-worded accordingly (same statements, now proved against proved callee contracts)."""
    SP = "lena/core/split.py"
    ren = [("._g_args[", "._seq["), ("._g_bufsize", "._fr.bufsize"), ("._g_reset", "._fr._reset"),
           ("._g_buffer_input", "._fr._buffer_input")]

    def fix(text):
        for a, b in ren:
            text = text.replace(a, b)
        return text
    for key in ((SP, "_get_seq_with_type#spec"), (SP, "Split.__init__")):
        c = ix.by_key.get(key)
        for case in ((c.cases or [c]) if c is not None else []):
            case.ensures = [fix(x) for x in case.ensures]
            case.exc_ensures = {k: [fix(x) for x in v] for k, v in case.exc_ensures.items()}


def register(ix):
    # FillInto.__init__ (proved under C05.py) is executed in place at its call in FillSeq.__init__, like Run.__init__ in
    # Sequence.__init__: the caller states which implementation of fill_into the adapter of each element kind got
    ix.by_key[(AD, "FillInto.__init__")].inline = True
    register_fill_seq(ix)
    declare_adapter_attr(ix)
    register_fill_compute_seq(ix)
    register_fill_request_seq(ix)
    cases = register_fill_request_seq_init(ix)
    # (C03: Split.__init__ builds a FillRequestSeq for a tuple branch with a FillRequest element; its proof now rests on this
    # proved constructor instead of an assumed one)
    replace(ix, Contract(FRS, "FillRequestSeq.__init__", props=["C05", "C03"], cases=cases))
    retarget_split_contracts(ix)
    register_meta(ix)
    register_regrouping(ix)
    register_fill_chain(ix)
    # proved under C16 (contracts/P_fr.py): what compute() / request() / reset() of the two sequences do -- the other half of
    # the drivers of C05 (the lemmas below rest on FillComputeSeq.compute)
    for key in ((FCS, "FillComputeSeq.compute"), (FRS, "FillRequestSeq.request"), (FRS, "FillRequestSeq.reset"), (FS, "_Fill.fill")):
        c = ix.by_key.get(key)
        if c is not None and "C05" not in c.props:
            c.props.append("C05")
    register_driver_lemmas(ix)
