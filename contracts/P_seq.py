"""P_seq -- C05 / C01: the fill sequences (FillSeq, FillComputeSeq, FillRequestSeq) and meta.flatten / alter_sequence."""
from pyvc.contracts import Contract, LoopSpec, ClassSpec

AD = "lena/core/adapters.py"
FS = "lena/core/fill_seq.py"
FCS = "lena/core/fill_compute_seq.py"
FRS = "lena/core/fill_request_seq.py"
MT = "lena/core/meta.py"
SQ = "lena/core/sequence.py"
LS = "lena/core/lena_sequence.py"

HAS_FILL = "callable_m({e}, 'fill')"
HAS_FI = "(has_attr({e}, 'fill_into') and callable_m({e}, 'fill_into'))"
IS_RUN = "(has_attr({e}, 'run') and callable_m({e}, 'run'))"
# what adapters.FillInto accepts without a method name (contracts/C05.py, FillInto.__init__[no method name])
FI_CONV = ("(callable_m({e}, 'fill_into') or (callable({e}) and not is_instance_of({e}, 'Split')) or "
           "(" + IS_RUN + " and has_attr({e}, '_can_break_flow')))")


def fill_into_clauses(e, d):
    """the item `d` of a FillSeq stands for the argument `e`: `convert all elements except last to FillInto (if needed)` --
    an element with fill_into is taken as it is; FillInto: `fill_into method is searched, then __call__, then run`"""
    fi, call = HAS_FI.format(e=e), "(callable(%s) and not is_instance_of(%s, 'Split'))" % (e, e)
    return ["%s implies %s is %s" % (fi, d, e),
            "not %s implies is_instance_of(%s, 'FillInto') and %s._el is %s" % (fi, d, d, e),
            "not %s and callable_m(%s, 'fill_into') implies %s.fill_into is method(%s, 'fill_into')" % (fi, e, d, e),
            # a callable keeps the default implementation element.fill(el(value)); a run element that can break the flow
            # fills every result of running the one-value flow
            "not callable_m(%s, 'fill_into') and %s implies %s.fill_into is class_method(%s, 'fill_into')" % (e, call, d, d),
            "not callable_m(%s, 'fill_into') and not %s implies %s.fill_into is class_method(%s, '_run_fill_into')" % (e, call, d, d)]


def chain_clauses(root, data, k, last):
    """the _Fill chain hanging at `root` over the k converted elements data[0..k) ends at the element `last`"""
    out, link = [], root
    for i in range(k):
        out += ["is_instance_of(%s, '_Fill')" % link, "%s._fill_into_el is %s[%d]" % (link, data, i)]
        link += "._fill_el"
    out.append("%s is %s" % (link, last))
    return out


def register_fill_seq(ix):
    # the two assignments of _Fill.__init__ are executed in place (the fields hold elements, adapters or other _Fill objects)
    ix.add_class(ClassSpec("_Fill0", FS, fields={}, alias_of="_Fill"))
    ix.add(Contract(FS, "_Fill.__init__", props=[], inline=True,
                    params={"self": "Self[_Fill0]", "fill_into_el": "Any", "fill_el": "Any"}))
    ix.add_class(ClassSpec("FillSeq", FS, fields={}, bases=["LenaSequence"]))
    ix.add_class(ClassSpec("FillSeq0", FS, fields={}, alias_of="FillSeq", bases=["LenaSequence"]))
    MOD = ["self._name", "self._seq", "self._data_seq", "self._static_context", "self._exc", "self._fill_el", "self.fill"]

    def fs_init(n):
        a = lambda i: "args[%d]" % i
        nodata = ["not has_attr(%s, '_has_no_data')" % a(i) for i in range(n)]
        bad = ["not " + HAS_FILL.format(e=a(n - 1))] + ["not (%s or %s)" % (HAS_FI.format(e=a(i)), FI_CONV.format(e=a(i)))
                                                       for i in range(n - 1)]
        ens = ["len(self._seq) == %d" % n, "len(self._data_seq) == %d" % n, "self._data_seq[%d] is %s" % (n - 1, a(n - 1))]
        for i in range(n):
            ens.append("self._seq[%d] is %s" % (i, a(i)))
        for i in range(n - 1):
            ens += fill_into_clauses(a(i), "self._data_seq[%d]" % i)
        # `transform FillInto elements into _Fill`: the chain  _Fill(d0, _Fill(d1, ... _Fill(d[n-2], last)))  -- the value filled
        # into the sequence enters at the FIRST element, every link hands what it makes of it to the next, the last is filled
        ens += chain_clauses("self._fill_el", "self._data_seq", n - 1, a(n - 1))
        # FillSeq.fill IS the fill of the head of the chain (of the last element itself when there is nothing before it)
        ens.append("self.fill is method(%s, 'fill')" % a(0) if n == 1 else "self.fill is class_method(self._fill_el, 'fill')")
        return Contract(FS, "FillSeq.__init__", name="FillSeq.__init__[%d elements]" % n,
                        params={"self": "Self[FillSeq0]", "args": "Tuple[%s]" % ",".join(["Obj"] * n)}, vararg="args",
                        requires=nodata, raises={"LenaTypeError": " or ".join(bad)}, ensures=ens, modifies=MOD)
    ix.add(Contract(FS, "FillSeq.__init__", props=["C05"], cases=[
        Contract(FS, "FillSeq.__init__", name="FillSeq.__init__[no arguments]",
                 params={"self": "Self[FillSeq0]", "args": "Tuple[]"}, vararg="args",
                 raises={"LenaTypeError": "True"}),
        fs_init(1), fs_init(2), fs_init(3)]))


IS_FC = "(has_attr({e}, 'fill') and has_attr({e}, 'compute') and callable_m({e}, 'fill') and callable_m({e}, 'compute'))"
IS_FR = "(has_attr({e}, 'fill') and has_attr({e}, 'request') and callable_m({e}, 'fill') and callable_m({e}, 'request'))"
# what Sequence accepts as an element (contracts/C01.py: Sequence.__init__)
SEQ_EL = "(" + IS_RUN + " or callable({e}) or " + IS_FC + ")"
# what FillSeq accepts before its last element
FS_EL = "(" + HAS_FI + " or " + FI_CONV + ")"


def run_clauses(e, d):
    """the item `d` of a Sequence stands for the argument `e` (C01 / C05: an element with run is taken as it is, a callable
    is mapped over the flow, a fill/compute element is filled with the whole flow and then computed)"""
    hr = IS_RUN.format(e=e)
    return ["%s implies %s is %s" % (hr, d, e),
            "not %s implies is_instance_of(%s, 'Run') and %s._el is %s" % (hr, d, d, e),
            "not %s and callable(%s) implies %s.run is class_method(%s, '_call_run')" % (hr, e, d, d),
            "not %s and not callable(%s) implies %s.run is class_method(%s, '_fc_run')" % (hr, e, d, d)]


def first_is(kind, n, k):
    """the first argument of kind `kind` among args[0..n) is args[k]"""
    a = lambda i: "args[%d]" % i
    return "(" + " and ".join(["not " + kind.format(e=a(i)) for i in range(k)] + [kind.format(e=a(k))]) + ")"


def split_bad(kind, n):
    """LenaTypeError of the two constructors: no element of the kind, or an element before it that FillSeq refuses, or an
    element after it that Sequence refuses"""
    a = lambda i: "args[%d]" % i
    none = "(" + (" and ".join("not " + kind.format(e=a(i)) for i in range(n)) or "True") + ")"
    alts = [none]
    for k in range(n):
        bad = ["not " + FS_EL.format(e=a(i)) for i in range(k)] + ["not " + SEQ_EL.format(e=a(j)) for j in range(k + 1, n)]
        if bad:
            alts.append("(%s and (%s))" % (first_is(kind, n, k), " or ".join(bad)))
    return " or ".join(alts)


def split_clauses(kind, n, attr):
    """what `_init_sequence_with_el` / FillComputeSeq.__init__ document: the FIRST element of the kind is THE element
    (`only the first one is chosen, the subsequent ones are used as simple Run elements`); what stands before it becomes a
    FillSeq that ends in it, what follows a Sequence"""
    a = lambda i: "args[%d]" % i
    out = []
    for k in range(n):
        cl = ["self.%s is %s" % (attr, a(k)), "is_instance_of(self._fill_seq, 'FillSeq')",
              "len(self._fill_seq._data_seq) == %d" % (k + 1), "self._fill_seq._data_seq[%d] is %s" % (k, a(k))]
        for i in range(k):
            cl += fill_into_clauses(a(i), "self._fill_seq._data_seq[%d]" % i)
        cl += chain_clauses("self._fill_seq._fill_el", "self._fill_seq._data_seq", k, a(k))
        # filling the sequence IS filling its FillSeq: the head of the chain (the element itself when nothing precedes it)
        cl.append("self.fill is method(%s, 'fill')" % a(0) if k == 0 else
                  "self.fill is class_method(self._fill_seq._fill_el, 'fill')")
        cl += ["is_instance_of(self._after, 'Sequence')", "len(self._after._data_seq) == %d" % (n - k - 1),
               "len(self._after._seq) == %d" % (n - k - 1)]
        for j in range(k + 1, n):
            cl += run_clauses(a(j), "self._after._data_seq[%d]" % (j - k - 1))
        out += ["%s implies (%s)" % (first_is(kind, n, k), c) for c in cl]
    return out


def register_fill_compute_seq(ix):
    """FillComputeSeq.__init__: `args form a sequence with a FillCompute element.  If args contain several FillCompute
    elements, only the first one is chosen (the subsequent ones are used as simple Run elements) ...  If FillCompute element
    was not found, or if the sequences before and after that could not be correctly initialized, LenaTypeError is raised.`"""
    if "FillComputeSeq" in ix.classes:
        ix.classes["FillComputeSeq"].bases = ["LenaSequence"]
    else:
        ix.add_class(ClassSpec("FillComputeSeq", FCS, fields={}, bases=["LenaSequence"]))
    ix.add_class(ClassSpec("FillComputeSeq0", FCS, fields={}, alias_of="FillComputeSeq", bases=["LenaSequence"]))
    MOD = ["self._name", "self._seq", "self._data_seq", "self._static_context", "self._exc", "self._fill_compute",
           "self._fill_seq", "self.fill", "self._after"]

    def fcs_init(n):
        a = lambda i: "args[%d]" % i
        ens = ["len(self._seq) == %d" % n, "len(self._data_seq) == %d" % n]
        for i in range(n):
            ens += ["self._seq[%d] is %s" % (i, a(i)), "self._data_seq[%d] is %s" % (i, a(i))]
        return Contract(FCS, "FillComputeSeq.__init__", name="FillComputeSeq.__init__[%d elements]" % n,
                        params={"self": "Self[FillComputeSeq0]", "args": "Tuple[%s]" % ",".join(["Obj"] * n)}, vararg="args",
                        requires=["not has_attr(%s, '_has_no_data')" % a(i) for i in range(n)],
                        raises={"LenaTypeError": split_bad(IS_FC, n)},
                        ensures=ens + split_clauses(IS_FC, n, "_fill_compute"), modifies=MOD, max_paths=20000)
    ix.add(Contract(FCS, "FillComputeSeq.__init__", props=["C05"], cases=[fcs_init(n) for n in (0, 1, 2, 3)]))


def declare_adapter_attr(ix):
    """Callers of Sequence.__init__ whose sequences hold elements WITHOUT run (contracts/P_split.py: _get_seq_with_type,
    Split.__init__) state `<new sequence>._data_seq[k]._el is <element>` about an item of a list typed Lst[Obj]: the Run
    adapter seen as an abstract element.  Its `_el` is a data attribute holding an object (pyvc/vmembers.py, obj_attrs) --
    read as a bound method, the identity with an element was taken for false, which made the callee's clause a contradiction
    in the caller and every path with an element that needs the adapter vacuous."""
    SP = "lena/core/split.py"
    for key in ((SP, "_get_seq_with_type#spec"), (SP, "Split.__init__")):
        c = ix.by_key.get(key)
        for case in ((c.cases or [c]) if c is not None else []):
            case.ghost.setdefault("obj_attrs", {}).setdefault("_el", "Obj")


def register(ix):
    # FillInto.__init__ (proved under C05.py) is executed in place at its call in FillSeq.__init__, like Run.__init__ in
    # Sequence.__init__: the caller states which implementation of fill_into the adapter of each element kind got
    ix.by_key[(AD, "FillInto.__init__")].inline = True
    register_fill_seq(ix)
    declare_adapter_attr(ix)
    register_fill_compute_seq(ix)
