"""lena/flow/functions.py: what a (data, context) pair is.  Every contract over abstract flow values (sort V) ASSUMES that
get_data_context / get_data / get_context follow their docstrings ("a value is a (data, context) pair if it is a tuple of
length 2 whose second element is a dictionary"); here the four accessors themselves are verified against that sentence on
concretely typed values, so that a change of the rule fails an obligation (the assumption is then no longer a blind spot).
The units are registered under qualkeys: call sites keep executing the accessors in place (inline contracts of C09.py)."""
from pyvc.contracts import Contract

FF = "lena/flow/functions.py"
PROPS = ["C10", "C09", "C04", "C11", "C14", "C19"]

# (case name, type of `value`, is it a pair?)
SHAPES = [
    ("tuple (x, dict)", "Tuple[V,Dict]", True),
    ("tuple (x, dict, y)", "Tuple[V,Dict,V]", False),
    ("tuple (x,)", "Tuple[V]", False),
    ("empty tuple", "Tuple[]", False),
    ("tuple (x, number)", "Tuple[V,Int]", False),
    ("tuple (x, None)", "Tuple[V,None]", False),
    ("tuple (dict, number)", "Tuple[Dict,Int]", False),
    ("list of two dictionaries", "PyList[2,Dict]", False),
    ("list of any length", "Lst[V]", False),
    ("dictionary", "Dict", False),
    ("number", "Int", False),
    ("string", "Str", False),
    ("None", "None", False),
]


def register(ix):
    def cases(fn, pair_ens, bare_ens, result):
        out = []
        for name, ty, is_pair in SHAPES:
            # `Dict` types a reference to a context value; that it IS a dictionary is stated
            req = ["isdict(value[%d])" % k for k, t in enumerate(ty[6:-1].split(",")) if t == "Dict"] if ty.startswith("Tuple[") \
                else ["isdict(value)"] if ty == "Dict" else []
            out.append(Contract(FF, fn, name="%s[%s]" % (fn, name), params={"value": ty}, result=result, requires=req,
                                ensures=pair_ens if is_pair else bare_ens, raises={}, modifies=[]))
        return out

    ix.add(Contract(FF, "_has_context", qualkey="_has_context#rule", props=PROPS,
                    cases=cases("_has_context", ["result == True"], ["result == False"], "Bool")))
    ix.add(Contract(FF, "get_data_context", qualkey="get_data_context#rule", props=PROPS,
                    cases=cases("get_data_context",
                                ["result[0] is value[0]", "result[1] is value[1]"],
                                ["result[0] is value", "result[1] == emptydict()"], "Any")))
    ix.add(Contract(FF, "get_data", qualkey="get_data#rule", props=PROPS,
                    cases=cases("get_data", ["result is value[0]"], ["result is value"], "Any")))
    ix.add(Contract(FF, "get_context", qualkey="get_context#rule", props=PROPS,
                    cases=cases("get_context", ["result is value[1]"], ["result == emptydict()"], "Any")))
