"""C07 -- nested-dictionary algebra.  Sidecar contracts of lena/context/functions.py.

The reference functions are written from the property text (DESIGN Appendix A): `diff(a, b, l)` = the items of a not
contained in b.  A reference function is an uninterpreted symbol plus its definition instantiated at the terms it is
applied to (one unfolding; deeper values are reached through the callee's own contract at the recursive call)."""
from pyvc.contracts import Contract, LoopSpec, ClassSpec
from pyvc.smt import T
from pyvc.sym import Opaque, Bool
from pyvc.dicts import dterm

CF = "lena/context/functions.py"

# one item of diff(a, b, l) at key k (property text: an item of a that b does not contain; values that are both
# dictionaries are compared recursively unless the recursion level is exhausted (l == 1); an empty sub-difference means
# "contained" and the key is dropped; any other differing value -- also 0, False, None, "" and {} -- is kept)
DIFF_ITEM = """(define-fun diff_item ((a Val) (b Val) (l Int) (k Key)) Opt
  (ite (not (vhas a k)) none
  (ite (not (vhas b k)) (select (dm a) k)
  (ite (= (vget a k) (vget b k)) none
  (ite (and (isD (vget a k)) (isD (vget b k)) (not (= l 1)))
       (ite (= (diff (vget a k) (vget b k) (- l 1)) (D emptymap)) none (some (diff (vget a k) (vget b k) (- l 1))))
       (select (dm a) k))))))"""


def diff_def(a, b, l):
    r = "(diff %s %s %s)" % (a, b, l)
    return ("(and (=> (or (not (isD {a})) (not (isD {b}))) (= {r} {a})) "
            "(=> (and (isD {a}) (isD {b}) (= {a} {b})) (= {r} (D emptymap))) "
            "(=> (and (isD {a}) (isD {b}) (not (= {a} {b})) (= {l} 0)) (= {r} {a})) "
            "(=> (and (isD {a}) (isD {b}) (not (= {a} {b})) (not (= {l} 0))) "
            "(and (isD {r}) (forall ((dk Key)) (! (= (select (dm {r}) dk) (diff_item {a} {b} {l} dk)) "
            ":pattern ((select (dm {r}) dk)))))))").format(a=a, b=b, l=l, r=r)


def declare_diff(reg):
    reg.need_val()
    reg.ufun("diff", ["Val", "Val", "Int"], "Val")
    reg.fun_decl("diff_item", DIFF_ITEM)


def sp_diff_spec(ip, st, pos, kws):
    reg = ip.reg
    declare_diff(reg)
    a, b, l = dterm(ip, st, pos[0]), dterm(ip, st, pos[1]), ip.num(pos[2])
    if not ip.bound_stack:
        ax = T(diff_def(a.s, b.s, l.s), "Bool")
        if not any(x.s == ax.s for x in st.pc):
            st.pc.append(ax)           # definition of the reference function at these arguments
    return Opaque(T("(diff %s %s %s)" % (a.s, b.s, l.s), "Val"))


def sp_diff_item(ip, st, pos, kws):
    declare_diff(ip.reg)
    a, b, l = dterm(ip, st, pos[0]), dterm(ip, st, pos[1]), ip.num(pos[2])
    return Opaque(T("(diff_item %s %s %s %s)" % (a.s, b.s, l.s, ip.key_term(pos[3]).s), "Opt"))


def register(ix):
    ix.spec_names["diff_spec"] = sp_diff_spec
    ix.spec_names["diff_item"] = sp_diff_item
    ix.add(Contract(
        CF, "difference", props=["C07"], dict_model="Val",
        params={"d1": "Val", "d2": "Val", "level": "Int"}, result="Val", defaults={"level": -1},
        ensures=["result == diff_spec(d1, d2, level)"],
        loops={0: LoopSpec(invariant=[
            "isdict(result)",
            "all_keys(lambda k: item(result, k) == (diff_item(d1, d2, level, k) if seen(k) else absent()))"])},
        notes="arguments are values (immutable terms): `d1`, `d2` unchanged holds by construction of the encoding for "
              "everything but in-place mutation, which the body does not perform (no store into d1/d2: frame)"))
    register_update(ix)


# ---------------------------------------------------------------------------------------------------- update_recursively
# property text: `other` becomes contained in d; every item of d that other does not overwrite is kept
UPD_ITEM = """(define-fun upd_item ((d Val) (o Val) (k Key)) Opt
  (ite (not (vhas o k)) (select (dm d) k)
  (ite (not (isD (vget o k))) (select (dm o) k)
  (ite (vhas d k) (some (upd (ite (isD (vget d k)) (vget d k) (D emptymap)) (vget o k)))
       (select (dm o) k)))))"""


def upd_def(d, o):
    r = "(upd %s %s)" % (d, o)
    return ("(=> (and (isD {d}) (isD {o})) (and (isD {r}) (forall ((uk Key)) (! (= (select (dm {r}) uk) (upd_item {d} {o} uk)) "
            ":pattern ((select (dm {r}) uk))))))").format(d=d, o=o, r=r)


def declare_upd(reg):
    reg.need_val()
    reg.ufun("upd", ["Val", "Val"], "Val")
    reg.fun_decl("upd_item", UPD_ITEM)


def sp_upd_spec(ip, st, pos, kws):
    declare_upd(ip.reg)
    d, o = dterm(ip, st, pos[0]), dterm(ip, st, pos[1])
    if not ip.bound_stack:
        ax = T(upd_def(d.s, o.s), "Bool")
        if not any(x.s == ax.s for x in st.pc):
            st.pc.append(ax)
    return Opaque(T("(upd %s %s)" % (d.s, o.s), "Val"))


def sp_upd_item(ip, st, pos, kws):
    declare_upd(ip.reg)
    d, o = dterm(ip, st, pos[0]), dterm(ip, st, pos[1])
    return Opaque(T("(upd_item %s %s %s)" % (d.s, o.s, ip.key_term(pos[2]).s), "Opt"))


def register_update(ix):
    ix.spec_names["upd_spec"] = sp_upd_spec
    ix.spec_names["upd_item"] = sp_upd_item
    ix.add(Contract(
        CF, "update_recursively", props=["C07"], dict_model="Val",
        params={"d": "Dict", "other": "Val", "value": "Sentinel[lena.context.functions._sentinel]"}, result=None,
        defaults={"value": "sentinel:lena.context.functions._sentinel"},
        requires=["not isinstance(other, str)"],
        raises={"LenaTypeError": "not isdict(d) or not isdict(other)"}, raises_frame="pure",
        ensures=["d == upd_spec(old(d), other)"],
        loops={0: LoopSpec(invariant=[
            "isdict(d)",
            "all_keys(lambda k: item(d, k) == (upd_item(old(d), other, k) if seen(k) else item(old(d), k)))"])},
        modifies=["d"],
        notes="`other` is an immutable value in the encoding (the body performs no store into it); "
              "the dotted-string form of `other` goes through str_to_dict and is covered by the bounded stand-in"))
