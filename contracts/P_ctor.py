"""P_ctor -- the CONSTRUCTORS (and small option helpers) of the selecting / pass-through elements of properties C10, C19,
C02, C15 (and C17 for RunningChunkBy).  The `run` contracts of these elements (C02.py, C19.py, P_sel.py, P_out.py,
P_flow.py, P_acc2.py) start from an object that satisfies a ClassSpec; the contracts here say that `__init__` ESTABLISHES
it: every field the run contracts read is set, to the very argument / the documented default / the documented conversion
(lena.flow.Selector, lena.core.Sequence through their own contracts of P_flow.py / C01.py at the call site), the documented
LenaTypeError / LenaValueError is raised iff the documented condition holds, and the invariant of the ClassSpec holds at
exit (stated as a postcondition: the engine does not prove class invariants for `__init__` by itself).

  lena/flow/elements.py               RunIf.__init__, RunningChunkBy.__init__ (+ finding: any chunk size)
  lena/flow/group_plots.py            MapGroup.__init__, GroupPlots.__init__
  lena/structures/elements.py         HistToGraph.__init__, ScaleTo.__init__
  lena/structures/split_into_bins.py  MapBins.__init__, IterateBins.__init__
  lena/output/to_csv.py               ToCSV.__init__
  lena/output/write.py                Write.__init__, Writer, Write._make_filename.normalize_path
  lena/output/pdf_to_png.py           PDFToPNG.__init__, PDFToPNG.run.is_pdf
  lena/output/latex_to_pdf.py         LaTeXToPDF.__init__ (+ finding: the callable check), LaTeXToPDF.run.is_tex_file
  lena/output/render_latex.py         RenderLaTeX.__init__, _select_template_or_default
  lena/flow/print_.py, progress.py    Print.__init__, Progress.__init__
  lena/flow/drop_context.py           DropContext.__init__, DropContext._make_iterator

DEFAULTS.  A unit verifies a function for arbitrary arguments, so a default flipped in the `def` line is invisible to it.
Two kinds of lemma close that: `defaults_lemma` constructs the element THROUGH its constructor contract with the other
parameters omitted (the engine then takes the default constants from the real AST) and states the documented defaults of
the fields; `default_expr_lemma` evaluates a default that is no constant (a lambda, a module function, a tuple) in its module.

Local library assumptions (registered here, listed among the assumptions of the units that use them):
collections.OrderedDict() and jinja2.FileSystemLoader(path) return new abstract objects (the latter determined by the path),
_Environment.__init__ (a subclass of jinja2.Environment) keeps the loader it is given.
"""
from pyvc.contracts import Contract, LoopSpec, ClassSpec

FE = "lena/flow/elements.py"
GP = "lena/flow/group_plots.py"
SE = "lena/structures/elements.py"
SB = "lena/structures/split_into_bins.py"
TC = "lena/output/to_csv.py"
WR = "lena/output/write.py"
PP = "lena/output/pdf_to_png.py"
LP = "lena/output/latex_to_pdf.py"
RL = "lena/output/render_latex.py"
PR = "lena/flow/print_.py"
PG = "lena/flow/progress.py"
DC = "lena/flow/drop_context.py"

NOT_CONTAINER = ["not isinstance(%s, str)", "not isinstance(%s, list)", "not isinstance(%s, tuple)"]
CLS_REF = "(isinstance(vdata(v), {x}) if v_has_context(v) else isinstance(v, {x}))"
HAS_RUN = "(has_attr({a}, 'run') and callable_m({a}, 'run'))"
CONV = "(callable({a}) or (has_attr({a}, 'fill') and has_attr({a}, 'compute') and " \
       "callable_m({a}, 'fill') and callable_m({a}, 'compute')))"


def leaf_post(leaf, x):
    """C15: the leaf a Selector makes of the abstract object x -- `a class tests the type of the data, a callable is
    applied` (the clauses of Selector.__init__ in P_flow.py, over another path to the leaf)"""
    return ["isclass({x}) implies forall_v(lambda v: leaf_true({l}, v) == %s)".format(l=leaf, x=x) % CLS_REF.format(x=x),
            "isclass({x}) implies forall_v(lambda v: not leaf_raises({l}, v) and leaf_safe({l}, v))".format(l=leaf, x=x),
            "not isclass({x}) implies {l} is {x}".format(l=leaf, x=x)]


def leaf_bad(x):
    return "(not isclass({x}) and not callable({x}))".format(x=x)


def container_post(sel, spec, cls, n):
    """C15: `a list is OR, a tuple is AND`: the Selector `sel` made of the list / tuple `spec` of n abstract objects holds an
    Or / And whose members are the Selectors of the items, in order, each with raise_on_error True
    (requires, ensures, LenaTypeError condition) -- the clauses of Selector.__init__[list / tuple of n objects] in P_flow.py"""
    req, ens, bad = [], ["is_instance_of(%s, 'Selector')" % sel, "%s._raise_on_error == True" % sel,
                         "is_instance_of(%s._selector, '%s')" % (sel, cls), "%s._selector._raise_on_error == True" % sel,
                         "len(%s._selector._selectors) == %d" % (sel, n)], []
    for i in range(n):
        x, l = "%s[%d]" % (spec, i), "%s._selector._selectors[%d]" % (sel, i)
        req += [r % x for r in NOT_CONTAINER] + ["not is_instance_of(%s, 'Selector')" % x]
        ens += ["is_instance_of(%s, 'Selector')" % l, "%s._raise_on_error == True" % l] + leaf_post(l + "._selector", x)
        bad.append(leaf_bad(x))
    return req, ens, " or ".join(bad) or "False"


def seq_post(seq, args, n):
    """C01: the Sequence made of the abstract elements args[0..n) (clauses of Sequence.__init__ in C01.py)"""
    ens = ["is_instance_of(%s, 'Sequence')" % seq, "len(%s._data_seq) == %d" % (seq, n)]
    for i in range(n):
        a = "%s[%d]" % (args, i)
        # (an element without `run` is wrapped in a lena.core.Run adapter: the list is typed Lst[Obj] at call sites, the
        # adapter's fields cannot be named there -- see Sequence.__init__ in C01.py for that half)
        ens += ["%s implies %s._data_seq[%d] is %s" % (HAS_RUN.format(a=a), seq, i, a)]
    return ens


def seq_bad(args, n):
    return " or ".join("not (%s or %s)" % (HAS_RUN.format(a="%s[%d]" % (args, i)), CONV.format(a="%s[%d]" % (args, i)))
                       for i in range(n)) or "False"


def seq_req(args, n):
    return ["not has_attr(%s[%d], '_has_no_data')" % (args, i) for i in range(n)]


# ------------------------------------------------------------------------------------------------------------ RunIf
def register_run_if(ix):
    """docstring: `select ... is converted to a Selector` (a Selector is kept as it is); `args are an arbitrary number of
    elements that will be run for selected values.  They are joined into a Sequence` (one Sequence is kept as it is);
    LenaTypeError iff one of the two conversions is impossible."""
    ix.add_class(ClassSpec("RunIf0", FE, fields={}, alias_of="RunIf"))
    ix.add_class(ClassSpec("RunIf_sel", FE, fields={"_select": "Inst[Selector]", "_seq": "Inst[Sequence]"}, alias_of="RunIf"))
    for k in ("or", "and"):
        ix.add_class(ClassSpec("RunIf_" + k, FE, alias_of="RunIf",
                               fields={"_select": "Inst[Selector_%s_2]" % k, "_seq": "Inst[Sequence]"}))
    MOD = ["self._select", "self._seq"]
    cases = []
    # what is made of *args
    tails = [("one Sequence", "Tuple[Inst[Sequence]]", [], "False", ["self._seq is args[0]"])]
    for n in range(3):
        tails.append(("%d elements" % n, "Tuple[%s]" % ",".join(["Obj"] * n),
                      seq_req("args", n) + (["not is_instance_of(args[0], 'Sequence')"] if n == 1 else []),
                      seq_bad("args", n), seq_post("self._seq", "args", n)))
    # what is made of select
    heads = [("Selector object", "Inst[Selector]", [], "False", ["self._select is select"]),
             ("class, callable or other object", "Obj",
              [r % "select" for r in NOT_CONTAINER] + ["not is_instance_of(select, 'Selector')"], leaf_bad("select"),
              ["is_instance_of(self._select, 'Selector')", "self._select._raise_on_error == True"]
              + leaf_post("self._select._selector", "select")),
             ("string", "Str", [], "False",
              ["is_instance_of(self._select, 'Selector')", "self._select._raise_on_error == True",
               "forall_v(lambda v: contains_spec(vctx(v), select, leaf_true(self._select._selector, v)))",
               "forall_v(lambda v: not leaf_raises(self._select._selector, v) and leaf_safe(self._select._selector, v))"]),
             ("number", "Real", [], "True", [])]
    # (tuple before list: the engine lets a tuple argument fit a PyList parameter, not the other way round)
    for cls, kind, ty in (("And", "tuple", "Tuple[Obj,Obj]"), ("Or", "list", "PyList[2,Obj]")):
        req, ens, bad = container_post("self._select", "select", cls, 2)
        heads.append(("%s of 2 objects" % kind, ty, req, bad, ens))
    for hn, hty, hreq, hbad, hens in heads:
        for tn, tty, treq, tbad, tens in tails:
            if (hn == "number" and tn != "0 elements") or (" of 2 objects" in hn and tn != "1 elements"):
                continue
            cases.append(Contract(
                FE, "RunIf.__init__", name="RunIf.__init__[%s; %s]" % (hn, tn),
                params={"self": "Self[RunIf0]", "select": hty, "args": tty}, vararg="args",
                ghost={"fold_literals": True},       # (`len(args) == 1` is decided for an argument tuple of known length)
                requires=hreq + treq,
                raises={"LenaTypeError": "(%s) or (%s)" % (hbad, tbad)},
                ensures=hens + tens, modifies=MOD,
                post_class={"list of 2 objects": "RunIf_or", "tuple of 2 objects": "RunIf_and"}.get(hn, "RunIf_sel")))
    ix.add(Contract(FE, "RunIf.__init__", props=["C10", "C02", "C15"], cases=cases))


# --------------------------------------------------------------------------------------------------------- MapGroup
def register_map_group(ix):
    """docstring: `Arguments seq must form a Sequence.  Set a keyword argument map_scalars to False to ignore scalar values
    (those that are not groups).  Other keyword arguments raise LenaTypeError.`  (default: scalars ARE mapped)"""
    ix.add_class(ClassSpec("MapGroup0", GP, fields={}, alias_of="MapGroup"))
    ix.add_class(ClassSpec("MapGroup_seq", GP, fields={"_seq": "Inst[Sequence]", "_map_scalars": "Bool"}, alias_of="MapGroup"))
    cases = []
    for n in range(3):
        for kn, kty, kbad, kval in (("no keyword", "KwDict[]", "False", "True"),
                                    ("map_scalars", "KwDict[map_scalars:Bool]", "False", "old(map_scalars['map_scalars'])"),
                                    ("unknown keyword", "KwDict[map_scalar:Bool]", "True", None),
                                    ("map_scalars and unknown keyword", "KwDict[map_scalars:Bool,other:Bool]", "True", None)):
            cases.append(Contract(
                GP, "MapGroup.__init__", name="MapGroup.__init__[%d elements; %s]" % (n, kn),
                params={"self": "Self[MapGroup0]", "seq": "Tuple[%s]" % ",".join(["Obj"] * n), "map_scalars": kty},
                vararg="seq", kwarg="map_scalars",
                requires=seq_req("seq", n),
                raises={"LenaTypeError": "(%s) or (%s)" % (seq_bad("seq", n), kbad)},
                ensures=seq_post("self._seq", "seq", n) + (["self._map_scalars == %s" % kval] if kval else []),
                modifies=["self._seq", "self._map_scalars", "map_scalars"], post_class="MapGroup_seq"))
    ix.add(Contract(GP, "MapGroup.__init__", props=["C10"], cases=cases))


# ------------------------------------------------------------------------------------------------------- GroupPlots
def register_group_plots(ix):
    """docstring: `Plots to be grouped are chosen by select ... By default everything is selected.  If select is not a
    Selector, it is converted to that class`; `transform is a sequence that processes individual plots`; `If scale is not
    an instance of GroupScale, it is converted to that class`; `yield_selected defines whether selected items should be
    yielded during run.  By default it is False`."""
    ix.add_class(ClassSpec("GroupPlots0", GP, fields={}, alias_of="GroupPlots"))
    cases = []
    heads = [("default select", None, [], "False",
              ["forall_v(lambda v: leaf_true(self._selector, v) and not leaf_raises(self._selector, v))"]),
             ("Selector object", "Inst[Selector]", [], "False", ["self._selector is select"]),
             ("class, callable or other object", "Obj",
              [r % "select" for r in NOT_CONTAINER] + ["not is_instance_of(select, 'Selector')"], leaf_bad("select"),
              ["is_instance_of(self._selector, 'Selector')", "self._selector._raise_on_error == True"]
              + leaf_post("self._selector._selector", "select")),
             ("string", "Str", [], "False",
              ["is_instance_of(self._selector, 'Selector')", "self._selector._raise_on_error == True",
               "forall_v(lambda v: contains_spec(vctx(v), select, leaf_true(self._selector._selector, v)))",
               "forall_v(lambda v: not leaf_raises(self._selector._selector, v) and leaf_safe(self._selector._selector, v))"])]
    for hn, hty, hreq, hbad, hens in heads:
        for n in range(2):
            for sn, sty, sens in (("no scale", "None", ["self._scale is None"]),
                                  ("GroupScale object", "Inst[GroupScale]", ["self._scale is scale"]),
                                  ("number", "Real", ["is_instance_of(self._scale, 'GroupScale')", "self._scale._scale_to == scale",
                                                      "not self._scale._allow_zero_scale", "not self._scale._allow_unknown_scale"])):
                if (hn != "Selector object" and sn != "no scale") or (n == 0 and sn != "no scale"):
                    continue
                params = {"self": "Self[GroupPlots0]", "group_by": "Inst[_GroupBy]"}
                defaults = {"yield_selected": False}
                if hty:
                    params["select"] = hty
                else:
                    params["select"] = "None"
                params.update({"transform": "Tuple[%s]" % ",".join(["Obj"] * n), "scale": sty, "yield_selected": "Bool"})
                cases.append(Contract(
                    GP, "GroupPlots.__init__", name="GroupPlots.__init__[%s; transform of %d; %s]" % (hn, n, sn),
                    params=params, defaults=defaults,
                    requires=hreq + seq_req("transform", n),
                    raises={"LenaTypeError": "(%s) or (%s)" % (hbad, seq_bad("transform", n))},
                    ensures=hens + sens + seq_post("self._transform", "transform", n)
                    + ["self._group_by is group_by", "self._yield_selected == yield_selected"],
                    modifies=["self._selector", "self._group_by", "self._scale", "self._transform", "self._yield_selected"]))
    # transform given as a sequence: kept as it is
    cases.append(Contract(
        GP, "GroupPlots.__init__", name="GroupPlots.__init__[Selector object; Sequence object; no scale]",
        params={"self": "Self[GroupPlots0]", "group_by": "Inst[_GroupBy]", "select": "Inst[Selector]",
                "transform": "Inst[Sequence]", "scale": "None", "yield_selected": "Bool"},
        ensures=["self._selector is select", "self._transform is transform", "self._scale is None",
                 "self._group_by is group_by", "self._yield_selected == yield_selected"],
        modifies=["self._selector", "self._group_by", "self._scale", "self._transform", "self._yield_selected"]))
    ix.add(Contract(GP, "GroupPlots.__init__", props=["C10", "C19"], cases=cases))


# ---------------------------------------------------------------------------------- documented defaults (lemmas)
def defaults_lemma(ix, cls, file, props, arg_types, kw_types, clauses, what, requires=()):
    """`Cls(<args>)` with every other parameter OMITTED: the object the constructor contract gives for the default values
    written in the real `def` (the engine takes them from the AST at a call that omits them) satisfies `clauses`, which
    state the DOCUMENTED defaults.  Over the contract of __init__ only; guards against a flipped default."""
    from pyvc.verify import Lemma

    def build(ip, st):
        from pyvc.calls import instantiate, eval_spec
        from pyvc.interp import VC
        from pyvc.smt import FALSE
        from pyvc.sym import Fun
        xs = [ip.make(t, "x%d" % k, st) for k, t in enumerate(arg_types)]
        kws = dict((k, ip.make(t, k, st)) for k, t in kw_types.items())
        env = dict(("x%d" % k, x) for k, x in enumerate(xs))
        env.update(kws)
        for r in requires:
            st.assume(eval_spec(ip, st, env, r))
        ip.entry = st.copy()
        ip.oldst = ip.entry
        cover = list(st.pc)
        n_normal = 0
        for s1, obj in instantiate(ip, st, Fun("class", name=cls, mod=None), xs, kws):
            n_normal += 1
            e2 = dict(env, obj=obj)
            for k, cl in enumerate(clauses):
                ip.emit("lemma", "default#%d: %s" % (k, cl), s1, eval_spec(ip, s1, e2, cl))
            ip.vcs.append(VC("canary ensures False#%d" % n_normal, "canary", list(s1.pc), FALSE, s1.trace))
        ip._exc_out = []          # (which arguments are refused is the subject of the constructor's own contract)
        if not n_normal:
            ip.emit("lemma", "the element can be constructed with its default arguments", st, FALSE)
        ip.vcs.append(VC("cover requires", "cover", cover, FALSE, ""))
    ix.lemmas.append(Lemma("%s(%s): documented defaults" % (cls, what), file, props, build,
                           notes="over the contract of %s.__init__ and the default values of its real `def`" % cls))


def default_expr_lemma(ix, cls, file, props, param, clauses):
    """a default that is no constant (a lambda, a module-level function): the default EXPRESSION of the real `def` is
    evaluated in its module and must satisfy `clauses` (over `d`, the value); the constructor contract says where the
    argument goes"""
    from pyvc.verify import Lemma

    def build(ip, st):
        from pyvc.calls import eval_spec
        from pyvc.contracts import find_function
        from pyvc.interp import VC, Unsupported
        from pyvc.smt import FALSE
        fn = find_function(ip.mod.tree, cls + ".__init__")
        a = fn.args
        names = [x.arg for x in a.args]
        pairs = dict(zip(names[len(names) - len(a.defaults):], a.defaults))
        if param not in pairs:
            raise Unsupported("parameter %s of %s.__init__ has no default" % (param, cls))
        ip.entry = st.copy()
        ip.oldst = ip.entry
        d = ip.ev1(pairs[param], st)
        for k, cl in enumerate(clauses):
            ip.emit("lemma", "default of %s#%d: %s" % (param, k, cl), st, eval_spec(ip, st, {"d": d}, cl))
        ip.vcs.append(VC("cover requires", "cover", list(st.pc), FALSE, ""))
    ix.lemmas.append(Lemma("%s(%s=<default expression>): documented defaults" % (cls, param), file, props, build,
                           notes="over the default expression in the real `def` of %s.__init__" % cls))


# ------------------------------------------------------------------------------------------------------ HistToGraph
def register_hist_to_graph(ix):
    """docstring: `make_value is a Variable that creates graph value from the bin value.  get_coordinate defines the
    coordinate of the graph point.  By default, it is the left bin edge.  Other allowed values are "right" and "middle".
    field_names set field names of resulting graphs.  scale sets scales of resulting graphs.  Incorrect values for
    make_value or get_coordinate raise, respectively, LenaTypeError or LenaValueError.`"""
    ix.add_class(ClassSpec("HistToGraph0", SE, fields={}, alias_of="HistToGraph"))
    MOD = ["self._make_value", "self._get_coordinate", "self._field_names", "self._scale"]
    BADC = "not (get_coordinate == 'left' or get_coordinate == 'right' or get_coordinate == 'middle')"
    REST = ["self._get_coordinate == get_coordinate", "self._field_names is field_names", "self._scale is scale",
            "self._get_coordinate == 'left' or self._get_coordinate == 'right' or self._get_coordinate == 'middle'"]
    P = {"get_coordinate": "Str", "field_names": "V", "scale": "V"}
    ix.add(Contract(SE, "HistToGraph.__init__", props=["C10"], dict_model="Val", cases=[
        Contract(SE, "HistToGraph.__init__", name="HistToGraph.__init__[Variable]", dict_model="Val",
                 params=dict({"self": "Self[HistToGraph0]", "make_value": "Inst[Variable]"}, **P),
                 raises={"LenaValueError": BADC},
                 ensures=["self._make_value is make_value"] + REST, modifies=MOD, post_class="HistToGraph"),
        Contract(SE, "HistToGraph.__init__", name="HistToGraph.__init__[default make_value]", dict_model="Val",
                 ghost={"str_instances": True},
                 params=dict({"self": "Self[HistToGraph0]", "make_value": "None"}, **P),
                 raises={"LenaValueError": BADC},
                 # `useful default`: a variable named hist_bin that returns the bin content itself
                 ensures=["is_instance_of(self._make_value, 'Variable')",
                          "self._make_value.var_context == {'name': 'hist_bin'}",
                          "forall_v(lambda v: self._make_value.getter(v) is v)"] + REST,
                 modifies=MOD, post_class="HistToGraph"),
        Contract(SE, "HistToGraph.__init__", name="HistToGraph.__init__[make_value is no Variable]", dict_model="Val",
                 params=dict({"self": "Self[HistToGraph0]", "make_value": "Obj"}, **P),
                 requires=["not is_instance_of(make_value, 'Variable')"],
                 raises={"LenaTypeError": "True"}, modifies=MOD),
        Contract(SE, "HistToGraph.__init__", name="HistToGraph.__init__[make_value is a number]", dict_model="Val",
                 params=dict({"self": "Self[HistToGraph0]", "make_value": "Real"}, **P),
                 raises={"LenaTypeError": "True"}, modifies=MOD),
    ]))
    defaults_lemma(ix, "HistToGraph", SE, ["C10"], [], {"make_value": "Inst[Variable]", "field_names": "V", "scale": "V"},
                   ["obj._get_coordinate == 'left'"], "make_value, field_names=, scale=")
    default_expr_lemma(ix, "HistToGraph", SE, ["C10"], "field_names", ["len(d) == 2", "d[0] == 'x'", "d[1] == 'y'"])


# --------------------------------------------------------------------------------------------------------- MapBins
def register_map_bins(ix):
    """docstring: `If seq is not a Sequence or an element with run method, it is converted to a Sequence.  If select_bins
    applied to histogram bins is True ..., the histogram is transformed.  Bin types can be given in a list or as a general
    Selector.  By default all histograms are accepted.  The "arbitrary bin" is returned by a callable get_example_bin.
    If drop_bins_context is False, context remains in bins.  By default, context of all histogram bins is discarded.
    In case of incorrect arguments, LenaTypeError is raised.`"""
    ix.add_class(ClassSpec("MapBins0", SB, fields={}, alias_of="MapBins"))
    MOD = ["self._seq", "self._select_bins", "self._get_example_bin", "self._drop_bins_context"]
    RUN = HAS_RUN.format(a="seq")
    tails = [("Selector object", "Inst[Selector]", [], "False", ["self._select_bins is select_bins"]),
             ("class, callable or other object", "Obj",
              [r % "select_bins" for r in NOT_CONTAINER] + ["not is_instance_of(select_bins, 'Selector')"],
              leaf_bad("select_bins"),
              ["is_instance_of(self._select_bins, 'Selector')", "self._select_bins._raise_on_error == True"]
              + leaf_post("self._select_bins._selector", "select_bins")),
             ("number", "Real", [], "True", [])]
    # `Bin types can be given in a list` (OR; a tuple: AND)
    for cls, kind, ty in (("And", "tuple", "Tuple[Obj,Obj]"), ("Or", "list", "PyList[2,Obj]")):
        req, ens, bad = container_post("self._select_bins", "select_bins", cls, 2)
        tails.append(("%s of 2 objects" % kind, ty, req, bad, ens))
    cases = []
    for tn, tty, treq, tbad, tens in tails:
        cases.append(Contract(
            SB, "MapBins.__init__", name="MapBins.__init__[element; %s]" % tn,
            params={"self": "Self[MapBins0]", "seq": "Obj", "select_bins": tty, "get_example_bin": "Obj",
                    "drop_bins_context": "Bool"},
            requires=["not has_attr(seq, '_has_no_data')"] + treq,
            raises={"LenaTypeError": "not (%s or %s) or (%s)" % (RUN, CONV.format(a="seq"), tbad),
                    "AssertionError": "not callable(get_example_bin)"},
            ensures=["%s implies self._seq is seq" % RUN,
                     "not %s implies is_instance_of(self._seq, 'Sequence') and len(self._seq._data_seq) == 1" % RUN,
                     "self._get_example_bin is get_example_bin", "self._drop_bins_context == drop_bins_context"] + tens,
            modifies=MOD))
    ix.add(Contract(SB, "MapBins.__init__", props=["C10"], cases=cases))
    # (the defaults of select_bins -- a lambda -- and get_example_bin -- a module function -- are not constants: a call
    # through the contract cannot omit them)
    defaults_lemma(ix, "MapBins", SB, ["C10"], ["Obj"], {"select_bins": "Inst[Selector]", "get_example_bin": "Obj"},
                   ["obj._drop_bins_context == True"], "seq, select_bins=, get_example_bin=",
                   requires=["not has_attr(x0, '_has_no_data')"])
    # `By default all histograms are accepted`; `get_example_bin (by default get_example_bin)` of lena.structures
    default_expr_lemma(ix, "MapBins", SB, ["C10"], "select_bins",
                       ["forall_v(lambda v: leaf_true(d, v) and not leaf_raises(d, v))"])
    default_expr_lemma(ix, "MapBins", SB, ["C10"], "get_example_bin", ["d is get_example_bin"])


# ------------------------------------------------------------------------------------------------------ IterateBins
def register_iterate_bins(ix):
    """docstring: `create_edges_str is a callable ... By default it is cell_to_string.  select_bins is a callable used to
    test bin contents.  By default, only those histograms are iterated where bins contain histograms.  Use select_bins to
    choose other classes.  See Selector for examples.  If create_edges_str is not callable, LenaTypeError is raised.`"""
    ix.add_class(ClassSpec("IterateBins0", SB, fields={}, alias_of="IterateBins"))
    MOD = ["self._create_edges_str", "self._select_bins"]
    HISTLEAF = ["forall_v(lambda v: leaf_true(self._select_bins._selector, v) == (is_instance_of(vdata(v), 'histogram') "
                "if v_has_context(v) else is_instance_of(v, 'histogram')))",
                "forall_v(lambda v: not leaf_raises(self._select_bins._selector, v))"]
    heads = [("default create_edges_str", "None", "False", ["self._create_edges_str is cell_to_string"]),
             ("callable or other object", "Obj", "not callable(create_edges_str)", ["self._create_edges_str is create_edges_str"])]
    # (default select_bins: Selector(lena.structures.histogram) -- a concrete class as the argument of Selector.__init__ has
    # no parameter type in the contract language: in those cases Selector.__init__ is executed in place from its real AST)
    tails = [("default select_bins", "None", [], "False", HISTLEAF),
             ("Selector object", "Inst[Selector]", [], "False", ["self._select_bins._selector is select_bins"]),
             ("class, callable or other object", "Obj",
              [r % "select_bins" for r in NOT_CONTAINER] + ["not is_instance_of(select_bins, 'Selector')"],
              leaf_bad("select_bins"), leaf_post("self._select_bins._selector", "select_bins")),
             ("number", "Real", [], "True", [])]
    cases = []
    for hn, hty, hbad, hens in heads:
        for tn, tty, treq, tbad, tens in tails:
            cases.append(Contract(
                SB, "IterateBins.__init__", name="IterateBins.__init__[%s; %s]" % (hn, tn),
                params={"self": "Self[IterateBins0]", "create_edges_str": hty, "select_bins": tty},
                ghost={"inline_callees": ["Selector.__init__"]} if tty == "None" else {},
                requires=treq, raises={"LenaTypeError": "(%s) or (%s)" % (hbad, tbad)},
                ensures=hens + ["is_instance_of(self._select_bins, 'Selector')", "self._select_bins._raise_on_error == True"]
                + tens, modifies=MOD))
    ix.add(Contract(SB, "IterateBins.__init__", props=["C10"], cases=cases))


# ------------------------------------------------------------------------------------------------------------ ToCSV
def register_to_csv(ix):
    """docstring: `separator delimits values in the output text.  Every row except the last one is ended with row_end and a
    newline.  The last row is ended with last_row_end (by default empty).  The result is yielded as one string starting
    from header.  If duplicate_last_bin is True, then for histograms contents of the last bin will be written in the end
    twice.`  Signature defaults: separator ",", header None, row_end "", last_row_end "", duplicate_last_bin True."""
    ix.add_class(ClassSpec("ToCSV0", TC, fields={}, alias_of="ToCSV"))
    F = ["separator", "header", "row_end", "last_row_end", "duplicate_last_bin"]
    ix.add(Contract(
        TC, "ToCSV.__init__", props=["C10", "C19"], dict_model="Val",
        params={"self": "Self[ToCSV0]", "separator": "Str", "header": "Val", "row_end": "Str", "last_row_end": "Str",
                "duplicate_last_bin": "Val"},
        raises={}, ensures=["self._%s == %s" % (f, f) for f in F], modifies=["self._" + f for f in F],
        post_class="ToCSV"))
    defaults_lemma(ix, "ToCSV", TC, ["C10", "C19"], [], {},
                   ["obj._separator == ','", "obj._header is None", "obj._row_end == ''", "obj._last_row_end == ''",
                    "obj._duplicate_last_bin == True"], "")


# ------------------------------------------------------------------------------------------------------------ Write
def register_write(ix):
    """docstring: `output_directory is the base output directory.  output_filename is the name for unnamed data.  verbose
    sets whether additional information should be printed on the screen.  existing_unchanged and overwrite are used
    during run to change the handling of existing files.  These options are mutually exclusive: their simultaneous use
    raises LenaValueError.`  (non-string names: LenaTypeError.)  Defaults: "output", verbose, neither option."""
    ix.add_class(ClassSpec("Write0", WR, fields={}, alias_of="Write"))
    wr = ix.classes["Write"]
    # (the fields of ClassSpec Write of C19.py + the two only a template directory needs: the view of P_names.Write_named)
    ix.add_class(ClassSpec("Write_tpl", WR, alias_of="Write", invariant=list(wr.invariant),
                           fields=dict(wr.fields, _orig_outdir="Str", _format_context="Inst[Formatter]")))
    MOD = ["self._output_filename", "self._orig_outdir", "self.output_directory", "self._format_context", "self._verbose",
           "self._existing_unchanged", "self._overwrite"]
    P = {"verbose": "Bool", "existing_unchanged": "Bool", "overwrite": "Bool"}
    cases = []
    for nm, req, bad, extra in (
            ("plain directory", "not ('{' in output_directory)", "existing_unchanged and overwrite", []),
            # a directory name with a formatting field: the formatter of that very string is kept for _set_context
            ("template directory", "'{' in output_directory",
             "fmt_malformed(output_directory) or (existing_unchanged and overwrite)",
             ["self._format_context.fmt == output_directory"])):
        cases.append(Contract(
            WR, "Write.__init__", name="Write.__init__[strings, %s]" % nm,
            params=dict({"self": "Self[Write0]", "output_directory": "Str", "output_filename": "Str"}, **P),
            requires=[req], raises={"LenaValueError": bad},
            ensures=["self.output_directory == output_directory", "self._orig_outdir == output_directory",
                     "self._output_filename == output_filename", "self._verbose == verbose",
                     "self._existing_unchanged == existing_unchanged", "self._overwrite == overwrite",
                     # the invariant of ClassSpec Write (C19.py)
                     "not (self._existing_unchanged and self._overwrite)"] + extra,
            modifies=MOD, post_class="Write_tpl" if extra else "Write"))
    for nm, d, f in (("directory is no string", "Real", "Str"), ("file name is no string", "Str", "Real"),
                     ("directory is None", "None", "Str")):
        cases.append(Contract(WR, "Write.__init__", name="Write.__init__[%s]" % nm,
                              params=dict({"self": "Self[Write0]", "output_directory": d, "output_filename": f}, **P),
                              raises={"LenaTypeError": "True"}, modifies=MOD))
    ix.add(Contract(WR, "Write.__init__", props=["C19", "C10"], cases=cases, ghost={"select_by_requires": True}))
    defaults_lemma(ix, "Write", WR, ["C19", "C10"], ["Str"], {},
                   ["obj._output_filename == 'output'", "obj._verbose == True", "obj._existing_unchanged == False",
                    "obj._overwrite == False", "obj.output_directory == x0"], "output_directory", requires=["not ('{' in x0)"])
    defaults_lemma(ix, "Write", WR, ["C19", "C10"], ["Str"], {},
                   ["obj._output_filename == 'output'", "obj._verbose == True", "obj._existing_unchanged == False",
                    "obj._overwrite == False", "obj.output_directory == x0", "obj._format_context.fmt == x0"],
                   "template output_directory", requires=["'{' in x0"])


def register_group_plots_defaults(ix):
    defaults_lemma(ix, "GroupPlots", GP, ["C10", "C19"], ["Inst[_GroupBy]"], {"transform": "Tuple[]"},
                   ["obj._yield_selected == False", "obj._scale is None", "forall_v(lambda v: leaf_true(obj._selector, v) and not leaf_raises(obj._selector, v))",
                    "obj._group_by is x0"], "group_by, transform=()")
    default_expr_lemma(ix, "GroupPlots", GP, ["C10", "C19"], "transform", ["len(d) == 0"])


# ------------------------------------------------------------------------------- small constructors: fields as given
def register_simple(ix):
    # ---- RunningChunkBy (C17): `container is a callable constructor for new chunks.  If container initialization requires
    # an iterable, set from_iterable to True` (defaults: tuple, False).  The chunk size is stored unchecked: the class
    # invariant `_cs >= 1` of the run contracts (property C17: chunk sizes 1..5) is the caller's obligation.
    ix.add_class(ClassSpec("RunningChunkBy0", FE, fields={}, alias_of="RunningChunkBy"))
    MOD = ["self._cs", "self._container", "self._from_iterable"]
    ENS = ["self._cs == chunk_size", "self._container is container", "self._from_iterable == from_iterable", "self._cs >= 1"]
    ix.add(Contract(FE, "RunningChunkBy.__init__", props=["C17"], cases=[
        # (the tuple case last: the engine cannot fit a call-site argument to Builtin[...], it refuses the call)
        Contract(FE, "RunningChunkBy.__init__", name="RunningChunkBy.__init__[abstract container]",
                 params={"self": "Self[RunningChunkBy0]", "chunk_size": "Int", "container": "Obj", "from_iterable": "Bool"},
                 requires=["chunk_size >= 1", "not (container == tuple)"], raises={"LenaTypeError": "not callable(container)"},
                 # (with the second invariant of that view: the container is not the builtin tuple)
                 ensures=ENS + ["not (self._container == tuple)"], modifies=MOD, post_class="RunningChunkBy"),
        Contract(FE, "RunningChunkBy.__init__", name="RunningChunkBy.__init__[container is a number]",
                 params={"self": "Self[RunningChunkBy0]", "chunk_size": "Int", "container": "Real", "from_iterable": "Bool"},
                 raises={"LenaTypeError": "True"}, modifies=MOD),
        Contract(FE, "RunningChunkBy.__init__", name="RunningChunkBy.__init__[tuple]",
                 params={"self": "Self[RunningChunkBy0]", "chunk_size": "Int", "container": "Builtin[tuple]",
                         "from_iterable": "Bool"},
                 requires=["chunk_size >= 1"], raises={}, ensures=ENS, modifies=MOD, post_class="RunningChunkBy_tuple")]))
    defaults_lemma(ix, "RunningChunkBy", FE, ["C17"], ["Int"], {"container": "Obj"},
                   ["obj._from_iterable == False", "obj._cs == x0"], "chunk_size, container=",
                   requires=["x0 >= 1", "callable(container)", "not (container == tuple)"])
    default_expr_lemma(ix, "RunningChunkBy", FE, ["C17"], "container", ["d is tuple"])
    # FINDING (fails on the unchanged tree; props=[]).  Without the caller's promise the constructor does not establish the
    # invariant of the run contracts: RunningChunkBy(0) is accepted and list(RunningChunkBy(0).run(iter(range(4)))) ==
    # [(), (), (), (), ()] (five empty chunks for four values); RunningChunkBy(-1).run(...) raises a bare ValueError (islice).
    ix.add(Contract(FE, "RunningChunkBy.__init__", qualkey="RunningChunkBy.__init__#any-size", props=[],
                    name="RunningChunkBy.__init__[FINDING: any chunk size]",
                    params={"self": "Self[RunningChunkBy0]", "chunk_size": "Int", "container": "Builtin[tuple]",
                            "from_iterable": "Bool"},
                    raises={"LenaValueError": "chunk_size < 1"}, ensures=["self._cs >= 1"], modifies=MOD,
                    notes="fails (sat): chunk_size is stored unchecked (0 and negative sizes are accepted)"))
    # (StoreFilled.__init__ and its default: contracts/P_acc3.py)
    # ---- ScaleTo: `scale_to is the number to which the data will be scaled`
    ix.add_class(ClassSpec("ScaleTo0", SE, fields={}, alias_of="ScaleTo"))
    ix.add(Contract(SE, "ScaleTo.__init__", props=["C12"],
                    params={"self": "Self[ScaleTo0]", "scale_to": "Real"}, raises={},
                    ensures=["self._scale_to == scale_to"], modifies=["self._scale_to"], post_class="ScaleTo"))
    # ---- PDFToPNG: `Set output format (by default png).  ... To convert all pdfs to images, set overwrite to True (by
    # default it is False).  To disable printing messages during run, set verbose to False.  timeoutsec is time (in
    # seconds) for subprocess timeout` (60)
    ix.add_class(ClassSpec("PDFToPNG0", PP, fields={}, alias_of="PDFToPNG"))
    ix.add(Contract(PP, "PDFToPNG.__init__", props=["C10", "C19"],
                    params={"self": "Self[PDFToPNG0]", "format": "Str", "overwrite": "Bool", "verbose": "Bool",
                            "timeoutsec": "Int"}, raises={},
                    ensures=["self._format == format", "self._overwrite == overwrite", "self._verbose == verbose",
                             "self._timeoutsec == timeoutsec"],
                    modifies=["self._format", "self._overwrite", "self._verbose", "self._timeoutsec"], post_class="PDFToPNG"))
    defaults_lemma(ix, "PDFToPNG", PP, ["C10", "C19"], [], {},
                   ["obj._format == 'png'", "obj._overwrite == False", "obj._verbose == True", "obj._timeoutsec == 60"], "")
    # ---- Print: `before is a string appended before the first element ... sep separates elements, end is appended after
    # the last element.  transform is a function which transforms passing items` (default: the item itself)
    ix.add_class(ClassSpec("Print0", PR, fields={}, alias_of="Print"))
    PMOD = ["self.before", "self.sep", "self.end", "self.transform"]
    PENS = ["self.before == before", "self.sep == sep", "self.end == end"]
    ix.add(Contract(PR, "Print.__init__", props=["C02"], cases=[
        Contract(PR, "Print.__init__", name="Print.__init__[transform]",
                 params={"self": "Self[Print0]", "before": "Str", "sep": "Str", "end": "Str", "transform": "Obj"},
                 raises={}, ensures=PENS + ["self.transform is transform"], modifies=PMOD, post_class="Print"),
        Contract(PR, "Print.__init__", name="Print.__init__[default transform]",
                 params={"self": "Self[Print0]", "before": "Str", "sep": "Str", "end": "Str", "transform": "None"},
                 raises={}, ensures=PENS + ["forall_v(lambda v: self.transform(v) is v)"], modifies=PMOD)]))
    defaults_lemma(ix, "Print", PR, ["C02"], [], {"transform": "Obj"},
                   ["obj.before == ''", "obj.sep == ''", "obj.end == '\\n'"], "transform=")
    # ---- Progress: `name, if set, customizes the output ... format is a formatting string for the output` (a fixed
    # default text when empty)
    ix.add_class(ClassSpec("Progress0", PG, fields={}, alias_of="Progress"))
    ix.add(Contract(PG, "Progress.__init__", props=["C02"],
                    params={"self": "Self[Progress0]", "name": "Str", "format": "Str"}, raises={},
                    ensures=["self._name == name", "format != '' implies self._format == format",
                             "format == '' implies self._format == '{percent:> 4.0f}% [{index}/{total}] {name}'"],
                    modifies=["self._name", "self._format"], post_class="Progress"))
    defaults_lemma(ix, "Progress", PG, ["C02"], [], {},
                   ["obj._name == ''", "obj._format == '{percent:> 4.0f}% [{index}/{total}] {name}'"], "")


# ------------------------------------------------------------------------------------------------------ LaTeXToPDF
def register_latex_to_pdf(ix):
    """docstring: `overwrite sets whether existing unchanged pdfs shall be overwritten during run.  verbose = 0 allows no
    output messages ...  create_command is a function which accepts texfile_name, outfilename, output_directory, context
    ... and returns a list made of the command and its arguments` (not callable: LenaTypeError); no process is pending."""
    def lib_ordered_dict(ip, st, pos, kws):
        """collections.OrderedDict(): a new, empty mapping -- here an abstract object nothing else is known about (the
        process pool of LaTeXToPDF is not modelled: P_sel.py / P_out.py keep the code that uses it in opaque regions)"""
        from pyvc.interp import Unsupported
        from pyvc.sym import Opaque
        if pos or kws:
            raise Unsupported("collections.OrderedDict with arguments")
        ip.assumptions.add("library contract (tier A): collections.OrderedDict() returns a new object and raises nothing")
        return [(st, Opaque(ip.reg.new("ordered_dict", "Obj")))]
    ix.lib.setdefault(("collections", "OrderedDict"), lib_ordered_dict)
    ix.add_class(ClassSpec("LaTeXToPDF0", LP, fields={}, alias_of="LaTeXToPDF"))
    # (ClassSpec LaTeXToPDF of P_sel / P_out types create_command as an abstract callable; the default is None)
    ix.add_class(ClassSpec("LaTeXToPDF_default", LP, alias_of="LaTeXToPDF",
                           fields=dict(ix.classes["LaTeXToPDF"].fields, create_command="None")))
    MOD = ["self._overwrite", "self.verbose", "self.create_command", "self.processes"]
    ENS = ["self._overwrite == overwrite", "self.verbose == verbose"]
    ix.add(Contract(LP, "LaTeXToPDF.__init__", props=["C10", "C19"], cases=[
        Contract(LP, "LaTeXToPDF.__init__", name="LaTeXToPDF.__init__[default command]",
                 params={"self": "Self[LaTeXToPDF0]", "overwrite": "Bool", "verbose": "Int", "create_command": "None"},
                 raises={}, ensures=ENS + ["self.create_command is None"], modifies=MOD, post_class="LaTeXToPDF_default"),
        Contract(LP, "LaTeXToPDF.__init__", name="LaTeXToPDF.__init__[command]",
                 params={"self": "Self[LaTeXToPDF0]", "overwrite": "Bool", "verbose": "Int", "create_command": "Obj"},
                 # (the source tests `if create_command and not callable(create_command)`: a FALSE value of any kind is taken as
                 # "no command", like None)
                 raises={"LenaTypeError": "create_command and not callable(create_command)"},
                 ensures=ENS + ["self.create_command is create_command"], modifies=MOD, post_class="LaTeXToPDF")]))
    # FINDING (fails on the unchanged tree; props=[]: part of no check).  The source's own message: `create_command must be
    # callable`; the test is `if create_command and not callable(create_command)`, so a FALSE non-callable (0, "", [], 0.0) is
    # stored without complaint: LaTeXToPDF(create_command=0).create_command == 0 (replayed), and run then silently uses the
    # default pdflatex command.
    ix.add(Contract(LP, "LaTeXToPDF.__init__", qualkey="LaTeXToPDF.__init__#callable-check", props=[],
                    name="LaTeXToPDF.__init__[FINDING: every command that is not callable is refused]",
                    params={"self": "Self[LaTeXToPDF0]", "overwrite": "Bool", "verbose": "Int", "create_command": "Obj"},
                    raises={"LenaTypeError": "not callable(create_command)"}, modifies=MOD,
                    notes="fails (sat): a non-callable object whose truth value is False passes the type check"))
    defaults_lemma(ix, "LaTeXToPDF", LP, ["C10", "C19"], [], {},
                   ["obj._overwrite == False", "obj.verbose == 1", "obj.create_command is None"], "")


# --------------------------------------------------------------------------- selection helpers of the output elements
def register_helpers(ix):
    """the nested selection tests of PDFToPNG.run / LaTeXToPDF.run (C10: which values these elements select) and the
    template choice of RenderLaTeX.  The nested defs stay inline=True: their callers (P_sel.py, P_out.py) go on executing
    them in place; here they are also verified on their own against the docstrings."""
    T_ = "ctx_get(context, 'output', 'filetype')"
    # `Other values are passed unchanged`: a value is a pdf iff context.output.filetype is "pdf"
    ix.add(Contract(PP, "PDFToPNG.run.is_pdf", props=["C10"], inline=True, dict_model="Val",
                    params={"context": "Val"}, result="Bool", requires=["isdict(context)"], raises={},
                    ensures=["result == (%s == present('pdf'))" % T_]))
    # docstring of is_tex_file: `May be transformed by this class`: context.output.filetype is "tex"
    ix.add(Contract(LP, "LaTeXToPDF.run.is_tex_file", props=["C10"], inline=True, dict_model="Val",
                    params={"context": "Val"}, result="Bool", requires=["isdict(context)"], raises={},
                    ensures=["result == (%s == present('tex'))" % T_]))
    # RenderLaTeX docstring: `select_template ... If a string, it is the name of the template to be used (unless
    # context.output.template overwrites that) ... If select_template is an empty string (default) and no template could be
    # found in the context, LenaRuntimeError is raised`
    TP = "ctx_get(vctx(val), 'output', 'template')"
    FOUND = "(%s != absent() and the(%s))" % (TP, TP)
    ix.add(Contract(RL, "_select_template_or_default", props=["C10", "C19"], dict_model="Val",
                    params={"val": "V", "default": "Str"}, result="Val",
                    raises={"LenaRuntimeError": "not %s and default == ''" % FOUND},
                    ensures=["%s implies result == the(%s)" % (FOUND, TP),
                             "not %s implies result == default" % FOUND,
                             "ctx_now(val) == old(ctx_now(val))"]))


# --------------------------------------------------------------------------------------- Writer, normalize_path
def register_writer(ix):
    """Writer: `deprecated: use Write` -- the very Write its arguments give.  normalize_path (nested in
    Write._make_filename; docstring of Write.run: `dirname is always relative to self.output_directory`): a relative name is
    kept, the leading separator of an absolute one is removed."""
    V = ["result.output_directory == args[0]", "result._verbose == True", "result._existing_unchanged == False",
         "not (result._existing_unchanged and result._overwrite)", "is_instance_of(result, 'Write')"]
    ix.add(Contract(WR, "Writer", props=["C19"], cases=[
        Contract(WR, "Writer", name="Writer[directory]", vararg="args", kwarg="kwargs",
                 params={"args": "Tuple[Str]", "kwargs": "KwDict[]"}, result="Inst[Write]",
                 requires=["not ('{' in args[0])"], raises={},
                 ensures=V + ["result._output_filename == 'output'", "result._overwrite == False"]),
        Contract(WR, "Writer", name="Writer[directory, file name, overwrite=]", vararg="args", kwarg="kwargs",
                 params={"args": "Tuple[Str,Str]", "kwargs": "KwDict[overwrite:Bool]"}, result="Inst[Write]",
                 requires=["not ('{' in args[0])"], raises={},
                 ensures=V + ["result._output_filename == args[1]", "result._overwrite == old(kwargs['overwrite'])"]),
        Contract(WR, "Writer", name="Writer[directory, both options]", vararg="args", kwarg="kwargs",
                 params={"args": "Tuple[Str]", "kwargs": "KwDict[existing_unchanged:Bool,overwrite:Bool]"}, result="Inst[Write]",
                 requires=["not ('{' in args[0])"],
                 raises={"LenaValueError": "kwargs['existing_unchanged'] and kwargs['overwrite']"},
                 ensures=["result.output_directory == args[0]", "result._overwrite == old(kwargs['overwrite'])",
                          "result._existing_unchanged == old(kwargs['existing_unchanged'])",
                          "not (result._existing_unchanged and result._overwrite)"])]))
    ix.add(Contract(WR, "Write._make_filename.normalize_path", props=["C19"], inline=True, ghost={"paths": True},
                    params={"path_name": "Str", "path": "Str"}, result="Str",
                    # (a name that starts with TWO separators is still absolute after one is removed: the assert of the
                    # source fails -- the finding recorded in P_out.py, Write._make_filename#any-names)
                    raises={"AssertionError": "path_isabs(path) and path_isabs(path[1:])"},
                    ensures=["not path_isabs(path) implies result == path",
                             "path_isabs(path) implies result == path[1:]",
                             "not path_isabs(result)"]))


def sp_closure_returns(ip, st, pos, kws):
    """closure_returns(f, v, x): on every path on which the call f(v) of the python closure f (a lambda made by the code
    under verification, executed from its real AST on a copy of the state; callees by their contracts) returns, it returns
    x.  Symbols created during the run (results of callees, constrained by their postconditions in the path condition)
    stay free in the goal: the statement is proved for all their values."""
    from pyvc.calls import call_value
    from pyvc.interp import Unsupported
    from pyvc.smt import AND, IMP
    from pyvc.sym import Bool, Fun
    f, v, x = pos
    if not (isinstance(f, Fun) and f.kind == "lambda"):
        raise Unsupported("closure_returns: a lambda of the code under verification expected, got %r" % (f,))
    s2 = st.copy()
    n0 = len(st.pc)
    saved, sm, nv = ip._exc_out, ip.spec_mode, len(ip.vcs)
    ip._exc_out, ip.spec_mode = [], 0
    try:
        outs = call_value(ip, s2, f, [v], {})
    finally:
        ip._exc_out, ip.spec_mode = saved, sm
        del ip.vcs[nv:]         # (preconditions of the callees inside the closure: not the subject of this clause)
    return Bool(AND(*[IMP(AND(*s.pc[n0:]), ip.py_eq(s, r, x)) for s, r in outs]))


# ------------------------------------------------------------------------------------------------------ RenderLaTeX
def register_render_latex(ix):
    ix.spec_names["closure_returns"] = sp_closure_returns
    """docstring: `select_template is a string or a callable.  If a string, it is the name of the template to be used
    (unless context.output.template overwrites that).  If select_template is a callable, it must accept a value from the
    flow and return template name.  select_data is a callable to choose data to be rendered ... By default CSV files are
    selected.  environment allows user-defined initialisation of jinja Environment ... In that case one must set
    template_dir for that environment manually` (both given: LenaValueError).  `Set from_data to True to render the data
    part.  verbose controls the verbosity of output.`  Wrong types: LenaTypeError."""
    ix.add_class(ClassSpec("RenderLaTeX0", RL, fields={}, alias_of="RenderLaTeX"))
    MOD = ["self._select_template", "self._select_data", "self._environment", "self._from_data", "self._verbose"]
    TP = "ctx_get(vctx(v), 'output', 'template')"
    FOUND = "(%s != absent() and the(%s))" % (TP, TP)
    heads = [("template name", "Str", "False",
              ["forall_v(lambda v: implies(%s, closure_returns(self._select_template, v, the(%s))))" % (FOUND, TP),
               "forall_v(lambda v: implies(not %s, closure_returns(self._select_template, v, select_template)))" % FOUND]),
             ("template callable or other object", "Obj", "not callable(select_template)",
              ["self._select_template is select_template"]),
             ("template is a number", "Real", "True", [])]
    tails = [("default select_data", "None", "False", ["self._select_data is _is_csv"], "RenderLaTeX_csv"),
             ("select_data callable or other object", "Obj", "not callable(select_data)",
              ["self._select_data is select_data"], "RenderLaTeX")]
    cases = []
    for hn, hty, hbad, hens in heads:
        for tn, tty, tbad, tens, pc in tails:
            if hty == "Real" and tty != "None":
                continue
            BAD = "((%s) or (%s))" % (hbad, tbad)
            cases.append(Contract(
                RL, "RenderLaTeX.__init__", name="RenderLaTeX.__init__[%s; %s; user environment]" % (hn, tn), dict_model="Val",
                params={"self": "Self[RenderLaTeX0]", "select_template": hty, "template_dir": "Str", "select_data": tty,
                        "environment": "Obj", "from_data": "Bool", "verbose": "Int"},
                requires=["not isinstance(select_template, str)"] if hty == "Obj" else [],
                raises={"LenaTypeError": BAD, "LenaValueError": "not %s and template_dir != '.'" % BAD},
                ensures=hens + tens + ["self._environment is environment", "self._from_data == from_data",
                                       "self._verbose == verbose"],
                modifies=MOD, post_class=pc))
    # ---- no environment: `template_dir is the path to the directory with templates (used by jinja2.FileSystemLoader).  By
    # default, it is the current directory`: the element makes its own environment, whose loader reads THAT directory.
    # jinja2 is third party: the loader is an abstract object that is a function of the directory, the environment an object
    # that keeps the loader it is given (assumed; listed among the assumptions of the units)
    def lib_fs_loader(ip, st, pos, kws):
        """jinja2.FileSystemLoader(searchpath): an object determined by the path"""
        from pyvc.interp import Unsupported
        from pyvc.smt import T
        from pyvc.sym import Opaque
        if len(pos) != 1 or kws:
            raise Unsupported("jinja2.FileSystemLoader: one positional argument expected")
        ip.reg.need_val()
        f = ip.reg.ufun("jinja_fs_loader", ["Key"], "Obj")
        ip.assumptions.add("library contract (tier A): jinja2.FileSystemLoader(path) raises nothing and returns a loader "
                           "determined by the path")
        return [(st, Opaque(T("(%s %s)" % (f, ip.key_term(pos[0]).s), "Obj")))]
    ix.lib.setdefault(("jinja2", "FileSystemLoader"), lib_fs_loader)
    ix.spec_names["jinja_fs_loader"] = lambda ip, st, pos, kws: lib_fs_loader(ip, st, pos, kws)[0][1]
    ix.add_class(ClassSpec("_Environment", RL, fields={"loader": "Obj"}))
    ix.add(Contract(RL, "_Environment.__init__", props=[], trusted=True, vararg="args", kwarg="jkws",
                    params={"self": "Self[_Environment]", "args": "Tuple[]", "jkws": "KwDict[loader:Obj]"},
                    raises={}, ensures=["self.loader is old(jkws['loader'])"], modifies=["self.loader"],
                    notes="assumed (third party): jinja2.Environment.__init__ keeps the loader it is given and raises nothing"))
    for spec in ("RenderLaTeX", "RenderLaTeX_csv"):
        ix.add_class(ClassSpec(spec + "_own_env", RL, alias_of="RenderLaTeX",
                               fields=dict(ix.classes[spec].fields, _environment="Inst[_Environment]")))
    for hn, hty, hbad, hens in heads:
        for tn, tty, tbad, tens, pc in tails:
            if hty == "Real" and tty != "None":
                continue
            cases.append(Contract(
                RL, "RenderLaTeX.__init__", name="RenderLaTeX.__init__[%s; %s; no environment]" % (hn, tn), dict_model="Val",
                params={"self": "Self[RenderLaTeX0]", "select_template": hty, "template_dir": "Str", "select_data": tty,
                        "environment": "None", "from_data": "Bool", "verbose": "Int"},
                requires=["not isinstance(select_template, str)"] if hty == "Obj" else [],
                raises={"LenaTypeError": "((%s) or (%s))" % (hbad, tbad)},
                ensures=hens + tens + ["is_instance_of(self._environment, '_Environment')",
                                       "self._environment.loader is jinja_fs_loader(template_dir)",
                                       "self._from_data == from_data", "self._verbose == verbose"],
                modifies=MOD, post_class=pc + "_own_env"))
    ix.add(Contract(RL, "RenderLaTeX.__init__", props=["C10", "C19"], dict_model="Val", cases=cases))
    defaults_lemma(ix, "RenderLaTeX", RL, ["C10", "C19"], [], {"select_template": "Obj"},
                   ["obj._from_data == False", "obj._verbose == 0", "obj._select_data is _is_csv",
                    "obj._environment.loader is jinja_fs_loader('.')"],
                   "select_template=", requires=["not isinstance(select_template, str)"])
    defaults_lemma(ix, "RenderLaTeX", RL, ["C10", "C19"], [], {"select_template": "Obj", "environment": "Obj"},
                   ["obj._from_data == False", "obj._verbose == 0", "obj._select_data is _is_csv"],
                   "select_template=, environment=", requires=["not isinstance(select_template, str)"])


# ------------------------------------------------------------------------------------------------------ DropContext
def register_drop_context(ix):
    """docstring: `Sequence that transforms (data, context) flow so that only data remains in the inner sequence.  Context is
    restored outside DropContext.`  __init__: `*args will form a Sequence`."""
    ix.add_class(ClassSpec("DropContext0", DC, fields={}, alias_of="DropContext"))
    ix.add_class(ClassSpec("DropContext", DC, fields={"sequence": "Inst[Sequence]", "cur_context": "None"}))
    ix.add_class(ClassSpec("DropContext_used", DC, fields={"sequence": "Inst[Sequence]", "cur_context": "Dict"},
                           alias_of="DropContext"))
    cases = []
    for n in range(3):
        cases.append(Contract(
            DC, "DropContext.__init__", name="DropContext.__init__[%d elements]" % n, vararg="args",
            params={"self": "Self[DropContext0]", "args": "Tuple[%s]" % ",".join(["Obj"] * n)},
            requires=seq_req("args", n), raises={"LenaTypeError": seq_bad("args", n)},
            ensures=seq_post("self.sequence", "args", n) + ["self.cur_context is None"],
            modifies=["self.sequence", "self.cur_context"]))
    ix.add(Contract(DC, "DropContext.__init__", props=["C02", "C10"], cases=cases))
    # _make_iterator: `only data remains in the inner sequence` -- the k-th value handed to the inner sequence is the data
    # part of the k-th value of the flow, as the very same object, handed over when exactly k + 1 values have been pulled
    # (C02: no look-ahead), and the element remembers THAT value's own context object (what run restores); the flow is a
    # (data, context) flow (class docstring)
    XS = "content(iterable)"
    def make_iterator(name, spec):
        return Contract(
            DC, "DropContext._make_iterator", name="DropContext._make_iterator[%s]" % name, dict_model="Val",
            ghost={"v_unpack_pair": True},
            params={"self": "Self[%s]" % spec, "iterable": "Iter[V]"}, generator=True, yields="V",
            requires=["pulled(iterable) == 0", "all(v_has_context(%s[k]) for k in range(len(%s)))" % (XS, XS)],
            loops={0: LoopSpec(invariant=["pulled(iterable) == _i", "len(out) == _i",
                                          "all(out[k] is vdata(%s[k]) for k in range(_i))" % XS])},
            at_yield=["pulled(iterable) == _i + 1", "len(out) == _i", "yielded is vdata(%s[_i])" % XS,
                      "self.cur_context is context", "ctx_now(%s[_i]) == vctx(%s[_i])" % (XS, XS)],
            ensures=["pulled(iterable) == len(%s)" % XS, "len(out) == len(%s)" % XS,
                     "all(out[k] is vdata(%s[k]) for k in range(len(%s)))" % (XS, XS)],
            modifies=["iterable", "self.cur_context"], post_class="DropContext_used")
    ix.add(Contract(DC, "DropContext._make_iterator", props=["C02", "C10"], dict_model="Val",
                    cases=[make_iterator("new element", "DropContext"), make_iterator("used element", "DropContext_used")]))


# DropContext.run is NOT under contract: `result[1]` / `context.update(new_context)` on an abstract flow value, and -- the heart
# of its docstring -- the context restored for a result is the one _make_iterator stored while the INNER sequence was
# pulling: a deferred effect of a generator object consumed by another iterator.  The engine havocs self.cur_context at
# the call of _make_iterator (its `modifies`), so "the restored context is the one of the value the result came from"
# cannot be stated over its model.  (__init__ and _make_iterator above carry the C02 / C10 clauses that can.)


PARTS = [register_run_if, register_map_group, register_group_plots, register_hist_to_graph, register_map_bins,
         register_iterate_bins, register_to_csv, register_write, register_group_plots_defaults, register_simple,
         register_latex_to_pdf, register_helpers, register_writer, register_render_latex, register_drop_context]


def register(ix):
    for f in PARTS:
        f(ix)
