"""C02 -- laziness.  The clauses live at the yields (`at_yield`) and in `pulled(flow)` facts: since they hold at EVERY yield
they hold for every consumer stop point k and for infinite inputs (no post-state is needed).  Most of them sit on the
contracts of C01 (Run._call_run: pulled == len(out)+1 at each yield; Sequence.run / Source.__call__: nothing is pulled by
building the chain); this file adds the selective streaming elements."""
from pyvc.contracts import Contract, LoopSpec, ClassSpec

FE = "lena/flow/elements.py"


def register(ix):
    ix.add_class(ClassSpec("RunIf", FE, fields={"_select": "Obj", "_seq": "Inst[Sequence]"}))
    ix.add(Contract(
        FE, "RunIf.run", props=["C02", "C10"],
        params={"self": "Self[RunIf]", "flow": "Iter[V]"}, generator=True, yields="V",
        requires=["pulled(flow) == 0"],
        loops={0: LoopSpec(invariant=["pulled(flow) == _i0"]),
               1: LoopSpec(invariant=["pulled(flow) == _i0 + 1"], keep=["val"])},
        at_yield=[
            # laziness: when a result is handed over, exactly the values up to the current one have been pulled
            "pulled(flow) == _i0 + 1",
            # C10: a value that is not selected is passed on as the very same object
            "not el_call(self._select, val) implies yielded is val",
        ],
        ensures=["pulled(flow) == len(content(flow))"],
        modifies=["flow"]))
