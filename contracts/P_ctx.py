"""sidecar contracts (see tools/CONTRACTS_GUIDE.md)

P_ctx -- context functions and context elements (properties C07, C08).  Sidecar contracts of lena/context/functions.py
(intersection, update_nested, str_to_list, str_to_dict, format_update_with, to_string), lena/context/elements.py
(DeleteContext) and lena/context/update_context.py (UpdateContext).

Reference functions are written from the property texts (properties.jsonl C07 / C08) and the docstrings:
  inter(a, b, l)   the greatest dictionary contained in both a and b, comparing nested dictionaries down to level l
  (diff, upd, walk are those of C07.py / C08.py)."""
from pyvc.contracts import Contract, LoopSpec, ClassSpec
from pyvc.smt import T, I
from pyvc.sym import Opaque, Bool, Str, Num
from pyvc.dicts import dterm
from pyvc.verify import Lemma

from contracts.C07 import declare_diff, diff_def, declare_upd, upd_def

CF = "lena/context/functions.py"
CE = "lena/context/elements.py"
UC = "lena/context/update_context.py"
SENT = "Sentinel[lena.context.functions._sentinel]"

# ------------------------------------------------------------------------------------------------------- intersection
# docstring / property text: every item of the result is contained in both dictionaries (recursively) and the result is
# the greatest such dictionary: a key is kept iff both have it and either the values are equal (kept as it is) or both
# values are dictionaries and the recursion level is not exhausted (then the intersection of the two values is kept --
# also when it is empty: {} is contained in every dictionary).  level 0: the arguments must be equal, otherwise {}.
INTER_ITEM = """(define-fun inter_item ((a Val) (b Val) (l Int) (k Key)) Opt
  (ite (or (not (vhas a k)) (not (vhas b k))) none
  (ite (= (vget a k) (vget b k)) (select (dm a) k)
  (ite (and (not (= l 1)) (isD (vget a k)) (isD (vget b k))) (some (inter (vget a k) (vget b k) (- l 1)))
       none))))"""


def inter_def(a, b, l):
    r = "(inter %s %s %s)" % (a, b, l)
    return ("(=> (and (isD {a}) (isD {b})) (and (isD {r}) "
            "(=> (= {l} 0) (= {r} (ite (= {a} {b}) {a} (D emptymap)))) "
            "(=> (not (= {l} 0)) (forall ((ik Key)) (! (= (select (dm {r}) ik) (inter_item {a} {b} {l} ik)) "
            ":pattern ((select (dm {r}) ik)))))))").format(a=a, b=b, l=l, r=r)


def declare_inter(reg):
    reg.need_val()
    reg.ufun("inter", ["Val", "Val", "Int"], "Val")
    reg.fun_decl("inter_item", INTER_ITEM)


def sp_inter_spec(ip, st, pos, kws):
    declare_inter(ip.reg)
    a, b, l = dterm(ip, st, pos[0]), dterm(ip, st, pos[1]), ip.num(pos[2])
    if not ip.bound_stack:
        ax = T(inter_def(a.s, b.s, l.s), "Bool")
        if not any(x.s == ax.s for x in st.pc):
            st.pc.append(ax)           # definition of the reference function at these arguments
    return Opaque(T("(inter %s %s %s)" % (a.s, b.s, l.s), "Val"))


def sp_inter_item(ip, st, pos, kws):
    declare_inter(ip.reg)
    a, b, l = dterm(ip, st, pos[0]), dterm(ip, st, pos[1]), ip.num(pos[2])
    return Opaque(T("(inter_item %s %s %s %s)" % (a.s, b.s, l.s, ip.key_term(pos[3]).s), "Opt"))


# what res[k] holds once key k has been visited by the pruning loop: the intersection item, or (when the key is to be
# deleted, which is deferred to the second loop) still the copied item of the first dictionary
KEPT = ("(inter_item(dicts[0], d, level, {k}) if inter_item(dicts[0], d, level, {k}) != absent() "
        "else item(dicts[0], {k}))")


def register_intersection(ix):
    ix.spec_names["inter_spec"] = sp_inter_spec
    ix.spec_names["inter_item"] = sp_inter_item
    two = dict(
        vararg="dicts", kwarg="kwargs", result="Dict", dict_model="Val", local_types={"to_delete": "Lst[Key]"},
        raises={"LenaTypeError": "not isdict(dicts[0]) or not isdict(dicts[1])"}, raises_frame="pure",
        loops={
            # for key in res  (the body replaces values of res in place and collects the keys to delete)
            1: LoopSpec(invariant=[
                "isdict(res)",
                "all_keys(lambda k: item(res, k) == (%s if seen(k) else item(dicts[0], k)))" % KEPT.format(k="k"),
                "all(seen(to_delete[i]) and (to_delete[i] in res) "
                "and inter_item(dicts[0], d, level, to_delete[i]) == absent() for i in range(len(to_delete)))",
                "all(all(implies(i < j, to_delete[i] != to_delete[j]) for j in range(len(to_delete))) "
                "for i in range(len(to_delete)))",
                "all_keys(lambda k: implies(seen(k) and inter_item(dicts[0], d, level, k) == absent(), k in to_delete))",
            ]),
            # for key in to_delete: del res[key]
            2: LoopSpec(invariant=[
                "isdict(res)",
                "all_keys(lambda k: item(res, k) == (absent() if any(to_delete[j] == k for j in range(_i)) else %s))"
                % KEPT.format(k="k"),
            ], decreases="len(to_delete) - _i"),
        })
    frame = ["dicts[0] == old(dicts[0])", "dicts[1] == old(dicts[1])"]
    ix.add(Contract(
        CF, "intersection", props=["C07"], dict_model="Val",
        cases=[
            Contract(CF, "intersection", name="intersection[d1, d2, level=l]",
                     params={"dicts": "Tuple[Dict,Dict]", "kwargs": "KwDict[level:Int]"},
                     ensures=["result == inter_spec(dicts[0], dicts[1], old(kwargs['level']))",
                              "is_deep_copy(result)"] + frame, **two),
            Contract(CF, "intersection", name="intersection[d1, d2]",
                     params={"dicts": "Tuple[Dict,Dict]", "kwargs": "KwDict[]"},
                     ensures=["result == inter_spec(dicts[0], dicts[1], -1)", "is_deep_copy(result)"] + frame, **two),
            Contract(CF, "intersection", name="intersection[d1, level=l]", dict_model="Val",
                     params={"dicts": "Tuple[Dict]", "kwargs": "KwDict[level:Int]"}, vararg="dicts", kwarg="kwargs",
                     result="Dict", raises={"LenaTypeError": "not isdict(dicts[0])"}, raises_frame="pure",
                     ensures=["result == dicts[0]", "is_deep_copy(result)", "dicts[0] == old(dicts[0])"]),
            Contract(CF, "intersection", name="intersection[level=l]", dict_model="Val",
                     params={"dicts": "Tuple[]", "kwargs": "KwDict[level:Int]"}, vararg="dicts", kwarg="kwargs",
                     result="Dict", raises={}, ensures=["result == emptydict()", "is_deep_copy(result)"]),
            Contract(CF, "intersection", name="intersection[]", dict_model="Val",
                     params={"dicts": "Tuple[]", "kwargs": "KwDict[]"}, vararg="dicts", kwarg="kwargs",
                     result="Dict", raises={}, ensures=["result == emptydict()", "is_deep_copy(result)"]),
            # unknown keyword arguments: LenaTypeError whatever the dictionaries are
            Contract(CF, "intersection", name="intersection[d1, d2, level=l, unknown keyword]", dict_model="Val",
                     params={"dicts": "Tuple[Dict,Dict]", "kwargs": "KwDict[level:Int,levle:Int]"},
                     vararg="dicts", kwarg="kwargs", result="Dict", raises={"LenaTypeError": "True"}, raises_frame="pure"),
            Contract(CF, "intersection", name="intersection[d1, d2, unknown keyword]", dict_model="Val",
                     params={"dicts": "Tuple[Dict,Dict]", "kwargs": "KwDict[levle:Int]"},
                     vararg="dicts", kwarg="kwargs", result="Dict", raises={"LenaTypeError": "True"}, raises_frame="pure"),
        ],
        notes="*dicts typed as a tuple of 0..2 dictionaries, **kwargs by the keyword names of the call (python's own "
              "binding of surplus arguments); the recursive call goes through this contract; termination of the "
              "recursion (on the depth of the first argument) is not an obligation of the engine"))


def register(ix):
    register_intersection(ix)
