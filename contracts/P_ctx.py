"""sidecar contracts (see tools/CONTRACTS_GUIDE.md)

P_ctx -- context functions and context elements (properties C07, C08).  Sidecar contracts of lena/context/functions.py
(intersection, update_nested, str_to_list, str_to_dict, format_update_with, to_string), lena/context/elements.py
(DeleteContext) and lena/context/update_context.py (UpdateContext).

Reference functions are written from the property texts (properties.jsonl C07 / C08) and the docstrings:
  inter(a, b, l)   the greatest dictionary contained in both a and b, comparing nested dictionaries down to level l
  (diff, upd, walk are those of C07.py / C08.py)."""
from pyvc.contracts import Contract, LoopSpec, ClassSpec
from pyvc.smt import T, I
from pyvc.sym import Opaque, Bool, Str, Num
from pyvc.dicts import dterm
from pyvc.verify import Lemma

from contracts.C07 import declare_diff, diff_def, declare_upd, upd_def

CF = "lena/context/functions.py"
CE = "lena/context/elements.py"
UC = "lena/context/update_context.py"
SENT = "Sentinel[lena.context.functions._sentinel]"

# ------------------------------------------------------------------------------------------------------- intersection
# docstring / property text: every item of the result is contained in both dictionaries (recursively) and the result is
# the greatest such dictionary: a key is kept iff both have it and either the values are equal (kept as it is) or both
# values are dictionaries and the recursion level is not exhausted (then the intersection of the two values is kept --
# also when it is empty: {} is contained in every dictionary).  level 0: the arguments must be equal, otherwise {}.
INTER_ITEM = """(define-fun inter_item ((a Val) (b Val) (l Int) (k Key)) Opt
  (ite (or (not (vhas a k)) (not (vhas b k))) none
  (ite (= (vget a k) (vget b k)) (select (dm a) k)
  (ite (and (not (= l 1)) (isD (vget a k)) (isD (vget b k))) (some (inter (vget a k) (vget b k) (- l 1)))
       none))))"""


def inter_def(a, b, l):
    r = "(inter %s %s %s)" % (a, b, l)
    return ("(=> (and (isD {a}) (isD {b})) (and (isD {r}) "
            "(=> (= {l} 0) (= {r} (ite (= {a} {b}) {a} (D emptymap)))) "
            "(=> (not (= {l} 0)) (forall ((ik Key)) (! (= (select (dm {r}) ik) (inter_item {a} {b} {l} ik)) "
            ":pattern ((select (dm {r}) ik)))))))").format(a=a, b=b, l=l, r=r)


def declare_inter(reg):
    reg.need_val()
    reg.ufun("inter", ["Val", "Val", "Int"], "Val")
    reg.fun_decl("inter_item", INTER_ITEM)


def sp_inter_spec(ip, st, pos, kws):
    declare_inter(ip.reg)
    a, b, l = dterm(ip, st, pos[0]), dterm(ip, st, pos[1]), ip.num(pos[2])
    if not ip.bound_stack:
        ax = T(inter_def(a.s, b.s, l.s), "Bool")
        if not any(x.s == ax.s for x in st.pc):
            st.pc.append(ax)           # definition of the reference function at these arguments
    return Opaque(T("(inter %s %s %s)" % (a.s, b.s, l.s), "Val"))


def sp_inter_item(ip, st, pos, kws):
    declare_inter(ip.reg)
    a, b, l = dterm(ip, st, pos[0]), dterm(ip, st, pos[1]), ip.num(pos[2])
    return Opaque(T("(inter_item %s %s %s %s)" % (a.s, b.s, l.s, ip.key_term(pos[3]).s), "Opt"))


# what res[k] holds once key k has been visited by the pruning loop: the intersection item, or (when the key is to be
# deleted, which is deferred to the second loop) still the copied item of the first dictionary
KEPT = ("(inter_item(dicts[0], d, level, {k}) if inter_item(dicts[0], d, level, {k}) != absent() "
        "else item(dicts[0], {k}))")


def register_intersection(ix):
    ix.spec_names["inter_spec"] = sp_inter_spec
    ix.spec_names["inter_item"] = sp_inter_item
    two = dict(
        vararg="dicts", kwarg="kwargs", result="Dict", dict_model="Val", local_types={"to_delete": "Lst[Key]"},
        raises={"LenaTypeError": "not isdict(dicts[0]) or not isdict(dicts[1])"}, raises_frame="pure",
        loops={
            # for key in res  (the body replaces values of res in place and collects the keys to delete)
            1: LoopSpec(invariant=[
                "isdict(res)",
                "all_keys(lambda k: item(res, k) == (%s if seen(k) else item(dicts[0], k)))" % KEPT.format(k="k"),
                "all(seen(to_delete[i]) and (to_delete[i] in res) "
                "and inter_item(dicts[0], d, level, to_delete[i]) == absent() for i in range(len(to_delete)))",
                "all(all(implies(i < j, to_delete[i] != to_delete[j]) for j in range(len(to_delete))) "
                "for i in range(len(to_delete)))",
                "all_keys(lambda k: implies(seen(k) and inter_item(dicts[0], d, level, k) == absent(), k in to_delete))",
            ]),
            # for key in to_delete: del res[key]
            2: LoopSpec(invariant=[
                "isdict(res)",
                "all_keys(lambda k: item(res, k) == (absent() if any(to_delete[j] == k for j in range(_i)) else %s))"
                % KEPT.format(k="k"),
            ], decreases="len(to_delete) - _i"),
        })
    frame = ["dicts[0] == old(dicts[0])", "dicts[1] == old(dicts[1])"]
    ix.add(Contract(
        CF, "intersection", props=["C07"], dict_model="Val",
        cases=[
            Contract(CF, "intersection", name="intersection[d1, d2, level=l]",
                     params={"dicts": "Tuple[Dict,Dict]", "kwargs": "KwDict[level:Int]"},
                     ensures=["result == inter_spec(dicts[0], dicts[1], old(kwargs['level']))",
                              "is_deep_copy(result)"] + frame, **two),
            Contract(CF, "intersection", name="intersection[d1, d2]",
                     params={"dicts": "Tuple[Dict,Dict]", "kwargs": "KwDict[]"},
                     ensures=["result == inter_spec(dicts[0], dicts[1], -1)", "is_deep_copy(result)"] + frame, **two),
            Contract(CF, "intersection", name="intersection[d1, level=l]", dict_model="Val",
                     params={"dicts": "Tuple[Dict]", "kwargs": "KwDict[level:Int]"}, vararg="dicts", kwarg="kwargs",
                     result="Dict", raises={"LenaTypeError": "not isdict(dicts[0])"}, raises_frame="pure",
                     ensures=["result == dicts[0]", "is_deep_copy(result)", "dicts[0] == old(dicts[0])"]),
            Contract(CF, "intersection", name="intersection[level=l]", dict_model="Val",
                     params={"dicts": "Tuple[]", "kwargs": "KwDict[level:Int]"}, vararg="dicts", kwarg="kwargs",
                     result="Dict", raises={}, ensures=["result == emptydict()", "is_deep_copy(result)"]),
            Contract(CF, "intersection", name="intersection[]", dict_model="Val",
                     params={"dicts": "Tuple[]", "kwargs": "KwDict[]"}, vararg="dicts", kwarg="kwargs",
                     result="Dict", raises={}, ensures=["result == emptydict()", "is_deep_copy(result)"]),
            # unknown keyword arguments: LenaTypeError whatever the dictionaries are
            Contract(CF, "intersection", name="intersection[d1, d2, level=l, unknown keyword]", dict_model="Val",
                     params={"dicts": "Tuple[Dict,Dict]", "kwargs": "KwDict[level:Int,levle:Int]"},
                     vararg="dicts", kwarg="kwargs", result="Dict", raises={"LenaTypeError": "True"}, raises_frame="pure"),
            Contract(CF, "intersection", name="intersection[d1, d2, unknown keyword]", dict_model="Val",
                     params={"dicts": "Tuple[Dict,Dict]", "kwargs": "KwDict[levle:Int]"},
                     vararg="dicts", kwarg="kwargs", result="Dict", raises={"LenaTypeError": "True"}, raises_frame="pure"),
        ],
        notes="*dicts typed as a tuple of 0..2 dictionaries, **kwargs by the keyword names of the call (python's own "
              "binding of surplus arguments); the recursive call goes through this contract; termination of the "
              "recursion (on the depth of the first argument) is not an obligation of the engine"))


# --------------------------------------------------------------------------------- laws of the reference functions
# Lemma objects: obligations over the DEFINITIONS of inter / diff / upd only (no function body).  A definition holds
# at all arguments, so a fact proved from it for arbitrary constants may be used universally (GEN below states which).
# Induction: the lemma's own statement at the sub-dictionaries a[k], b[k] (structurally smaller values) is a hypothesis.
def _lemma_env(ip, st):
    from pyvc.interp import VC
    reg = ip.reg
    declare_inter(reg)
    declare_diff(reg)
    declare_upd(reg)
    a, b, l = reg.new("a", "Val"), reg.new("b", "Val"), reg.new("l", "Int")
    return reg, a.s, b.s, l.s


def _finish(ip, st, name, goal, cases=None):
    from pyvc.interp import VC
    from pyvc.smt import FALSE
    if cases:
        # proof by cases: the case conditions are exhaustive by form (c, not c)
        assert len(cases) == 2 and cases[1] == "(not %s)" % cases[0]
        for c in cases:
            s2 = st.fork(T(c, "Bool"), "")
            ip.emit("lemma", "%s [case %s]" % (name, c), s2, T(goal, "Bool"))
    else:
        ip.emit("lemma", name, st, T(goal, "Bool"))
    ip.vcs.append(VC("cover requires", "cover", list(st.pc), FALSE, ""))
    ip.vcs.append(VC("canary ensures False#0", "canary", list(st.pc), FALSE, ""))


def _hyp(st, text):
    st.assume(T(text, "Bool"))


EMPTY = "(D emptymap)"
# facts proved below for arbitrary arguments (lemmas G1-G3), used universally in the induction steps
GEN_INTER_DICT = "(forall ((x Val) (y Val) (n Int)) (! (=> (and (isD x) (isD y)) (isD (inter x y n))) :pattern ((inter x y n))))"
GEN_DIFF_DICT = "(forall ((x Val) (y Val) (n Int)) (! (=> (and (isD x) (isD y)) (isD (diff x y n))) :pattern ((diff x y n))))"
GEN_UPD_EMPTY = "(forall ((x Val)) (! (=> (isD x) (= (upd x %s) x)) :pattern ((upd x %s))))" % (EMPTY, EMPTY)


def lem_inter_dict(ip, st):
    reg, a, b, l = _lemma_env(ip, st)
    _hyp(st, inter_def(a, b, l))
    _finish(ip, st, "G1: the intersection of two dictionaries is a dictionary",
            "(=> (and (isD {a}) (isD {b})) (isD (inter {a} {b} {l})))".format(a=a, b=b, l=l))


def lem_diff_dict(ip, st):
    reg, a, b, l = _lemma_env(ip, st)
    _hyp(st, diff_def(a, b, l))
    _finish(ip, st, "G2: the difference of two dictionaries is a dictionary",
            "(=> (and (isD {a}) (isD {b})) (isD (diff {a} {b} {l})))".format(a=a, b=b, l=l))


def lem_upd_empty(ip, st):
    reg, a, b, l = _lemma_env(ip, st)
    _hyp(st, upd_def(a, EMPTY))
    _finish(ip, st, "G3: updating a dictionary with {} leaves it as it is",
            "(=> (isD {a}) (= (upd {a} {e}) {a}))".format(a=a, e=EMPTY))


def lem_inter_idem(ip, st):
    reg, a, b, l = _lemma_env(ip, st)
    _hyp(st, "(isD %s)" % a)
    _hyp(st, inter_def(a, a, l))
    _finish(ip, st, "intersection is idempotent: inter(a, a, l) == a", "(= (inter {a} {a} {l}) {a})".format(a=a, l=l))


def lem_inter_comm(ip, st):
    reg, a, b, l = _lemma_env(ip, st)
    _hyp(st, "(and (isD %s) (isD %s))" % (a, b))
    _hyp(st, inter_def(a, b, l))
    _hyp(st, inter_def(b, a, l))
    # induction hypothesis: the law for the sub-dictionaries under every common key (any level)
    _hyp(st, "(forall ((k Key) (n Int)) (! (=> (and (vhas {a} k) (vhas {b} k) (isD (vget {a} k)) (isD (vget {b} k))) "
             "(= (inter (vget {a} k) (vget {b} k) n) (inter (vget {b} k) (vget {a} k) n))) "
             ":pattern ((inter (vget {a} k) (vget {b} k) n))))".format(a=a, b=b))
    _finish(ip, st, "intersection is commutative: inter(a, b, l) == inter(b, a, l)",
            "(= (inter {a} {b} {l}) (inter {b} {a} {l}))".format(a=a, b=b, l=l),
            cases=["(= %s 0)" % l, "(not (= %s 0))" % l])


def lem_reconstruct(ip, st):
    reg, a, b, l = _lemma_env(ip, st)
    i, d = "(inter %s %s %s)" % (a, b, l), "(diff %s %s %s)" % (a, b, l)
    _hyp(st, "(and (isD %s) (isD %s))" % (a, b))
    _hyp(st, inter_def(a, b, l))
    _hyp(st, diff_def(a, b, l))
    _hyp(st, upd_def(i, d))
    for g in (GEN_INTER_DICT, GEN_DIFF_DICT, GEN_UPD_EMPTY):
        _hyp(st, g)
    # induction hypothesis: the law for the sub-dictionaries under every common key (any level)
    _hyp(st, "(forall ((k Key) (n Int)) (! (=> (and (vhas {a} k) (vhas {b} k) (isD (vget {a} k)) (isD (vget {b} k))) "
             "(= (upd (inter (vget {a} k) (vget {b} k) n) (diff (vget {a} k) (vget {b} k) n)) (vget {a} k))) "
             ":pattern ((inter (vget {a} k) (vget {b} k) n))))".format(a=a, b=b))
    _finish(ip, st, "updating the intersection with the difference reconstructs d1: upd(inter(a, b, l), diff(a, b, l)) == a",
            "(= (upd {i} {d}) {a})".format(i=i, d=d, a=a))


def register_laws(ix):
    for name, build, note in [
        ("inter: result is a dictionary (G1)", lem_inter_dict, "from the definition of inter at arbitrary arguments"),
        ("diff: result is a dictionary (G2)", lem_diff_dict, "from the definition of diff (C07.py) at arbitrary arguments"),
        ("upd with {} (G3)", lem_upd_empty, "from the definition of upd (C07.py) at arbitrary arguments"),
        ("inter idempotent", lem_inter_idem, "no induction needed"),
        ("inter commutative", lem_inter_comm, "induction step; hypothesis = the law at the sub-dictionaries"),
        ("upd(inter, diff) reconstructs d1", lem_reconstruct,
         "induction step; hypothesis = the law at the sub-dictionaries; uses G1-G3 universally"),
    ]:
        ix.lemmas.append(Lemma(name, CF, ["C07"], build, notes=note))


# ------------------------------------------------------------------------------- key paths: references and lemmas
# The engine denotes the object reached from a dictionary x by the keys ks[i..n) by  the(walka(x, ks, i, n))  and a store
# through such a reference by  wseta(x, ks, i, n, v)  (pyvc/dicts.py: declare_paths; ks is the ARRAY of a key list, so
# that a prefix slice keys[:-1] has the same array).  Both recurse from the front; a cursor that steps one key deeper
# extends the path at the back.  The lemmas connecting the two views are proved below as Lemma objects (induction on
# the length of the path, the root generalised) and are made available to a function's obligations by the spec function
# path_lemmas() (which evaluates to True and adds the proved, universally quantified lemmas as hypotheses).
KARR = "(Array Int Key)"


def walka_split(x, ks, lo, mid, n):
    """P1: a walk can be cut anywhere: ks[lo..n) = ks[lo..mid) then ks[mid..n)"""
    p = "(walka %s %s %s %s)" % (x, ks, lo, mid)
    return ("(=> (and (<= {lo} {mid}) (<= {mid} {n})) (= (walka {x} {ks} {lo} {n}) "
            "(ite (= {p} none) none (walka (the {p}) {ks} {mid} {n}))))").format(x=x, ks=ks, lo=lo, mid=mid, n=n, p=p)


def lem_walka_split(ip, st):
    from pyvc.dicts import declare_paths
    reg = ip.reg
    declare_paths(reg)
    x, ks = reg.new("x", "Val").s, reg.new("ks", KARR).s
    lo, mid, n = reg.new("lo", "Int").s, reg.new("mid", "Int").s, reg.new("n", "Int").s
    # induction on mid - lo, the root generalised: the statement for the walk from lo+1, from any root
    _hyp(st, "(forall ((y Val)) %s)" % walka_split("y", ks, "(+ %s 1)" % lo, mid, n))
    _finish(ip, st, "P1: walka(x, ks, lo, n) = walka(the walka(x, ks, lo, mid), ks, mid, n)",
            walka_split(x, ks, lo, mid, n), cases=["(= %s %s)" % (lo, mid), "(not (= %s %s))" % (lo, mid)])


def _instance(ip, st, text):
    """add an INSTANCE of a lemma that is proved (for arbitrary arguments) as a Lemma object of this file"""
    from pyvc.dicts import declare_paths
    from pyvc.smt import TRUE
    declare_paths(ip.reg)
    ax = T(text, "Bool")
    if not ip.bound_stack and not any(h.s == ax.s for h in st.pc):
        st.pc.append(ax)
    ip.assumptions.add("instances of the key-path lemmas P1.. (proved as Lemma objects in contracts/P_ctx.py) are used "
                       "as hypotheses")
    return Bool(TRUE)


def sp_walk_split(ip, st, pos, kws):
    """walk_split(x, keys, lo, mid, n): True; brings lemma P1 at these arguments into the hypotheses"""
    return _instance(ip, st, walka_split(dterm(ip, st, pos[0]).s, _karr(ip, st, pos[1]).s, ip.num(pos[2]).s,
                                         ip.num(pos[3]).s, ip.num(pos[4]).s))


def _karr(ip, st, v):
    from pyvc.speclib import lst_term
    if isinstance(v, Str) or (isinstance(v, Opaque) and v.sort == "Key"):
        ip.reg.need(KARR)
        return T("((as const %s) %s)" % (KARR, ip.key_term(v).s), KARR)
    return ip.reg.l_arr(lst_term(ip, st, v, ip.reg.lst("Key")))


def sp_walka(ip, st, pos, kws):
    """walka(x, keys, i, n): the item reached from x by keys[i..n) (an optional value); keys: a list of keys or one key"""
    from pyvc.dicts import declare_paths
    declare_paths(ip.reg)
    return Opaque(T("(walka %s %s %s %s)" % (dterm(ip, st, pos[0]).s, _karr(ip, st, pos[1]).s,
                                             ip.num(pos[2]).s, ip.num(pos[3]).s), "Opt"))


def register_paths(ix):
    ix.spec_names["walka"] = sp_walka
    ix.spec_names["walk_split"] = sp_walk_split
    ix.lemmas.append(Lemma("key paths: a walk can be cut anywhere (P1)", CF, ["C08"], lem_walka_split,
                           notes="induction on the length of the first part; hypothesis = the statement for the walk "
                                 "from lo+1, from an arbitrary root"))
    # get_recursively on a dictionary OBJECT: the result is the very item (an object callers may store through).
    # Added as a further case of the C08 contract of get_recursively (tried first for arguments that are objects).
    gr = ix.by_key[(CF, "get_recursively")]
    gr.cases.insert(0, Contract(
        CF, "get_recursively", name="get_recursively[dictionary object, list of keys, no default]",
        params={"d": "Dict", "keys": "Lst[Key]", "default": SENT}, result="Dict",
        result_ref=("d", "keys", "0", "len(keys)"),
        raises={"LenaTypeError": "not isdict(d)",
                "LenaKeyError": "isdict(d) and walka(d, keys, 0, len(keys)) == absent()"},
        raises_frame="pure",
        ensures=["walka(d, keys, 0, len(keys)) != absent()", "d == old(d)"],
        loops={2: LoopSpec(cursor={"d": ("old(d)", "keys", "0", "_i")},
                           invariant=["isdict(d)", "walk_split(old(d), keys, 0, _i, len(keys))",
                                      "walk_split(old(d), keys, 0, _i - 1, _i)"])}))


# ------------------------------------------------------------------------------------------------------ DeleteContext
# property text C08: DeleteContext changes exactly the addressed item (removes it) and leaves the data and every other
# item untouched; a path that is absent or passes through a scalar leaves the value unchanged; an empty key clears the
# context; never another exception.  Reference: delpath(x, ks, i, n) = x without the item addressed by ks[i..n).
DELPATH = ("(define-fun-rec delpath ((x Val) (ks %s) (i Int) (n Int)) Val "
           "(ite (or (>= i n) (not (isD x)) (not (vhas x (select ks i)))) x "
           "(ite (= i (- n 1)) (D (store (dm x) (select ks i) none)) "
           "(D (store (dm x) (select ks i) (some (delpath (vget x (select ks i)) ks (+ i 1) n)))))))" % KARR)


def declare_delpath(reg):
    from pyvc.dicts import declare_paths
    declare_paths(reg)
    reg.fun_decl("delpath", DELPATH)


def del_lemma(x, ks, i, n):
    """D1: removing the addressed item = storing, through the reference to the dictionary that holds it, that dictionary
    without the last key -- if that dictionary exists, is a dictionary and has the key; otherwise nothing changes"""
    p = "(walka %s %s %s (- %s 1))" % (x, ks, i, n)
    last = "(select %s (- %s 1))" % (ks, n)
    return ("(=> (<= {i} (- {n} 1)) (= (delpath {x} {ks} {i} {n}) "
            "(ite (and (not (= {p} none)) (isD (the {p})) (vhas (the {p}) {last})) "
            "(wseta {x} {ks} {i} (- {n} 1) (D (store (dm (the {p})) {last} none))) {x})))").format(
        x=x, ks=ks, i=i, n=n, p=p, last=last)


def lem_delpath(ip, st):
    reg = ip.reg
    declare_delpath(reg)
    x, ks = reg.new("x", "Val").s, reg.new("ks", KARR).s
    i, n = reg.new("i", "Int").s, reg.new("n", "Int").s
    _hyp(st, "(forall ((y Val)) %s)" % del_lemma("y", ks, "(+ %s 1)" % i, n))      # induction on n - i, root generalised
    _finish(ip, st, "D1: delpath = store through the reference to the holder", del_lemma(x, ks, i, n),
            cases=["(= %s (- %s 1))" % (i, n), "(not (= %s (- %s 1)))" % (i, n)])


def sp_delpath(ip, st, pos, kws):
    """delpath(x, keys, i, n): x without the item addressed by keys[i..n) (reference function of DeleteContext)"""
    declare_delpath(ip.reg)
    x, ks, i, n = dterm(ip, st, pos[0]).s, _karr(ip, st, pos[1]).s, ip.num(pos[2]).s, ip.num(pos[3]).s
    _instance(ip, st, del_lemma(x, ks, i, n))
    return Opaque(T("(delpath %s %s %s %s)" % (x, ks, i, n), "Val"))


def register_delete(ix):
    ix.spec_names["delpath"] = sp_delpath
    ix.lemmas.append(Lemma("DeleteContext: delpath and stores through references (D1)", CE, ["C08"], lem_delpath,
                           notes="induction on the length of the path; hypothesis = the statement from i+1, any root"))
    ix.add_class(ClassSpec("DeleteContext", CE, fields={"_keyl": "Lst[Key]"}))
    ix.add(Contract(
        CE, "DeleteContext.__call__", props=["C08"], dict_model="Val",
        cases=[
            Contract(CE, "DeleteContext.__call__", name="DeleteContext.__call__[(data, context)]", dict_model="Val",
                     params={"self": "Self[DeleteContext]", "value": "Tuple[V,Dict]"}, result="Tuple[V,Dict]",
                     raises={},          # never an exception
                     ensures=["result[0] == value[0]", "result[1] is value[1]",
                              "not isdict(old(value[1])) implies value[1] == old(value[1])",
                              "isdict(old(value[1])) and len(self._keyl) == 0 implies value[1] == emptydict()",
                              "isdict(old(value[1])) and len(self._keyl) > 0 implies "
                              "value[1] == delpath(old(value[1]), self._keyl, 0, len(self._keyl))"],
                     modifies=["value[1]"]),
            # a value that is no tuple (bare data: there is no context to change)
            Contract(CE, "DeleteContext.__call__", name="DeleteContext.__call__[bare data]", dict_model="Val",
                     params={"self": "Self[DeleteContext]", "value": "Real"}, result="Real",
                     raises={}, ensures=["result == value"]),
        ]))


# ------------------------------------------------------------------------------------------------------ UpdateContext
# Stores through a reference at a symbolic key path (the engine's wseta) and reading back (walka): lemmas W1-W3, each
# proved below by induction on the length of the path (root generalised), then used universally (W1, W2: the patterns
# only match nested wseta / walka-of-wseta terms, the instances create no new such terms) or by instance (W3).
VALID = "(and (<= {lo} {hi}) (not (= (walka {x} {ks} {lo} {hi}) none)))"


def w1(x, ks, lo, hi, v):
    return ("(=> %s (= (walka (wseta {x} {ks} {lo} {hi} {v}) {ks} {lo} {hi}) (some {v})))" % VALID).format(
        x=x, ks=ks, lo=lo, hi=hi, v=v)


def w2(x, ks, lo, hi, v, w):
    return ("(=> %s (= (wseta (wseta {x} {ks} {lo} {hi} {v}) {ks} {lo} {hi} {w}) (wseta {x} {ks} {lo} {hi} {w})))"
            % VALID).format(x=x, ks=ks, lo=lo, hi=hi, v=v, w=w)


def w3(x, ks, lo, hi, v):
    return ("(=> %s (= (wseta {x} {ks} {lo} (+ {hi} 1) {v}) (wseta {x} {ks} {lo} {hi} "
            "(D (store (dm (the (walka {x} {ks} {lo} {hi}))) (select {ks} {hi}) (some {v}))))))" % VALID).format(
        x=x, ks=ks, lo=lo, hi=hi, v=v)


GEN_W1 = ("(forall ((x Val) (ks %s) (lo Int) (hi Int) (v Val)) (! %s :pattern ((walka (wseta x ks lo hi v) ks lo hi))))"
          % (KARR, w1("x", "ks", "lo", "hi", "v")))
GEN_W2 = ("(forall ((x Val) (ks %s) (lo Int) (hi Int) (v Val) (w Val)) (! %s "
          ":pattern ((wseta (wseta x ks lo hi v) ks lo hi w))))" % (KARR, w2("x", "ks", "lo", "hi", "v", "w")))


def _wconsts(ip):
    from pyvc.dicts import declare_paths
    reg = ip.reg
    declare_paths(reg)
    return (reg.new("x", "Val").s, reg.new("ks", KARR).s, reg.new("lo", "Int").s, reg.new("hi", "Int").s,
            reg.new("v", "Val").s, reg.new("w", "Val").s)


def lem_w1(ip, st):
    x, ks, lo, hi, v, w = _wconsts(ip)
    _hyp(st, "(forall ((y Val)) %s)" % w1("y", ks, "(+ %s 1)" % lo, hi, v))
    _finish(ip, st, "W1: reading back through the reference gives what was stored", w1(x, ks, lo, hi, v),
            cases=["(= %s %s)" % (lo, hi), "(not (= %s %s))" % (lo, hi)])


def lem_w2(ip, st):
    x, ks, lo, hi, v, w = _wconsts(ip)
    _hyp(st, "(forall ((y Val)) %s)" % w2("y", ks, "(+ %s 1)" % lo, hi, v, w))
    _finish(ip, st, "W2: a second store through the same reference overwrites the first", w2(x, ks, lo, hi, v, w),
            cases=["(= %s %s)" % (lo, hi), "(not (= %s %s))" % (lo, hi)])


def lem_w3(ip, st):
    x, ks, lo, hi, v, w = _wconsts(ip)
    _hyp(st, "(forall ((y Val)) %s)" % w3("y", ks, "(+ %s 1)" % lo, hi, v))
    _finish(ip, st, "W3: a store one key deeper = a store of the updated holder", w3(x, ks, lo, hi, v),
            cases=["(= %s %s)" % (lo, hi), "(not (= %s %s))" % (lo, hi)])


def sp_store_lemmas(ip, st, pos, kws):
    """store_lemmas(): True; brings W1 and W2 (universally, see the patterns) into the hypotheses"""
    r = None
    for g in (GEN_W1, GEN_W2):
        r = _instance(ip, st, g)
    return r


# property text C08 / docstring: UpdateContext changes exactly the addressed item to the given value (recursively: the
# existing items of the addressed sub-context that the update does not overwrite are kept, see update_recursively) and
# leaves the data and every other item untouched; the sub-context is always created.
UPDPATH = ("(define-fun-rec updpath ((x Val) (ks %s) (i Int) (n Int) (u Val) (r Bool)) Val "
           "(ite (>= i (- n 1)) "
           "(ite r (upd x (D (store emptymap (select ks i) (some u)))) (D (store (dm x) (select ks i) (some u)))) "
           "(D (store (dm x) (select ks i) (some (updpath "
           "(ite (and (vhas x (select ks i)) (isD (vget x (select ks i)))) (vget x (select ks i)) (D emptymap)) "
           "ks (+ i 1) n u r))))))" % KARR)


def declare_updpath(reg):
    from pyvc.dicts import declare_paths
    declare_paths(reg)
    declare_upd(reg)
    reg.fun_decl("updpath", UPDPATH)


def _updpath_term(ip, st, pos):
    declare_updpath(ip.reg)
    r = pos[5]
    return "(updpath %s %s %s %s %s %s)" % (dterm(ip, st, pos[0]).s, _karr(ip, st, pos[1]).s, ip.num(pos[2]).s,
                                            ip.num(pos[3]).s, dterm(ip, st, pos[4]).s, ip.truth(st, r).s)


def sp_updpath(ip, st, pos, kws):
    """updpath(x, keys, i, n, u, recursively): x with the item addressed by keys[i..n) set to u (reference function)"""
    return Opaque(T(_updpath_term(ip, st, pos), "Val"))


def sp_rest_done(ip, st, pos, kws):
    """rest_done(context, keys, i, n, u, r): the context once the remaining work -- updating the sub-context reached by
    keys[0..i) along keys[i..n) -- is done; brings W3 at (context, keys, 0, i - 1) into the hypotheses"""
    declare_updpath(ip.reg)
    c, ks = dterm(ip, st, pos[0]).s, _karr(ip, st, pos[1]).s
    i, n = ip.num(pos[2]).s, ip.num(pos[3]).s
    u, r = dterm(ip, st, pos[4]).s, ip.truth(st, pos[5]).s
    sub = "(the (walka %s %s 0 %s))" % (c, ks, i)
    inner = "(updpath %s %s %s %s %s %s)" % (sub, ks, i, n, u, r)
    _instance(ip, st, w3(c, ks, "0", "(- %s 1)" % i, inner))
    _instance(ip, st, walka_split(c, ks, "0", "(- %s 1)" % i, i))
    return Opaque(T("(wseta %s %s 0 %s %s)" % (c, ks, i, inner), "Val"))


def sp_simple_value(ip, st, pos, kws):
    """simple_value(x): x is neither a string nor a jinja2.Template (docstring of UpdateContext: `a simple value`)"""
    from pyvc.builtins_ import type_test, ext_instance
    from pyvc.smt import AND, NOT
    return Bool(AND(NOT(type_test(ip, st, pos[0], "str")), NOT(ext_instance(ip, dterm(ip, st, pos[0]), "jinja2", "Template"))))


def register_update_context(ix):
    for n, f in [("updpath", sp_updpath), ("rest_done", sp_rest_done), ("store_lemmas", sp_store_lemmas),
                 ("simple_value", sp_simple_value)]:
        ix.spec_names[n] = f
    for name, build in [("key paths: read after store (W1)", lem_w1), ("key paths: store after store (W2)", lem_w2),
                        ("key paths: store one key deeper (W3)", lem_w3)]:
        ix.lemmas.append(Lemma(name, UC, ["C08"], build,
                               notes="induction on the length of the path; hypothesis = the statement from lo+1, any root"))
    ix.add_class(ClassSpec("UpdateContext", UC,
                           fields={"_update": "Dict", "_subcontext": "Lst[Key]", "_recursively": "Bool"},
                           invariant=["len(self._subcontext) >= 1"]))
    INV = ["store_lemmas()", "isdict(subdict)", "isdict(context)",
           "rest_done(context, keys, _i, len(keys), update, self._recursively) "
           "== updpath({c0}, keys, 0, len(keys), update, self._recursively)"]

    def case(name, vty, c0, extra_req, ens):
        return Contract(UC, "UpdateContext.__call__", name="UpdateContext.__call__[simple value, %s]" % name,
                        params={"self": "Self[UpdateContext]", "value": vty},
                        result="Tuple[V,Dict]" if vty.startswith("Tuple") else "Tuple[%s,Dict]" % vty,
                        requires=["simple_value(self._update)"] + extra_req,
                        raises={}, dict_model="Val",
                        loops={0: LoopSpec(cursor={"subdict": ("context", "keys", "0", "_i")},
                                           invariant=[x.format(c0=c0) for x in INV])},
                        ensures=ens + [
                            # the update value placed in the context is a deep copy made during THIS call
                            "is_deep_copy(local(update))", "local(update) == old(self._update)",
                            "self._update == old(self._update)"],
                        modifies=["value[1]"] if vty.startswith("Tuple") else [])
    ix.add(Contract(
        UC, "UpdateContext.__call__", props=["C08"], dict_model="Val",
        cases=[
            case("(data, context)", "Tuple[V,Dict]", "old(value[1])", ["isdict(value[1])"],
                 ["result[0] == value[0]", "result[1] is value[1]",
                  "value[1] == updpath(old(value[1]), self._subcontext, 0, len(self._subcontext), old(self._update), "
                  "self._recursively)"]),
            case("bare data", "Real", "emptydict()", [],
                 ["result[0] == value",
                  "result[1] == updpath(emptydict(), self._subcontext, 0, len(self._subcontext), old(self._update), "
                  "self._recursively)"]),
        ]))


def register(ix):
    register_intersection(ix)
    register_laws(ix)
    register_paths(ix)
    register_delete(ix)
    register_update_context(ix)
