"""sidecar contracts (see tools/CONTRACTS_GUIDE.md)

P_ctx -- context functions and context elements (properties C07, C08).  Sidecar contracts of lena/context/functions.py
(intersection, update_nested, str_to_list, str_to_dict, format_update_with, to_string), lena/context/elements.py
(DeleteContext) and lena/context/update_context.py (UpdateContext).

Reference functions are written from the property texts (properties.jsonl C07 / C08) and the docstrings:
  inter(a, b, l)   the greatest dictionary contained in both a and b, comparing nested dictionaries down to level l
  (diff, upd, walk are those of C07.py / C08.py)."""
from pyvc.contracts import Contract, LoopSpec, ClassSpec
from pyvc.smt import T, I
from pyvc.sym import Opaque, Bool, Str, Num
from pyvc.dicts import dterm
from pyvc.verify import Lemma

from contracts.C07 import declare_diff, diff_def, declare_upd, upd_def

CF = "lena/context/functions.py"
CE = "lena/context/elements.py"
UC = "lena/context/update_context.py"
SENT = "Sentinel[lena.context.functions._sentinel]"

# ------------------------------------------------------------------------------------------------------- intersection
# docstring / property text: every item of the result is contained in both dictionaries (recursively) and the result is
# the greatest such dictionary: a key is kept iff both have it and either the values are equal (kept as it is) or both
# values are dictionaries and the recursion level is not exhausted (then the intersection of the two values is kept --
# also when it is empty: {} is contained in every dictionary).  level 0: the arguments must be equal, otherwise {}.
INTER_ITEM = """(define-fun inter_item ((a Val) (b Val) (l Int) (k Key)) Opt
  (ite (or (not (vhas a k)) (not (vhas b k))) none
  (ite (= (vget a k) (vget b k)) (select (dm a) k)
  (ite (and (not (= l 1)) (isD (vget a k)) (isD (vget b k))) (some (inter (vget a k) (vget b k) (- l 1)))
       none))))"""


def inter_def(a, b, l):
    r = "(inter %s %s %s)" % (a, b, l)
    return ("(=> (and (isD {a}) (isD {b})) (and (isD {r}) "
            "(=> (= {l} 0) (= {r} (ite (= {a} {b}) {a} (D emptymap)))) "
            "(=> (not (= {l} 0)) (forall ((ik Key)) (! (= (select (dm {r}) ik) (inter_item {a} {b} {l} ik)) "
            ":pattern ((select (dm {r}) ik)))))))").format(a=a, b=b, l=l, r=r)


def declare_inter(reg):
    reg.need_val()
    reg.ufun("inter", ["Val", "Val", "Int"], "Val")
    reg.fun_decl("inter_item", INTER_ITEM)


def sp_inter_spec(ip, st, pos, kws):
    declare_inter(ip.reg)
    a, b, l = dterm(ip, st, pos[0]), dterm(ip, st, pos[1]), ip.num(pos[2])
    if not ip.bound_stack:
        ax = T(inter_def(a.s, b.s, l.s), "Bool")
        if not any(x.s == ax.s for x in st.pc):
            st.pc.append(ax)           # definition of the reference function at these arguments
    return Opaque(T("(inter %s %s %s)" % (a.s, b.s, l.s), "Val"))


def sp_inter_item(ip, st, pos, kws):
    declare_inter(ip.reg)
    a, b, l = dterm(ip, st, pos[0]), dterm(ip, st, pos[1]), ip.num(pos[2])
    return Opaque(T("(inter_item %s %s %s %s)" % (a.s, b.s, l.s, ip.key_term(pos[3]).s), "Opt"))


# what res[k] holds once key k has been visited by the pruning loop: the intersection item, or (when the key is to be
# deleted, which is deferred to the second loop) still the copied item of the first dictionary
KEPT = ("(inter_item(dicts[0], d, level, {k}) if inter_item(dicts[0], d, level, {k}) != absent() "
        "else item(dicts[0], {k}))")


def register_intersection(ix):
    ix.spec_names["inter_spec"] = sp_inter_spec
    ix.spec_names["inter_item"] = sp_inter_item
    two = dict(
        vararg="dicts", kwarg="kwargs", result="Dict", dict_model="Val", local_types={"to_delete": "Lst[Key]"},
        raises={"LenaTypeError": "not isdict(dicts[0]) or not isdict(dicts[1])"}, raises_frame="pure",
        loops={
            # for key in res  (the body replaces values of res in place and collects the keys to delete)
            1: LoopSpec(invariant=[
                "isdict(res)",
                "all_keys(lambda k: item(res, k) == (%s if seen(k) else item(dicts[0], k)))" % KEPT.format(k="k"),
                "all(seen(to_delete[i]) and (to_delete[i] in res) "
                "and inter_item(dicts[0], d, level, to_delete[i]) == absent() for i in range(len(to_delete)))",
                "all(all(implies(i < j, to_delete[i] != to_delete[j]) for j in range(len(to_delete))) "
                "for i in range(len(to_delete)))",
                "all_keys(lambda k: implies(seen(k) and inter_item(dicts[0], d, level, k) == absent(), k in to_delete))",
            ]),
            # for key in to_delete: del res[key]
            2: LoopSpec(invariant=[
                "isdict(res)",
                "all_keys(lambda k: item(res, k) == (absent() if any(to_delete[j] == k for j in range(_i)) else %s))"
                % KEPT.format(k="k"),
            ], decreases="len(to_delete) - _i"),
        })
    frame = ["dicts[0] == old(dicts[0])", "dicts[1] == old(dicts[1])"]
    ix.add(Contract(
        CF, "intersection", props=["C07"], dict_model="Val",
        cases=[
            Contract(CF, "intersection", name="intersection[d1, d2, level=l]",
                     params={"dicts": "Tuple[Dict,Dict]", "kwargs": "KwDict[level:Int]"},
                     ensures=["result == inter_spec(dicts[0], dicts[1], old(kwargs['level']))",
                              "is_deep_copy(result)"] + frame, **two),
            Contract(CF, "intersection", name="intersection[d1, d2]",
                     params={"dicts": "Tuple[Dict,Dict]", "kwargs": "KwDict[]"},
                     ensures=["result == inter_spec(dicts[0], dicts[1], -1)", "is_deep_copy(result)"] + frame, **two),
            Contract(CF, "intersection", name="intersection[d1, level=l]", dict_model="Val",
                     params={"dicts": "Tuple[Dict]", "kwargs": "KwDict[level:Int]"}, vararg="dicts", kwarg="kwargs",
                     result="Dict", raises={"LenaTypeError": "not isdict(dicts[0])"}, raises_frame="pure",
                     ensures=["result == dicts[0]", "is_deep_copy(result)", "dicts[0] == old(dicts[0])"]),
            Contract(CF, "intersection", name="intersection[level=l]", dict_model="Val",
                     params={"dicts": "Tuple[]", "kwargs": "KwDict[level:Int]"}, vararg="dicts", kwarg="kwargs",
                     result="Dict", raises={}, ensures=["result == emptydict()", "is_deep_copy(result)"]),
            Contract(CF, "intersection", name="intersection[]", dict_model="Val",
                     params={"dicts": "Tuple[]", "kwargs": "KwDict[]"}, vararg="dicts", kwarg="kwargs",
                     result="Dict", raises={}, ensures=["result == emptydict()", "is_deep_copy(result)"]),
            # unknown keyword arguments: LenaTypeError whatever the dictionaries are
            Contract(CF, "intersection", name="intersection[d1, d2, level=l, unknown keyword]", dict_model="Val",
                     params={"dicts": "Tuple[Dict,Dict]", "kwargs": "KwDict[level:Int,levle:Int]"},
                     vararg="dicts", kwarg="kwargs", result="Dict", raises={"LenaTypeError": "True"}, raises_frame="pure"),
            Contract(CF, "intersection", name="intersection[d1, d2, unknown keyword]", dict_model="Val",
                     params={"dicts": "Tuple[Dict,Dict]", "kwargs": "KwDict[levle:Int]"},
                     vararg="dicts", kwarg="kwargs", result="Dict", raises={"LenaTypeError": "True"}, raises_frame="pure"),
        ],
        notes="*dicts typed as a tuple of 0..2 dictionaries, **kwargs by the keyword names of the call (python's own "
              "binding of surplus arguments); the recursive call goes through this contract; termination of the "
              "recursion (on the depth of the first argument) is not an obligation of the engine"))


# --------------------------------------------------------------------------------- laws of the reference functions
# Lemma objects: obligations over the DEFINITIONS of inter / diff / upd only (no function body).  A definition holds
# at all arguments, so a fact proved from it for arbitrary constants may be used universally (GEN below states which).
# Induction: the lemma's own statement at the sub-dictionaries a[k], b[k] (structurally smaller values) is a hypothesis.
def _lemma_env(ip, st):
    from pyvc.interp import VC
    reg = ip.reg
    declare_inter(reg)
    declare_diff(reg)
    declare_upd(reg)
    a, b, l = reg.new("a", "Val"), reg.new("b", "Val"), reg.new("l", "Int")
    return reg, a.s, b.s, l.s


def _finish(ip, st, name, goal, cases=None):
    from pyvc.interp import VC
    from pyvc.smt import FALSE
    if cases:
        # proof by cases: the case conditions are exhaustive by form (c, not c)
        assert len(cases) == 2 and cases[1] == "(not %s)" % cases[0]
        for c in cases:
            s2 = st.fork(T(c, "Bool"), "")
            ip.emit("lemma", "%s [case %s]" % (name, c), s2, T(goal, "Bool"))
    else:
        ip.emit("lemma", name, st, T(goal, "Bool"))
    ip.vcs.append(VC("cover requires", "cover", list(st.pc), FALSE, ""))
    ip.vcs.append(VC("canary ensures False#0", "canary", list(st.pc), FALSE, ""))


def _hyp(st, text):
    st.assume(T(text, "Bool"))


EMPTY = "(D emptymap)"
# facts proved below for arbitrary arguments (lemmas G1-G3), used universally in the induction steps
GEN_INTER_DICT = "(forall ((x Val) (y Val) (n Int)) (! (=> (and (isD x) (isD y)) (isD (inter x y n))) :pattern ((inter x y n))))"
GEN_DIFF_DICT = "(forall ((x Val) (y Val) (n Int)) (! (=> (and (isD x) (isD y)) (isD (diff x y n))) :pattern ((diff x y n))))"
GEN_UPD_EMPTY = "(forall ((x Val)) (! (=> (isD x) (= (upd x %s) x)) :pattern ((upd x %s))))" % (EMPTY, EMPTY)


def lem_inter_dict(ip, st):
    reg, a, b, l = _lemma_env(ip, st)
    _hyp(st, inter_def(a, b, l))
    _finish(ip, st, "G1: the intersection of two dictionaries is a dictionary",
            "(=> (and (isD {a}) (isD {b})) (isD (inter {a} {b} {l})))".format(a=a, b=b, l=l))


def lem_diff_dict(ip, st):
    reg, a, b, l = _lemma_env(ip, st)
    _hyp(st, diff_def(a, b, l))
    _finish(ip, st, "G2: the difference of two dictionaries is a dictionary",
            "(=> (and (isD {a}) (isD {b})) (isD (diff {a} {b} {l})))".format(a=a, b=b, l=l))


def lem_upd_empty(ip, st):
    reg, a, b, l = _lemma_env(ip, st)
    _hyp(st, upd_def(a, EMPTY))
    _finish(ip, st, "G3: updating a dictionary with {} leaves it as it is",
            "(=> (isD {a}) (= (upd {a} {e}) {a}))".format(a=a, e=EMPTY))


def lem_inter_idem(ip, st):
    reg, a, b, l = _lemma_env(ip, st)
    _hyp(st, "(isD %s)" % a)
    _hyp(st, inter_def(a, a, l))
    _finish(ip, st, "intersection is idempotent: inter(a, a, l) == a", "(= (inter {a} {a} {l}) {a})".format(a=a, l=l))


def lem_inter_comm(ip, st):
    reg, a, b, l = _lemma_env(ip, st)
    _hyp(st, "(and (isD %s) (isD %s))" % (a, b))
    _hyp(st, inter_def(a, b, l))
    _hyp(st, inter_def(b, a, l))
    # induction hypothesis: the law for the sub-dictionaries under every common key (any level)
    _hyp(st, "(forall ((k Key) (n Int)) (! (=> (and (vhas {a} k) (vhas {b} k) (isD (vget {a} k)) (isD (vget {b} k))) "
             "(= (inter (vget {a} k) (vget {b} k) n) (inter (vget {b} k) (vget {a} k) n))) "
             ":pattern ((inter (vget {a} k) (vget {b} k) n))))".format(a=a, b=b))
    _finish(ip, st, "intersection is commutative: inter(a, b, l) == inter(b, a, l)",
            "(= (inter {a} {b} {l}) (inter {b} {a} {l}))".format(a=a, b=b, l=l),
            cases=["(= %s 0)" % l, "(not (= %s 0))" % l])


def lem_reconstruct(ip, st):
    reg, a, b, l = _lemma_env(ip, st)
    i, d = "(inter %s %s %s)" % (a, b, l), "(diff %s %s %s)" % (a, b, l)
    _hyp(st, "(and (isD %s) (isD %s))" % (a, b))
    _hyp(st, inter_def(a, b, l))
    _hyp(st, diff_def(a, b, l))
    _hyp(st, upd_def(i, d))
    for g in (GEN_INTER_DICT, GEN_DIFF_DICT, GEN_UPD_EMPTY):
        _hyp(st, g)
    # induction hypothesis: the law for the sub-dictionaries under every common key (any level)
    _hyp(st, "(forall ((k Key) (n Int)) (! (=> (and (vhas {a} k) (vhas {b} k) (isD (vget {a} k)) (isD (vget {b} k))) "
             "(= (upd (inter (vget {a} k) (vget {b} k) n) (diff (vget {a} k) (vget {b} k) n)) (vget {a} k))) "
             ":pattern ((inter (vget {a} k) (vget {b} k) n))))".format(a=a, b=b))
    _finish(ip, st, "updating the intersection with the difference reconstructs d1: upd(inter(a, b, l), diff(a, b, l)) == a",
            "(= (upd {i} {d}) {a})".format(i=i, d=d, a=a))


def register_laws(ix):
    for name, build, note in [
        ("inter: result is a dictionary (G1)", lem_inter_dict, "from the definition of inter at arbitrary arguments"),
        ("diff: result is a dictionary (G2)", lem_diff_dict, "from the definition of diff (C07.py) at arbitrary arguments"),
        ("upd with {} (G3)", lem_upd_empty, "from the definition of upd (C07.py) at arbitrary arguments"),
        ("inter idempotent", lem_inter_idem, "no induction needed"),
        ("inter commutative", lem_inter_comm, "induction step; hypothesis = the law at the sub-dictionaries"),
        ("upd(inter, diff) reconstructs d1", lem_reconstruct,
         "induction step; hypothesis = the law at the sub-dictionaries; uses G1-G3 universally"),
    ]:
        ix.lemmas.append(Lemma(name, CF, ["C07"], build, notes=note))


# ------------------------------------------------------------------------------- key paths: references and lemmas
# The engine denotes the object reached from a dictionary x by the keys ks[i..n) by  the(walka(x, ks, i, n))  and a store
# through such a reference by  wseta(x, ks, i, n, v)  (pyvc/dicts.py: declare_paths; ks is the ARRAY of a key list, so
# that a prefix slice keys[:-1] has the same array).  Both recurse from the front; a cursor that steps one key deeper
# extends the path at the back.  The lemmas connecting the two views are proved below as Lemma objects (induction on
# the length of the path, the root generalised) and are made available to a function's obligations by the spec function
# path_lemmas() (which evaluates to True and adds the proved, universally quantified lemmas as hypotheses).
KARR = "(Array Int Key)"


def walka_split(x, ks, lo, mid, n):
    """P1: a walk can be cut anywhere: ks[lo..n) = ks[lo..mid) then ks[mid..n)"""
    p = "(walka %s %s %s %s)" % (x, ks, lo, mid)
    return ("(=> (and (<= {lo} {mid}) (<= {mid} {n})) (= (walka {x} {ks} {lo} {n}) "
            "(ite (= {p} none) none (walka (the {p}) {ks} {mid} {n}))))").format(x=x, ks=ks, lo=lo, mid=mid, n=n, p=p)


def lem_walka_split(ip, st):
    from pyvc.dicts import declare_paths
    reg = ip.reg
    declare_paths(reg)
    x, ks = reg.new("x", "Val").s, reg.new("ks", KARR).s
    lo, mid, n = reg.new("lo", "Int").s, reg.new("mid", "Int").s, reg.new("n", "Int").s
    # induction on mid - lo, the root generalised: the statement for the walk from lo+1, from any root
    _hyp(st, "(forall ((y Val)) %s)" % walka_split("y", ks, "(+ %s 1)" % lo, mid, n))
    _finish(ip, st, "P1: walka(x, ks, lo, n) = walka(the walka(x, ks, lo, mid), ks, mid, n)",
            walka_split(x, ks, lo, mid, n), cases=["(= %s %s)" % (lo, mid), "(not (= %s %s))" % (lo, mid)])


def _instance(ip, st, text):
    """add an INSTANCE of a lemma that is proved (for arbitrary arguments) as a Lemma object of this file"""
    from pyvc.dicts import declare_paths
    from pyvc.smt import TRUE
    declare_paths(ip.reg)
    ax = T(text, "Bool")
    if not ip.bound_stack and not any(h.s == ax.s for h in st.pc):
        st.pc.append(ax)
    ip.assumptions.add("instances of the key-path lemmas P1.. (proved as Lemma objects in contracts/P_ctx.py) are used "
                       "as hypotheses")
    return Bool(TRUE)


def sp_walk_split(ip, st, pos, kws):
    """walk_split(x, keys, lo, mid, n): True; brings lemma P1 at these arguments into the hypotheses"""
    return _instance(ip, st, walka_split(dterm(ip, st, pos[0]).s, _karr(ip, st, pos[1]).s, ip.num(pos[2]).s,
                                         ip.num(pos[3]).s, ip.num(pos[4]).s))


def _karr(ip, st, v):
    from pyvc.speclib import lst_term
    if isinstance(v, Str) or (isinstance(v, Opaque) and v.sort == "Key"):
        ip.reg.need(KARR)
        return T("((as const %s) %s)" % (KARR, ip.key_term(v).s), KARR)
    return ip.reg.l_arr(lst_term(ip, st, v, ip.reg.lst("Key")))


def sp_walka(ip, st, pos, kws):
    """walka(x, keys, i, n): the item reached from x by keys[i..n) (an optional value); keys: a list of keys or one key"""
    from pyvc.dicts import declare_paths
    declare_paths(ip.reg)
    return Opaque(T("(walka %s %s %s %s)" % (dterm(ip, st, pos[0]).s, _karr(ip, st, pos[1]).s,
                                             ip.num(pos[2]).s, ip.num(pos[3]).s), "Opt"))


def register_paths(ix):
    ix.spec_names["walka"] = sp_walka
    ix.spec_names["walk_split"] = sp_walk_split
    ix.lemmas.append(Lemma("key paths: a walk can be cut anywhere (P1)", CF, ["C08"], lem_walka_split,
                           notes="induction on the length of the first part; hypothesis = the statement for the walk "
                                 "from lo+1, from an arbitrary root"))
    # get_recursively on a dictionary OBJECT: the result is the very item (an object callers may store through).
    # Added as a further case of the C08 contract of get_recursively (tried first for arguments that are objects).
    gr = ix.by_key[(CF, "get_recursively")]
    gr.cases.insert(0, Contract(
        CF, "get_recursively", name="get_recursively[dictionary object, list of keys, no default]",
        params={"d": "Dict", "keys": "Lst[Key]", "default": SENT}, result="Dict",
        result_ref=("d", "keys", "0", "len(keys)"),
        raises={"LenaTypeError": "not isdict(d)",
                "LenaKeyError": "isdict(d) and walka(d, keys, 0, len(keys)) == absent()"},
        raises_frame="pure",
        ensures=["walka(d, keys, 0, len(keys)) != absent()", "d == old(d)"],
        loops={2: LoopSpec(cursor={"d": ("old(d)", "keys", "0", "_i")},
                           invariant=["isdict(d)", "walk_split(old(d), keys, 0, _i, len(keys))",
                                      "walk_split(old(d), keys, 0, _i - 1, _i)"])}))


# ------------------------------------------------------------------------------------------------------ DeleteContext
# property text C08: DeleteContext changes exactly the addressed item (removes it) and leaves the data and every other
# item untouched; a path that is absent or passes through a scalar leaves the value unchanged; an empty key clears the
# context; never another exception.  Reference: delpath(x, ks, i, n) = x without the item addressed by ks[i..n).
DELPATH = ("(define-fun-rec delpath ((x Val) (ks %s) (i Int) (n Int)) Val "
           "(ite (or (>= i n) (not (isD x)) (not (vhas x (select ks i)))) x "
           "(ite (= i (- n 1)) (D (store (dm x) (select ks i) none)) "
           "(D (store (dm x) (select ks i) (some (delpath (vget x (select ks i)) ks (+ i 1) n)))))))" % KARR)


def declare_delpath(reg):
    from pyvc.dicts import declare_paths
    declare_paths(reg)
    reg.fun_decl("delpath", DELPATH)


def del_lemma(x, ks, i, n):
    """D1: removing the addressed item = storing, through the reference to the dictionary that holds it, that dictionary
    without the last key -- if that dictionary exists, is a dictionary and has the key; otherwise nothing changes"""
    p = "(walka %s %s %s (- %s 1))" % (x, ks, i, n)
    last = "(select %s (- %s 1))" % (ks, n)
    return ("(=> (<= {i} (- {n} 1)) (= (delpath {x} {ks} {i} {n}) "
            "(ite (and (not (= {p} none)) (isD (the {p})) (vhas (the {p}) {last})) "
            "(wseta {x} {ks} {i} (- {n} 1) (D (store (dm (the {p})) {last} none))) {x})))").format(
        x=x, ks=ks, i=i, n=n, p=p, last=last)


def lem_delpath(ip, st):
    reg = ip.reg
    declare_delpath(reg)
    x, ks = reg.new("x", "Val").s, reg.new("ks", KARR).s
    i, n = reg.new("i", "Int").s, reg.new("n", "Int").s
    _hyp(st, "(forall ((y Val)) %s)" % del_lemma("y", ks, "(+ %s 1)" % i, n))      # induction on n - i, root generalised
    _finish(ip, st, "D1: delpath = store through the reference to the holder", del_lemma(x, ks, i, n),
            cases=["(= %s (- %s 1))" % (i, n), "(not (= %s (- %s 1)))" % (i, n)])


def sp_delpath(ip, st, pos, kws):
    """delpath(x, keys, i, n): x without the item addressed by keys[i..n) (reference function of DeleteContext)"""
    declare_delpath(ip.reg)
    x, ks, i, n = dterm(ip, st, pos[0]).s, _karr(ip, st, pos[1]).s, ip.num(pos[2]).s, ip.num(pos[3]).s
    _instance(ip, st, del_lemma(x, ks, i, n))
    return Opaque(T("(delpath %s %s %s %s)" % (x, ks, i, n), "Val"))


def register_delete(ix):
    ix.spec_names["delpath"] = sp_delpath
    ix.lemmas.append(Lemma("DeleteContext: delpath and stores through references (D1)", CE, ["C08"], lem_delpath,
                           notes="induction on the length of the path; hypothesis = the statement from i+1, any root"))
    ix.add_class(ClassSpec("DeleteContext", CE, fields={"_keyl": "Lst[Key]"}))
    ix.add(Contract(
        CE, "DeleteContext.__call__", props=["C08"], dict_model="Val",
        cases=[
            Contract(CE, "DeleteContext.__call__", name="DeleteContext.__call__[(data, context)]", dict_model="Val",
                     params={"self": "Self[DeleteContext]", "value": "Tuple[V,Dict]"}, result="Tuple[V,Dict]",
                     raises={},          # never an exception
                     ensures=["result[0] == value[0]", "result[1] is value[1]",
                              "not isdict(old(value[1])) implies value[1] == old(value[1])",
                              "isdict(old(value[1])) and len(self._keyl) == 0 implies value[1] == emptydict()",
                              "isdict(old(value[1])) and len(self._keyl) > 0 implies "
                              "value[1] == delpath(old(value[1]), self._keyl, 0, len(self._keyl))"],
                     modifies=["value[1]"]),
            # a value that is no tuple (bare data: there is no context to change)
            Contract(CE, "DeleteContext.__call__", name="DeleteContext.__call__[bare data]", dict_model="Val",
                     params={"self": "Self[DeleteContext]", "value": "Real"}, result="Real",
                     raises={}, ensures=["result == value"]),
        ]))


# ------------------------------------------------------------------------------------------------------ UpdateContext
# Stores through a reference at a symbolic key path (the engine's wseta) and reading back (walka): lemmas W1-W3, each
# proved below by induction on the length of the path (root generalised), then used universally (W1, W2: the patterns
# only match nested wseta / walka-of-wseta terms, the instances create no new such terms) or by instance (W3).
VALID = "(and (<= {lo} {hi}) (not (= (walka {x} {ks} {lo} {hi}) none)))"


def w1(x, ks, lo, hi, v):
    return ("(=> %s (= (walka (wseta {x} {ks} {lo} {hi} {v}) {ks} {lo} {hi}) (some {v})))" % VALID).format(
        x=x, ks=ks, lo=lo, hi=hi, v=v)


def w2(x, ks, lo, hi, v, w):
    return ("(=> %s (= (wseta (wseta {x} {ks} {lo} {hi} {v}) {ks} {lo} {hi} {w}) (wseta {x} {ks} {lo} {hi} {w})))"
            % VALID).format(x=x, ks=ks, lo=lo, hi=hi, v=v, w=w)


def w3(x, ks, lo, hi, v):
    return ("(=> %s (= (wseta {x} {ks} {lo} (+ {hi} 1) {v}) (wseta {x} {ks} {lo} {hi} "
            "(D (store (dm (the (walka {x} {ks} {lo} {hi}))) (select {ks} {hi}) (some {v}))))))" % VALID).format(
        x=x, ks=ks, lo=lo, hi=hi, v=v)


GEN_W1 = ("(forall ((x Val) (ks %s) (lo Int) (hi Int) (v Val)) (! %s :pattern ((walka (wseta x ks lo hi v) ks lo hi))))"
          % (KARR, w1("x", "ks", "lo", "hi", "v")))
GEN_W2 = ("(forall ((x Val) (ks %s) (lo Int) (hi Int) (v Val) (w Val)) (! %s "
          ":pattern ((wseta (wseta x ks lo hi v) ks lo hi w))))" % (KARR, w2("x", "ks", "lo", "hi", "v", "w")))


def _wconsts(ip):
    from pyvc.dicts import declare_paths
    reg = ip.reg
    declare_paths(reg)
    return (reg.new("x", "Val").s, reg.new("ks", KARR).s, reg.new("lo", "Int").s, reg.new("hi", "Int").s,
            reg.new("v", "Val").s, reg.new("w", "Val").s)


def lem_w1(ip, st):
    x, ks, lo, hi, v, w = _wconsts(ip)
    _hyp(st, "(forall ((y Val)) %s)" % w1("y", ks, "(+ %s 1)" % lo, hi, v))
    _finish(ip, st, "W1: reading back through the reference gives what was stored", w1(x, ks, lo, hi, v),
            cases=["(= %s %s)" % (lo, hi), "(not (= %s %s))" % (lo, hi)])


def lem_w2(ip, st):
    x, ks, lo, hi, v, w = _wconsts(ip)
    _hyp(st, "(forall ((y Val)) %s)" % w2("y", ks, "(+ %s 1)" % lo, hi, v, w))
    _finish(ip, st, "W2: a second store through the same reference overwrites the first", w2(x, ks, lo, hi, v, w),
            cases=["(= %s %s)" % (lo, hi), "(not (= %s %s))" % (lo, hi)])


def lem_w3(ip, st):
    x, ks, lo, hi, v, w = _wconsts(ip)
    _hyp(st, "(forall ((y Val)) %s)" % w3("y", ks, "(+ %s 1)" % lo, hi, v))
    _finish(ip, st, "W3: a store one key deeper = a store of the updated holder", w3(x, ks, lo, hi, v),
            cases=["(= %s %s)" % (lo, hi), "(not (= %s %s))" % (lo, hi)])


def sp_store_lemmas(ip, st, pos, kws):
    """store_lemmas(): True; brings W1 and W2 (universally, see the patterns) into the hypotheses"""
    r = None
    for g in (GEN_W1, GEN_W2):
        r = _instance(ip, st, g)
    return r


# property text C08 / docstring: UpdateContext changes exactly the addressed item to the given value (recursively: the
# existing items of the addressed sub-context that the update does not overwrite are kept, see update_recursively) and
# leaves the data and every other item untouched; the sub-context is always created.
def updpath_def(x, ks, i, n, u, r):
    """definition of the reference function updpath at these arguments (one unfolding, as for diff / upd in C07.py)"""
    k = "(select %s %s)" % (ks, i)
    return ("(= (updpath {x} {ks} {i} {n} {u} {r}) (ite (>= {i} (- {n} 1)) "
            "(ite {r} (upd {x} (D (store emptymap {k} (some {u})))) (D (store (dm {x}) {k} (some {u})))) "
            "(D (store (dm {x}) {k} (some (updpath "
            "(ite (and (vhas {x} {k}) (isD (vget {x} {k}))) (vget {x} {k}) (D emptymap)) "
            "{ks} (+ {i} 1) {n} {u} {r}))))))").format(x=x, ks=ks, i=i, n=n, u=u, r=r, k=k)


def declare_updpath(reg):
    from pyvc.dicts import declare_paths
    declare_paths(reg)
    declare_upd(reg)
    reg.ufun("updpath", ["Val", KARR, "Int", "Int", "Val", "Bool"], "Val")


def _updpath_term(ip, st, pos):
    declare_updpath(ip.reg)
    r = pos[5]
    return "(updpath %s %s %s %s %s %s)" % (dterm(ip, st, pos[0]).s, _karr(ip, st, pos[1]).s, ip.num(pos[2]).s,
                                            ip.num(pos[3]).s, dterm(ip, st, pos[4]).s, ip.truth(st, r).s)


def sp_updpath(ip, st, pos, kws):
    """updpath(x, keys, i, n, u, recursively): x with the item addressed by keys[i..n) set to u (reference function)"""
    return Opaque(T(_updpath_term(ip, st, pos), "Val"))


def sp_rest_done(ip, st, pos, kws):
    """rest_done(context, keys, i, n, u, r): the context once the remaining work -- updating the sub-context reached by
    keys[0..i) along keys[i..n) -- is done; brings W3 at (context, keys, 0, i - 1) into the hypotheses"""
    declare_updpath(ip.reg)
    c, ks = dterm(ip, st, pos[0]).s, _karr(ip, st, pos[1]).s
    i, n = ip.num(pos[2]).s, ip.num(pos[3]).s
    u, r = dterm(ip, st, pos[4]).s, ip.truth(st, pos[5]).s
    sub = "(the (walka %s %s 0 %s))" % (c, ks, i)
    inner = "(updpath %s %s %s %s %s %s)" % (sub, ks, i, n, u, r)
    _instance(ip, st, updpath_def(sub, ks, i, n, u, r))
    _instance(ip, st, w3(c, ks, "0", "(- %s 1)" % i, inner))
    _instance(ip, st, walka_split(c, ks, "0", "(- %s 1)" % i, i))
    return Opaque(T("(wseta %s %s 0 %s %s)" % (c, ks, i, inner), "Val"))


def sp_simple_value(ip, st, pos, kws):
    """simple_value(x): x is neither a string nor a jinja2.Template (docstring of UpdateContext: `a simple value`)"""
    from pyvc.builtins_ import type_test, ext_instance
    from pyvc.smt import AND, NOT
    return Bool(AND(NOT(type_test(ip, st, pos[0], "str")), NOT(ext_instance(ip, dterm(ip, st, pos[0]), "jinja2", "Template"))))


def register_update_context(ix):
    for n, f in [("updpath", sp_updpath), ("rest_done", sp_rest_done), ("store_lemmas", sp_store_lemmas),
                 ("simple_value", sp_simple_value)]:
        ix.spec_names[n] = f
    for name, build in [("key paths: read after store (W1)", lem_w1), ("key paths: store after store (W2)", lem_w2),
                        ("key paths: store one key deeper (W3)", lem_w3)]:
        ix.lemmas.append(Lemma(name, UC, ["C08"], build,
                               notes="induction on the length of the path; hypothesis = the statement from lo+1, any root"))
    ix.add_class(ClassSpec("UpdateContext", UC,
                           fields={"_update": "Dict", "_subcontext": "Lst[Key]", "_recursively": "Bool"},
                           invariant=["len(self._subcontext) >= 1"]))
    INV = ["store_lemmas()", "isdict(subdict)", "isdict(context)",
           "rest_done(context, keys, _i, len(keys), update, self._recursively) "
           "== updpath({c0}, keys, 0, len(keys), update, self._recursively)"]

    def case(name, vty, c0, extra_req, ens):
        return Contract(UC, "UpdateContext.__call__", name="UpdateContext.__call__[simple value, %s]" % name,
                        params={"self": "Self[UpdateContext]", "value": vty},
                        result="Tuple[V,Dict]" if vty.startswith("Tuple") else "Tuple[%s,Dict]" % vty,
                        requires=["simple_value(self._update)"] + extra_req,
                        raises={}, dict_model="Val",
                        loops={0: LoopSpec(cursor={"subdict": ("context", "keys", "0", "_i")},
                                           invariant=[x.format(c0=c0) for x in INV])},
                        ensures=ens + [
                            # the update value placed in the context is a deep copy made during THIS call
                            "is_deep_copy(local(update))", "local(update) == old(self._update)",
                            "self._update == old(self._update)"],
                        modifies=["value[1]"] if vty.startswith("Tuple") else [])
    ix.add(Contract(
        UC, "UpdateContext.__call__", props=["C08"], dict_model="Val",
        cases=[
            case("(data, context)", "Tuple[V,Dict]", "old(value[1])", ["isdict(value[1])"],
                 ["result[0] == value[0]", "result[1] is value[1]",
                  "value[1] == updpath(old(value[1]), self._subcontext, 0, len(self._subcontext), old(self._update), "
                  "self._recursively)"]),
            case("bare data", "Real", "emptydict()", [],
                 ["result[0] == value",
                  "result[1] == updpath(emptydict(), self._subcontext, 0, len(self._subcontext), old(self._update), "
                  "self._recursively)"]),
        ]))


# ------------------------------------------------------------------------------------------------------------ to_string
# property text C08: to_string is canonical (equal dictionaries give equal strings whatever their key order, different
# ones give different strings).  The function delegates to json.dumps; what makes the text canonical are the keyword
# arguments of that call: sort_keys=True (at EVERY level of nesting: that is json's own contract, tier A) and fixed
# separators.  Library contract (tier A): json.dumps(x, sort_keys=s, separators=sep, skipkeys=k) returns the text
# json_text(x, s, compact) or raises TypeError / ValueError / OverflowError for values it cannot serialise.
def lib_json_dumps(ip, st, pos, kws):
    from pyvc.smt import TRUE, FALSE, NOT, AND, OR
    from pyvc.sym import Tup, NoneV, NONE, Bool as B_
    from pyvc.calls import eval_spec
    reg = ip.reg
    reg.need_val()
    allkw = {"skipkeys": B_(FALSE), "sort_keys": B_(FALSE), "separators": NONE}
    for k, v in kws.items():
        if k not in allkw:
            raise Exception("json.dumps keyword %s is not modelled" % k)
        allkw[k] = v
    if len(pos) != 1:
        raise Exception("json.dumps: one positional argument expected")
    ip.assumptions.add("library contract (tier A): json.dumps(x, sort_keys=True, separators=(',', ':')) is a canonical "
                       "text of x (keys sorted at every level); it raises TypeError / ValueError / OverflowError for "
                       "values it cannot serialise")
    if ip.c is not None and not ip.spec_mode and "json.dumps" in ip.c.at_call and st.depth == 0:
        from pyvc.sym import PyDictCell
        env = dict(ip.spec_env(st))
        env["call_args"] = Tup(list(pos))
        env["call_kw"] = ip.new_cell(st, PyDictCell(allkw))
        for k, cl in enumerate(ip.c.at_call["json.dumps"]):
            ip.emit("call-site", "at-call json.dumps#%d" % k, st, eval_spec(ip, st, env, cl, old=ip.entry), {"clause": cl})
    x = dterm(ip, st, pos[0])
    sep = allkw["separators"]
    compact = isinstance(sep, Tup) and len(sep.items) == 2 and all(isinstance(i, Str) for i in sep.items) \
        and (sep.items[0].s, sep.items[1].s) == (",", ":")
    f = reg.ufun("json_text", ["Val", "Bool", "Bool"], "Key")
    outs = []
    conds = []
    for exc in ("TypeError", "ValueError", "OverflowError"):
        p = reg.ufun("json_%s" % exc, ["Val"], "Bool")
        c = T("(%s %s)" % (p, x.s), "Bool")
        bad = st.fork(AND(*([NOT(y) for y in conds] + [c])), "json%s." % exc[:4])
        if ip.may_catch(bad, exc):
            ip.raise_(bad, exc)
        else:
            ip.emit("safety", "json.dumps does not raise %s" % exc, bad, FALSE)
        conds.append(c)
    st.assume(AND(*[NOT(y) for y in conds]))
    res = Opaque(T("(%s %s %s %s)" % (f, x.s, ip.truth(st, allkw["sort_keys"]).s, "true" if compact else "false"), "Key"))
    return [(st, res)]


def sp_json_canonical(ip, st, pos, kws):
    """json_canonical(x): the json.dumps text of x with sorted keys (at every level) and the separators (',', ':')"""
    f = ip.reg.ufun("json_text", ["Val", "Bool", "Bool"], "Key")
    return Opaque(T("(%s %s true true)" % (f, dterm(ip, st, pos[0]).s), "Key"))


def sp_json_unserializable(ip, st, pos, kws):
    from pyvc.smt import OR
    x = dterm(ip, st, pos[0])
    return Bool(OR(*[T("(%s %s)" % (ip.reg.ufun("json_%s" % e, ["Val"], "Bool"), x.s), "Bool")
                     for e in ("TypeError", "ValueError", "OverflowError")]))


def register_to_string(ix):
    ix.lib[("json", "dumps")] = lib_json_dumps
    ix.spec_names["json_canonical"] = sp_json_canonical
    ix.spec_names["json_unserializable"] = sp_json_unserializable
    ix.add(Contract(
        CF, "to_string", props=["C08", "C09", "C15"], params={"d": "Val"}, result="Str",
        raises={"LenaValueError": "json_unserializable(d)"},
        ensures=["result == json_canonical(d)"],
        # obligations on the library call itself (the library's part is tier A)
        at_call={"json.dumps": ["call_args[0] == d", "call_kw['sort_keys'] == True",
                                "call_kw['separators'] == (',', ':')", "call_kw['skipkeys'] == False"]},
        notes="canonicity = json.dumps' own contract for sort_keys=True (tier A); proved here: the call passes the "
              "dictionary itself with sort_keys=True and fixed separators, every serialisation error becomes "
              "LenaValueError, nothing else escapes"))


# ------------------------------------------------------------------------------------------- str_to_list, str_to_dict
# docstrings: str_to_list(s) = the dot-separated components of s ([] for the empty string); str_to_dict(s, value) = nested
# dictionaries, one level per component, the value under the deepest key (without a value the last component is the
# value).  `parts` = components (+ value) is a list of context values (strings embedded by key_as_val); reference:
# nestl(l) = {l[0]: l[1]} if len(l) <= 2 else {l[0]: nestl(l[1:])}.
def declare_nestl(reg):
    reg.need_val()
    ls = reg.lst("Val")
    reg.ufun("key_as_val", ["Key"], "Val")
    reg.ufun("val_as_key", ["Val"], "Key")
    ax = T("(forall ((k Key)) (! (= (val_as_key (key_as_val k)) k) :pattern ((key_as_val k))))", "Bool")
    if not any(a.s == ax.s for a in reg.axioms):
        reg.axioms.append(ax)
    reg.ufun("nestl", [ls], "Val")
    return ls


def nestl_def(l, ls):
    """definition of the reference function nestl at the list term l (one unfolding); l[1:] is the list term the engine
    builds for that slice (the items shifted by one)"""
    first = "(val_as_key (select (arr_{ls} {l}) 0))".format(ls=ls, l=l)
    return ("(= (nestl {l}) (ite (<= (len_{ls} {l}) 2) "
            "(D (store emptymap {first} (some (select (arr_{ls} {l}) 1)))) "
            "(D (store emptymap {first} (some (nestl (mk_{ls} (lambda ((si Int)) (select (arr_{ls} {l}) (+ si 1))) "
            "(- (len_{ls} {l}) 1))))))))").format(ls=ls, l=l, first=first)


def sp_nestl(ip, st, pos, kws):
    from pyvc.speclib import lst_term
    ls = declare_nestl(ip.reg)
    l = lst_term(ip, st, pos[0], ls).s
    if not ip.bound_stack:
        ax = T(nestl_def(l, ls), "Bool")
        if not any(x.s == ax.s for x in st.pc):
            st.pc.append(ax)
    return Opaque(T("(nestl %s)" % l, "Val"))


def sp_is_key(ip, st, pos, kws):
    """is_key(v): the context value v is a string (so it can be a dictionary key)"""
    declare_nestl(ip.reg)
    v = dterm(ip, st, pos[0]).s
    return Bool(T("(= %s (key_as_val (val_as_key %s)))" % (v, v), "Bool"))


# the same dictionary written over the components and the value: nestk(ks, i, n, v) = {ks[i]: v} if i >= n - 1 else
# {ks[i]: nestk(ks, i + 1, n, v)}  (uninterpreted symbol + its definition at the arguments it is applied to)
def declare_nestk(reg):
    declare_nestl(reg)
    reg.need(KARR)
    reg.ufun("nestk", [KARR, "Int", "Int", "Val"], "Val")


def nestk_def(ks, i, n, v):
    k = "(select %s %s)" % (ks, i)
    return ("(= (nestk {ks} {i} {n} {v}) (ite (>= {i} (- {n} 1)) (D (store emptymap {k} (some {v}))) "
            "(D (store emptymap {k} (some (nestk {ks} (+ {i} 1) {n} {v}))))))").format(ks=ks, i=i, n=n, v=v, k=k)


def n1_premise(l, ls, ks, off, m, v):
    return ("(and (>= {m} 1) (= (len_{ls} {l}) (+ {m} 1)) (= (select (arr_{ls} {l}) {m}) {v}) "
            "(forall ((nq Int)) (! (=> (and (<= 0 nq) (< nq {m})) (= (select (arr_{ls} {l}) nq) "
            "(key_as_val (select {ks} (+ {off} nq))))) :pattern ((select (arr_{ls} {l}) nq)))))").format(
        l=l, ls=ls, ks=ks, off=off, m=m, v=v)


def n1(l, ls, ks, off, m, v):
    """N1: a list of m embedded components ks[off..off+m) followed by v nests to nestk(ks, off, off+m, v)"""
    return "(=> %s (= (nestl %s) (nestk %s %s (+ %s %s) %s)))" % (n1_premise(l, ls, ks, off, m, v), l, ks, off, off, m, v)


def lem_n1(ip, st):
    reg = ip.reg
    declare_nestk(reg)
    ls = reg.lst("Val")
    l, ks = reg.new("l", ls).s, reg.new("ks", KARR).s
    off, m, v = reg.new("off", "Int").s, reg.new("m", "Int").s, reg.new("v", "Val").s
    tail = "(mk_{ls} (lambda ((si Int)) (select (arr_{ls} {l}) (+ si 1))) (- (len_{ls} {l}) 1))".format(ls=ls, l=l)
    _hyp(st, nestl_def(l, ls))
    _hyp(st, nestk_def(ks, off, "(+ %s %s)" % (off, m), v))
    # induction on m: the statement for the tail of the list (one component fewer, offset + 1)
    _hyp(st, n1(tail, ls, ks, "(+ %s 1)" % off, "(- %s 1)" % m, v))
    _finish(ip, st, "N1: nestl(components + [value]) = nestk(components, value)", n1(l, ls, ks, off, m, v),
            cases=["(= %s 1)" % m, "(not (= %s 1))" % m])


def sp_nestk(ip, st, pos, kws):
    """nestk(keys, i, n, v): nested dictionaries {keys[i]: {... {keys[n-1]: v}}} (reference function of str_to_dict)"""
    declare_nestk(ip.reg)
    ks, i, n, v = _karr(ip, st, pos[0]).s, ip.num(pos[1]).s, ip.num(pos[2]).s, dterm(ip, st, pos[3]).s
    if not ip.bound_stack:
        ax = T(nestk_def(ks, i, n, v), "Bool")
        if not any(x.s == ax.s for x in st.pc):
            st.pc.append(ax)
    return Opaque(T("(nestk %s %s %s %s)" % (ks, i, n, v), "Val"))


def sp_nest_lemma(ip, st, pos, kws):
    """nest_lemma(l, keys, off, m, v): True; brings lemma N1 at these arguments into the hypotheses"""
    from pyvc.speclib import lst_term
    declare_nestk(ip.reg)
    ls = ip.reg.lst("Val")
    lt = lst_term(ip, st, pos[0], ls)
    return _instance(ip, st, n1(lt.s, ls, _karr(ip, st, pos[1]).s, ip.num(pos[2]).s, ip.num(pos[3]).s, dterm(ip, st, pos[4]).s))


def sp_keys_as_vals(ip, st, pos, kws):
    """keys_as_vals(keys): the list of strings as a list of context values (the term the engine builds at a call)"""
    from pyvc.speclib import lst_term
    from pyvc.dicts import key_as_val
    reg = ip.reg
    ls = reg.lst("Val")
    kt = lst_term(ip, st, pos[0], reg.lst("Key"))
    arr = "(lambda ((pi Int)) %s)" % key_as_val(ip, T("(select %s pi)" % reg.l_arr(kt).s, "Key")).s
    return ip.lst_view(T("(mk_%s %s %s)" % (ls, arr, reg.l_len(kt).s), ls))


def sp_key_value(ip, st, pos, kws):
    """key_value(k): the string k as a context value"""
    from pyvc.dicts import key_as_val
    return Opaque(key_as_val(ip, ip.key_term(pos[0])))


def register_str(ix):
    ix.spec_names["nestl"] = sp_nestl
    ix.spec_names["is_key"] = sp_is_key
    for n, f in [("nestk", sp_nestk), ("nest_lemma", sp_nest_lemma), ("keys_as_vals", sp_keys_as_vals),
                 ("key_value", sp_key_value)]:
        ix.spec_names[n] = f
    ix.lemmas.append(Lemma("str_to_dict: nestl over parts = nestk over components and value (N1)", CF, ["C08"], lem_n1,
                           notes="induction on the number of components; hypothesis = the statement for the tail"))
    KS = "split_dots(s)"
    ix.add(Contract(
        CF, "str_to_dict", props=["C08"], dict_model="Val",
        cases=[
            Contract(CF, "str_to_dict", name="str_to_dict[s, value]", dict_model="Val",
                     params={"s": "Str", "value": "Val"}, result="Dict",
                     raises={"LenaValueError": "s == ''"},
                     ensures=["s != '' implies nest_lemma(local(parts), %s, 0, len(%s), value)" % (KS, KS),
                              "result == nestk(%s, 0, len(%s), value)" % (KS, KS)]),
            Contract(CF, "str_to_dict", name="str_to_dict[s]", dict_model="Val",
                     params={"s": "Str", "value": SENT}, result="Dict",
                     raises={"LenaValueError": "len(%s) < 2 and s != ''" % KS},
                     ensures=["s == '' implies result == emptydict()",
                              "s != '' implies nest_lemma(keys_as_vals(%s), %s, 0, len(%s) - 1, key_value(%s[len(%s) - 1]))"
                              % (KS, KS, KS, KS, KS),
                              "s != '' implies result == nestk(%s, 0, len(%s) - 1, key_value(%s[len(%s) - 1]))"
                              % (KS, KS, KS, KS)]),
        ]))
    ix.add(Contract(
        CF, "str_to_list", props=["C08"], params={"s": "Str"}, result="Lst[Key]", raises={},
        ensures=["s == '' implies len(result) == 0", "s != '' implies same(result, split_dots(s))"]))
    ix.add(Contract(
        CF, "str_to_dict.nest_list", props=["C08"], dict_model="Val",
        params={"d": "Dict", "l": "Lst[Val]"}, result="Dict", result_alias="d",
        requires=["d == emptydict()", "all(is_key(l[i]) for i in range(len(l) - 1))"],
        raises={"LenaValueError": "len(l) < 2"}, raises_frame="pure",
        ensures=["d == nestl(l)"], modifies=["d"],
        notes="the recursive call on l[1:] goes through this contract (termination: the list gets shorter; not an "
              "obligation of the engine)"))


# ------------------------------------------------ the law  get_recursively(str_to_dict(s, v), s) is v  (property C08)
def n2(L, i, n, v):
    """N2: following the components L[i..n) through nestk(L, i, n, v) ends at v"""
    ls = "Lst_Key"
    return ("(=> (and (<= 0 {i}) (< {i} {n})) (= (walk (nestk (arr_{ls} {L}) {i} {n} {v}) {L} {i} {n}) (some {v})))"
            ).format(L=L, i=i, n=n, v=v, ls=ls)


def lem_n2(ip, st):
    from contracts.C08 import declare_walk
    reg = ip.reg
    declare_nestk(reg)
    ls = declare_walk(reg)
    L, i, n, v = reg.new("L", ls).s, reg.new("i", "Int").s, reg.new("n", "Int").s, reg.new("v", "Val").s
    A = "(arr_%s %s)" % (ls, L)
    _hyp(st, nestk_def(A, i, n, v))
    _hyp(st, n2(L, "(+ %s 1)" % i, n, v))          # induction on n - i
    _finish(ip, st, "N2: walk(nestk(ks, i, n, v), ks, i, n) == v", n2(L, i, n, v),
            cases=["(= %s (- %s 1))" % (i, n), "(not (= %s (- %s 1)))" % (i, n)])


def lem_law(ip, st):
    """over the CONTRACTS of str_to_dict and get_recursively: for a non-empty dotted string s and any value v,
    get_recursively(str_to_dict(s, v), s) raises nothing and returns v"""
    from pyvc.calls import apply_contract
    from pyvc.interp import VC
    from pyvc.smt import FALSE, EQ, NOT
    from contracts.C08 import declare_walk
    reg = ip.reg
    declare_nestk(reg)
    ls = declare_walk(reg)
    s = Opaque(reg.new("s", "Key"))
    v = Opaque(reg.new("v", "Val"))
    st.assume(NOT(EQ(s.t, reg.key(""))))
    ip.entry = st.copy()
    ip.oldst = ip.entry
    sd = ip.contracts.by_key[(CF, "str_to_dict")]
    gr = ip.contracts.by_key[(CF, "get_recursively")]
    n0 = len(ip._exc_out)
    (s1, d), = apply_contract(ip, st, sd, [s, v], {})
    (s2, r), = apply_contract(ip, s1, gr, [d, s], {})
    # N2 at the components of s (proved as a Lemma of this file)
    L = "(ksplit %s)" % s.t.s
    s2.assume(T(n2(L, "0", "(len_%s %s)" % (ls, L), v.t.s), "Bool"))
    for sx, exc in ip._exc_out[n0:]:
        sx.assume(T(n2(L, "0", "(len_%s %s)" % (ls, L), v.t.s), "Bool"))
        ip.emit("lemma", "no %s: the exceptional outcome is infeasible" % exc.cls, sx, FALSE)
    ip._exc_out = ip._exc_out[:n0]
    ip.emit("lemma", "get_recursively(str_to_dict(s, v), s) == v", s2, EQ(dterm(ip, s2, r), v.t))
    ip.vcs.append(VC("cover requires", "cover", list(s2.pc), FALSE, ""))
    ip.vcs.append(VC("canary ensures False#0", "canary", list(s2.pc), FALSE, ""))


def register_law(ix):
    gr = ix.by_key[(CF, "get_recursively")]
    gr.cases.append(Contract(
        CF, "get_recursively", name="get_recursively[dotted string, no default]",
        params={"d": "Val", "keys": "Str", "default": SENT}, result="Val",
        raises={"LenaTypeError": "not isdict(d)",
                "LenaKeyError": "walk(d, dot_components(keys), 0, len(dot_components(keys))) == absent() and isdict(d)"},
        ensures=["present(result) == walk(d, dot_components(keys), 0, len(dot_components(keys)))"],
        loops={2: LoopSpec(invariant=[
            "isdict(d)",
            "walk(d, keys, _i, len(keys)) == walk(old(d), keys, 0, len(keys))"])}))
    ix.spec_names["dot_components"] = sp_dot_components
    ix.lemmas.append(Lemma("str_to_dict: following the components through nestk ends at the value (N2)", CF, ["C08"],
                           lem_n2, notes="induction on the number of remaining components"))
    ix.lemmas.append(Lemma("law: get_recursively(str_to_dict(s, v), s) is v", CF, ["C08"], lem_law,
                           notes="over the contracts of str_to_dict[s, value] and get_recursively[dotted string]; "
                                 "uses lemma N2 at the components of s; `is` is value equality in the Val encoding"))


def sp_dot_components(ip, st, pos, kws):
    """dot_components(s): what str_to_list(s) returns: [] for the empty string, else the dot-separated components"""
    from contracts.C08 import sp_split_dots
    v = pos[0]
    if isinstance(v, Str):
        if v.s == "":
            return ip.items_view([])
        return sp_split_dots(ip, st, pos, kws)
    comps = sp_split_dots(ip, st, pos, kws)
    reg = ip.reg
    t = comps.term
    empty = T("(mk_%s %s 0)" % (t.sort, reg.l_arr(t).s), t.sort)
    from pyvc.smt import ITE, EQ
    return ip.lst_view(ITE(EQ(v.t, reg.key("")), empty, t))


# -------------------------------------------------------------------------------------------------- format_update_with
# docstring: update d[key] with value (a composition of str_to_dict and update_recursively) -- for a value that is no
# formatting string.  property text C08: changes exactly the addressed item, leaves every other item untouched.
def register_format_update_with(ix):
    KS = "split_dots(key)"

    def case(name, vty, req):
        return Contract(CF, "format_update_with", name="format_update_with[%s]" % name, dict_model="Val",
                        params={"key": "Str", "value": vty, "d": "Dict"}, result=None, requires=req,
                        raises={"LenaValueError": "key == ''", "LenaTypeError": "key != '' and not isdict(d)"},
                        raises_frame="pure",
                        ensures=["d == upd_spec(old(d), nestk(%s, 0, len(%s), value))" % (KS, KS)]
                        + (["value == old(value)"] if vty == "Dict" else []),
                        modifies=["d"])
    ix.add(Contract(CF, "format_update_with", props=["C08"], dict_model="Val",
                    cases=[case("dictionary value", "Dict", ["isdict(value)"]),
                           case("number", "Real", []), case("bool", "Bool", [])]))


# -------------------------------------------------------------------------------------------------------- update_nested
# docstring: if d has no key: d[key] = other.  Otherwise d[key] is inserted at the deepest level of other.key.key...
# (so that it is not overridden) and d[key] becomes other.  property text C07: update_nested keeps the previous d[key]
# reachable under the new one.  Reference: upn(x, k, v) = x with v stored under k at the deepest level of x.k.k...
# Dictionaries are finite trees in the encoding (datatype Val): a cyclic `other` (for which the function raises
# LenaValueError) is outside it; kdepth(x, k) = the number of nested k-levels of x.
KDEPTH = ("(define-fun-rec kdepth ((x Val) (k Key)) Int (ite (and (isD x) (vhas x k)) "
          "(+ 1 (ite (< (kdepth (vget x k) k) 0) 0 (kdepth (vget x k) k))) 0))")
KCHAIN = ("(define-fun-rec kchain ((x Val) (k Key)) Bool (and (isD x) (=> (vhas x k) (kchain (vget x k) k))))")


def declare_upn(reg):
    from pyvc.dicts import declare_paths
    declare_paths(reg)
    reg.fun_decl("kdepth", KDEPTH)
    reg.fun_decl("kchain", KCHAIN)
    reg.ufun("upn", ["Val", "Key", "Val"], "Val")


def upn_def(x, k, v):
    return ("(= (upn {x} {k} {v}) (ite (vhas {x} {k}) (D (store (dm {x}) {k} (some (upn (vget {x} {k}) {k} {v})))) "
            "(D (store (dm {x}) {k} (some {v})))))").format(x=x, k=k, v=v)


def u1(x, k, v, lo):
    A = "((as const %s) %s)" % (KARR, k)
    hi = "(+ %s (kdepth %s %s))" % (lo, x, k)
    p = "(walka %s %s %s %s)" % (x, A, lo, hi)
    return ("(=> (kchain {x} {k}) (and (not (= {p} none)) (isD (the {p})) (not (vhas (the {p}) {k})) "
            "(= (wseta {x} {A} {lo} {hi} (D (store (dm (the {p})) {k} (some {v})))) (upn {x} {k} {v}))))"
            ).format(x=x, k=k, v=v, A=A, lo=lo, hi=hi, p=p)


def walka_unfold(x, ks, i, n):
    return ("(= (walka {x} {ks} {i} {n}) (ite (>= {i} {n}) (some {x}) (ite (and (isD {x}) (vhas {x} (select {ks} {i}))) "
            "(walka (vget {x} (select {ks} {i})) {ks} (+ {i} 1) {n}) none)))").format(x=x, ks=ks, i=i, n=n)


def wseta_unfold(x, ks, i, n, v):
    return ("(= (wseta {x} {ks} {i} {n} {v}) (ite (>= {i} {n}) {v} (D (store (dm {x}) (select {ks} {i}) "
            "(some (wseta (vget {x} (select {ks} {i})) {ks} (+ {i} 1) {n} {v}))))))").format(x=x, ks=ks, i=i, n=n, v=v)


def kdepth_unfold(x, k):
    return ("(= (kdepth {x} {k}) (ite (and (isD {x}) (vhas {x} {k})) "
            "(+ 1 (ite (< (kdepth (vget {x} {k}) {k}) 0) 0 (kdepth (vget {x} {k}) {k}))) 0))").format(x=x, k=k)


def kchain_unfold(x, k):
    return "(= (kchain {x} {k}) (and (isD {x}) (=> (vhas {x} {k}) (kchain (vget {x} {k}) {k}))))".format(x=x, k=k)


def lem_u1(ip, st):
    """the recursive functions are taken as symbols with their defining equations at the terms used (their unfoldings):
    the proof is then a fixed combination of those equations and the induction hypothesis"""
    reg = ip.reg
    reg.need_val()
    reg.need(KARR)
    reg.ufun("walka", ["Val", KARR, "Int", "Int"], "Opt")
    reg.ufun("wseta", ["Val", KARR, "Int", "Int", "Val"], "Val")
    reg.ufun("kdepth", ["Val", "Key"], "Int")
    reg.ufun("kchain", ["Val", "Key"], "Bool")
    reg.ufun("upn", ["Val", "Key", "Val"], "Val")
    x, k, v, lo = reg.new("x", "Val").s, reg.new("k", "Key").s, reg.new("v", "Val").s, reg.new("lo", "Int").s
    sub = "(vget %s %s)" % (x, k)
    A = "((as const %s) %s)" % (KARR, k)
    hi = "(+ %s (kdepth %s %s))" % (lo, x, k)
    p1 = "(walka %s %s %s %s)" % (x, A, lo, hi)
    Z = "(D (store (dm (the %s)) %s (some %s)))" % (p1, k, v)
    for h in (upn_def(x, k, v), kdepth_unfold(x, k), kdepth_unfold(sub, k), kchain_unfold(x, k),
              walka_unfold(x, A, lo, hi), wseta_unfold(x, A, lo, hi, Z)):
        _hyp(st, h)
    # induction on the structure of x: the statement for the sub-dictionary x[k], start index lo + 1
    _hyp(st, u1(sub, k, v, "(+ %s 1)" % lo))
    _finish(ip, st, "U1: storing v under k through the reference to the deepest k-level = upn", u1(x, k, v, lo),
            cases=["(vhas %s %s)" % (x, k), "(not (vhas %s %s))" % (x, k)])


def sp_kdepth(ip, st, pos, kws):
    declare_upn(ip.reg)
    return Num(T("(kdepth %s %s)" % (dterm(ip, st, pos[0]).s, ip.key_term(pos[1]).s), "Int"))


def sp_kchain(ip, st, pos, kws):
    declare_upn(ip.reg)
    return Bool(T("(kchain %s %s)" % (dterm(ip, st, pos[0]).s, ip.key_term(pos[1]).s), "Bool"))


def sp_upn(ip, st, pos, kws):
    """upn(x, k, v): x with v stored under k at the deepest level of x.k.k... ; brings U1 at (x, k, v, 0) in"""
    declare_upn(ip.reg)
    x, k, v = dterm(ip, st, pos[0]).s, ip.key_term(pos[1]).s, dterm(ip, st, pos[2]).s
    _instance(ip, st, upn_def(x, k, v))
    _instance(ip, st, u1(x, k, v, "0"))
    return Opaque(T("(upn %s %s %s)" % (x, k, v), "Val"))


def register_update_nested(ix):
    for n, f in [("kdepth", sp_kdepth), ("kchain", sp_kchain), ("upn", sp_upn)]:
        ix.spec_names[n] = f
    ix.lemmas.append(Lemma("update_nested: store at the deepest level = upn (U1)", CF, ["C07"], lem_u1,
                           notes="structural induction; hypothesis = the statement for the sub-dictionary x[k]"))
    ix.add(Contract(
        CF, "update_nested.get_most_nested_subdict_with", props=["C07"], dict_model="Val",
        params={"key": "Str", "d": "Dict"}, result="Dict", local_types={"nested_dicts": "Lst[Val]"},
        requires=["kchain(d, key)"],          # other.key.key... consists of dictionaries
        result_ref=("d", "key", "0", "kdepth(d, key)"),
        raises={},                            # (a finite tree is never `recursive`: LenaValueError is not raised)
        ensures=["d == old(d)", "isdict(result)", "not (key in result)"],
        loops={0: LoopSpec(
            cursor={"d": ("old(d)", "key", "0", "len(nested_dicts)")},
            invariant=["walk_split(old(d), key, 0, len(nested_dicts) - 1, len(nested_dicts))",
                       "kchain(d, key)",
                       "kdepth(old(d), key) == len(nested_dicts) + kdepth(d, key)",
                       "kdepth(d, key) >= 0",
                       "all(kdepth(nested_dicts[j], key) > kdepth(d, key) for j in range(len(nested_dicts)))"],
            decreases="kdepth(d, key)")}))
    ix.add(Contract(
        CF, "update_nested", props=["C07"], dict_model="Val",
        params={"key": "Str", "d": "Dict", "other": "Dict"}, result=None,
        requires=["isdict(d)", "kchain(other, key)"],
        raises={},
        ensures=["not (key in old(d)) implies other == old(other)",
                 "not (key in old(d)) implies all_keys(lambda k: item(d, k) == (present(old(other)) if k == key else item(old(d), k)))",
                 "(key in old(d)) implies other == upn(old(other), key, old(d)[key])",
                 "(key in old(d)) implies all_keys(lambda k: item(d, k) == (present(upn(old(other), key, old(d)[key])) if k == key else item(old(d), k)))",
                 # the previous d[key] is reachable under the new one: one level below the deepest key-level of other
                 "(key in old(d)) implies store_lemmas() and "
                 "walk_split(other, key, 0, kdepth(old(other), key), kdepth(old(other), key) + 1) implies "
                 "walka(d[key], key, 0, kdepth(old(other), key) + 1) == present(old(d)[key])"],
        modifies=["d", "other"]))


def register(ix):
    register_to_string(ix)
    register_str(ix)
    register_format_update_with(ix)
    register_intersection(ix)
    register_laws(ix)
    register_paths(ix)
    register_delete(ix)
    register_update_context(ix)
    register_law(ix)
    register_update_nested(ix)
