"""P_core2 -- C01 / C03 / C05 / C16: the core functions every classification / construction decision goes through.

1. lena/core/check_sequence_type.py: the six predicates, result == exactly the documented test over the abstract element
   interface (has_attr / callable_m / is_instance_of) for an abstract object and for tuples of 0..3 objects, no exception
   (ghost attr_safety: reading an attribute of an abstract object that may lack it is an obligation).  Callers of the four
   element-level tests (is_fill_compute_el, is_fill_request_el, is_run_el, is_source) now go through the contracts (ghost
   result_def: the call IS the term of `result == ...`); the two sequence-level tests are proved as units and still executed
   in place by their callers (their bodies call the element tests through the contracts): the callers' own obligations
   `map over an abstract object: it is not iterable` are emitted inside them.
2. lena/core/lena_sequence.py: LenaSequence.__init__ (0..3 arguments: `_seq` are the arguments, `_data_seq` the ones without
   `_has_no_data`, in order, a new list; no exception: LenaKeyError of the static-context initialisation is swallowed),
   __iter__, __getitem__, __eq__; __eq__ of Sequence, Source, LenaSplit, FillComputeSeq, FillSeq.
3. lena/core/adapters.py: the class-level placeholders FillCompute.fill / compute, FillRequest.run (LenaNotImplementedError,
   nothing changed; the delegations are installed and proved in the constructors: C05.py / P_fr.py), Run.run, Run.__eq__,
   SourceEl.__call__, FillRequest._run_run.slice_iterated_with_count.__init__ / __iter__; lena/core/fill_seq.py _Fill.__init__.
4. lena/flow/zip.py: Zip._create_data (1..3 branches, no field names); Zip._create_context for two branches without field
   names under the precondition that the common context has no item `zip` (relative to an ASSUMED case of update_nested for
   a tuple `other`: tuples inside contexts are not modelled) -- without that precondition the real code raises TypeError
   (finding, props=[]: Zip._create_context#common-zip).  The assumed contract of P_split.py stays at the real key for Zip._yield.
5. contracts/P_split.py `LenaSplit.__init__[any list ...]` (assumed) is removed: proved for lists of elements; Split.__init__
   executes it (and LenaSplit._set_context({})) in place.
Not reached: the static context after LenaSequence.__init__ as seq_ctx(...) (the tuple `_seq` and the list-typed contract of
LenaSequence._set_context do not meet on one list term); namedtuple results of Zip (a class made at run time); iterable
abstract objects as arguments of the sequence-level tests (iteration over an abstract object is not modelled).
"""
from pyvc.contracts import Contract, LoopSpec, ClassSpec

CT = "lena/core/check_sequence_type.py"
LS = "lena/core/lena_sequence.py"
AD = "lena/core/adapters.py"
SQ = "lena/core/sequence.py"
SO = "lena/core/source.py"
SP = "lena/core/split.py"
FS = "lena/core/fill_seq.py"
FCS = "lena/core/fill_compute_seq.py"
FRS = "lena/core/fill_request_seq.py"
ZP = "lena/flow/zip.py"

# the documented tests (docstrings of check_sequence_type)
# "Object contains executable methods 'fill' and 'compute'."
IS_FC = "(has_attr({e}, 'fill') and has_attr({e}, 'compute') and callable_m({e}, 'fill') and callable_m({e}, 'compute'))"
# "Object contains executable methods 'fill' and 'request'."
IS_FR = "(has_attr({e}, 'fill') and has_attr({e}, 'request') and callable_m({e}, 'fill') and callable_m({e}, 'request'))"
# "Object contains executable method 'run'."
IS_RUN = "(has_attr({e}, 'run') and callable_m({e}, 'run'))"
# "Sequence is a Source, if and only if its type is Source."
IS_SRC = "is_instance_of({e}, 'Source')"


# the boolean result of a predicate IS the term of its postcondition `result == ...` at call sites (pyvc/calls.py)
RD = {"result_def": True}


def replace(ix, c):
    """register c under its key INSTEAD of the contract an earlier module registered there"""
    for lst in ix.by_simple.values():
        lst[:] = [x for x in lst if x.key != c.key]
    return ix.add(c)


def register_predicates(ix, props):
    def el_pred(fn, test, par):
        cases = [Contract(CT, fn, name="%s[object]" % fn, params={par: "Obj"}, result="Bool",
                          ensures=["result == %s" % test.format(e=par)], raises={}, modifies=[], ghost=dict(RD, attr_safety=True))]
        # a tuple (a branch of Split written as a tuple of elements) has none of the methods
        for n in (0, 1, 2, 3):
            cases.append(Contract(CT, fn, name="%s[tuple of %d]" % (fn, n),
                                  params={par: "Tuple[%s]" % ",".join(["Obj"] * n)}, result="Bool",
                                  ensures=["result == False"], raises={}, modifies=[], ghost=RD))
        return Contract(CT, fn, props=props, cases=cases)
    replace(ix, el_pred("is_fill_compute_el", IS_FC, "obj"))
    replace(ix, el_pred("is_fill_request_el", IS_FR, "obj"))
    replace(ix, el_pred("is_run_el", IS_RUN, "obj"))
    # is_source: an element, or a tuple of elements (a tuple is never a Source)
    src_cases = [Contract(CT, "is_source", name="is_source[object]", params={"seq": "Obj"}, result="Bool",
                          ensures=["result == %s" % IS_SRC.format(e="seq")], raises={}, modifies=[], ghost=RD)]
    for n in (0, 1, 2, 3):
        src_cases.append(Contract(CT, "is_source", name="is_source[tuple of %d]" % n,
                                  params={"seq": "Tuple[%s]" % ",".join(["Obj"] * n)}, result="Bool",
                                  ensures=["result == False"], raises={}, modifies=[], ghost=RD))
    replace(ix, Contract(CT, "is_source", props=props, cases=src_cases))

    # "True only if it is a FillCompute element or contains at least one such, and it is not a Source sequence."
    def seq_pred(fn, test):
        cases = [Contract(CT, fn, name="%s[object that is not iterable]" % fn, params={"seq": "Obj"}, result="Bool",
                          requires=["not has_attr(seq, '__iter__')", "not has_attr(seq, '__getitem__')"],
                          ensures=["result == (not %s and %s)" % (IS_SRC.format(e="seq"), test.format(e="seq"))],
                          raises={}, modifies=[])]
        for n in (0, 1, 2, 3):
            some = " or ".join(test.format(e="seq[%d]" % i) for i in range(n)) or "False"
            cases.append(Contract(CT, fn, name="%s[tuple of %d]" % (fn, n),
                                  params={"seq": "Tuple[%s]" % ",".join(["Obj"] * n)}, result="Bool",
                                  ensures=["result == (%s)" % some], raises={}, modifies=[]))
        # callers execute the two sequence tests in place (their bodies call the element tests through the contracts above)
        replace(ix, Contract(CT, fn, props=props, inline=True, cases=cases))
    seq_pred("is_fill_compute_seq", IS_FC)
    seq_pred("is_fill_request_seq", IS_FR)


# ---------------------------------------------------------------------------------------------- LenaSequence
ND = "not has_attr(args[%d], '_has_no_data')"


def register_lena_sequence(ix, props):
    """LenaSequence.__init__: the arguments ARE the sequence (`_seq`), `_data_seq` lists the elements that process data (the
    elements marked `_has_no_data` are dropped from it only), in order; the static context is initialised with the empty
    context and a LenaKeyError from that (an element that cannot give its context yet) is swallowed."""
    ix.add_class(ClassSpec("LenaSequence_new", LS, fields={}, alias_of="LenaSequence"))
    MOD = ["self._seq", "self._data_seq", "self._static_context", "self._exc"]

    def init(n):
        ens = ["len(self._seq) == %d" % n] + ["self._seq[%d] is args[%d]" % (i, i) for i in range(n)]
        for mask in range(2 ** n):
            kept = [i for i in range(n) if mask >> i & 1]
            cond = " and ".join((ND % i) if i in kept else "has_attr(args[%d], '_has_no_data')" % i for i in range(n))
            cl = ["len(self._data_seq) == %d" % len(kept)] + ["self._data_seq[%d] is args[%d]" % (j, i) for j, i in enumerate(kept)]
            ens += [("%s implies %s" % (cond, c)) if cond else c for c in cl]
        return Contract(LS, "LenaSequence.__init__", name="LenaSequence.__init__[%d arguments]" % n,
                        params={"self": "Self[LenaSequence_new]", "args": "Tuple[%s]" % ",".join(["Obj"] * n)}, vararg="args",
                        # no exception for any list of elements (LenaKeyError of the static-context initialisation is swallowed)
                        raises={}, ensures=ens + ["is_fresh(self._data_seq)"], modifies=MOD, ghost={"elstate": True})
    # callers (the constructors of Sequence, Source, FillSeq, FillComputeSeq, FillRequestSeq) still execute it in place: they
    # unroll their own loops over the concrete list `_data_seq` it leaves behind
    replace(ix, Contract(LS, "LenaSequence.__init__", props=props, inline=True, cases=[init(n) for n in (0, 1, 2, 3)]))


def register_lena_sequence_access(ix, props):
    """`LenaSequence provides methods to iterate over a sequence, get its length and get an item at the given index`: over
    the arguments of the constructor (`_seq`, also the elements without data), in order."""
    ix.add_class(ClassSpec("LenaSequence_s", LS, fields={"_seq": "Lst[Obj]"}, alias_of="LenaSequence"))
    replace(ix, Contract(LS, "LenaSequence.__iter__", props=props, inline=True, cases=[
        Contract(LS, "LenaSequence.__iter__", name="LenaSequence.__iter__[sequence of any length]",
                 params={"self": "Self[LenaSequence_s]"}, result="Iter[Obj]", raises={}, modifies=[],
                 # a NEW iteration over all elements, from the first one
                 ensures=["pulled(result) == 0", "same(content(result), self._seq)"])]))
    replace(ix, Contract(LS, "LenaSequence.__getitem__", props=props, inline=True, cases=[
        Contract(LS, "LenaSequence.__getitem__", name="LenaSequence.__getitem__[integer index]",
                 params={"self": "Self[LenaSequence_s]", "ind": "Int"}, result="Obj",
                 raises={"IndexError": "ind >= len(self._seq) or ind < -len(self._seq)"}, modifies=[],
                 ensures=["ind >= 0 implies result is self._seq[ind]",
                          "ind < 0 implies result is self._seq[len(self._seq) + ind]"])]))


def register_eq(ix, props):
    """__eq__ of the sequence classes: an operand of the class is equal IFF the two sequences consist of equal elements in
    the same order (`_seq`: all arguments of the constructor); any other operand: NotImplemented (python then tries the
    reflected comparison)."""
    EQ_CLASSES = [(LS, "LenaSequence", "_seq"), (SQ, "Sequence", "_seq"), (SO, "Source", "_seq"), (FCS, "FillComputeSeq", "_seq"),
                  (FS, "FillSeq", "_seq"), (SP, "LenaSplit", "_seqs")]
    for f, cls, fld in EQ_CLASSES:
        for n in (0, 1, 2):
            ix.add_class(ClassSpec("%s_eq%d" % (cls, n), f, alias_of=cls, fields={fld: "Tuple[%s]" % ",".join(["Obj"] * n)}))
    for f, cls, fld in EQ_CLASSES:
        cases = []
        for n, m in ((0, 0), (1, 1), (2, 2), (1, 2), (2, 0)):
            same = " and ".join("self.%s[%d] == other.%s[%d]" % (fld, i, fld, i) for i in range(n)) or "True"
            cases.append(Contract(f, cls + ".__eq__", name="%s.__eq__[%d elements == %d elements]" % (cls, n, m),
                                  params={"self": "Self[%s_eq%d]" % (cls, n), "other": "Inst[%s_eq%d]" % (cls, m)}, result="Bool",
                                  raises={}, modifies=[], ensures=["result == (%s)" % (same if n == m else "False")]))
        cases.append(Contract(f, cls + ".__eq__", name="%s.__eq__[other: an object of another class]" % cls,
                              params={"self": "Self[%s_eq2]" % cls, "other": "Obj"}, result="Any", raises={}, modifies=[],
                              requires=["not isinstance(other, %s)" % cls], ensures=["result is NotImplemented"]))
        for nm, ty in (("None", "None"), ("a number", "Real"), ("a string", "Str")):
            cases.append(Contract(f, cls + ".__eq__", name="%s.__eq__[other: %s]" % (cls, nm),
                                  params={"self": "Self[%s_eq2]" % cls, "other": ty}, result="Any", raises={}, modifies=[],
                                  ensures=["result is NotImplemented"]))
        # a sequence of ANOTHER class (also with equal elements) is no operand of this class: NotImplemented
        for f2, cls2, fld2 in EQ_CLASSES:
            if cls2 != cls and cls != "LenaSequence" and cls2 not in ("LenaSequence",):
                cases.append(Contract(f, cls + ".__eq__", name="%s.__eq__[other: a %s]" % (cls, cls2),
                                      params={"self": "Self[%s_eq1]" % cls, "other": "Inst[%s_eq1]" % cls2}, result="Any",
                                      raises={}, modifies=[], ensures=["result is NotImplemented"]))
        ix.add(Contract(f, cls + ".__eq__", props=props, cases=cases))


def register_adapters(ix):
    """lena/core/adapters.py: what is left of the adapters once the constructors (contracts/C05.py, P_fr.py) have installed the
    delegations as instance attributes: the methods the CLASSES define are placeholders."""
    # FillCompute.fill / compute, FillRequest.run: `self.fill = <fill of the element>` etc. are installed by __init__ (proved
    # there: `self.fill is method(el, fill)` ...); the class-level methods signal that nothing was installed, and change nothing
    ix.add_class(ClassSpec("FillCompute_p", AD, fields={"_el": "Obj"}, alias_of="FillCompute"))
    ix.add(Contract(AD, "FillCompute.fill", props=["C05"], params={"self": "Self[FillCompute_p]", "value": "V"},
                    raises={"LenaNotImplementedError": "True"}, raises_frame="pure"))
    ix.add(Contract(AD, "FillCompute.compute", props=["C05"], params={"self": "Self[FillCompute_p]"},
                    raises={"LenaNotImplementedError": "True"}, raises_frame="pure"))
    ix.add_class(ClassSpec("FillRequest_p", AD, fields={"_el": "Obj", "bufsize": "Int"}, alias_of="FillRequest"))
    ix.add(Contract(AD, "FillRequest.run", props=["C16"], params={"self": "Self[FillRequest_p]", "flow": "Iter[V]"},
                    raises={"LenaNotImplementedError": "True"}, raises_frame="pure",
                    notes="the dispatcher: FillRequest.__init__ (contracts/P_fr.py) proves `self.run is self._run_run` for an "
                          "element with a callable run and `self.run is self._run_fill_compute` for every other one"))
    # Run.run: the placeholder the constructor replaces; it yields nothing, reads nothing and changes nothing
    ix.add_class(ClassSpec("Run_p", AD, fields={"_el": "Obj"}, alias_of="Run"))
    ix.add(Contract(AD, "Run.run", props=["C01", "C05"], params={"self": "Self[Run_p]", "flow": "Iter[V]"}, result="None",
                    raises={}, modifies=[], ensures=["result is None", "pulled(flow) == old(pulled(flow))"]))
    # SourceEl.__call__: `Yield generated values`: exactly what the installed callable generates
    ix.add_class(ClassSpec("SourceEl_c", AD, fields={"_call": "Obj", "_el": "Obj"}, alias_of="SourceEl"))
    ix.add(Contract(AD, "SourceEl.__call__", props=["C05", "C01"], params={"self": "Self[SourceEl_c]"}, result="Iter[V]",
                    requires=["callable(self._call)"], modifies=[],
                    ensures=["pulled(result) == 0", "same(content(result), el_source(self._call))"]))
    # _Fill.__init__: one link of the chain of a FillSeq keeps the two objects it is given (callers execute it in place)
    ix.add_class(ClassSpec("_Fill_new", FS, fields={}, alias_of="_Fill"))
    replace(ix, Contract(FS, "_Fill.__init__", props=["C05"], inline=True, cases=[
        Contract(FS, "_Fill.__init__", name="_Fill.__init__[two objects]",
                 params={"self": "Self[_Fill_new]", "fill_into_el": "Obj", "fill_el": "Obj"}, raises={},
                 ensures=["self._fill_into_el is fill_into_el", "self._fill_el is fill_el"],
                 modifies=["self._fill_into_el", "self._fill_el"])]))


def register_run_eq(ix):
    """Run.__eq__ (`Run(el) != el`): two Run adapters are equal IFF they wrap equal elements under the same method name (no
    name given: None); an operand that is no Run adapter: NotImplemented."""
    ix.add_class(ClassSpec("Run_eq_s", AD, fields={"_el": "Obj", "_run_name": "Str"}, alias_of="Run"))
    ix.add_class(ClassSpec("Run_eq_n", AD, fields={"_el": "Obj", "_run_name": "None"}, alias_of="Run"))
    cases = []
    for a, an in (("Run_eq_s", "name"), ("Run_eq_n", "no name")):
        for b, bn in (("Run_eq_s", "name"), ("Run_eq_n", "no name")):
            same = "self._el == other._el and self._run_name == other._run_name" if a == b == "Run_eq_s" else \
                   ("self._el == other._el" if a == b else "False")
            cases.append(Contract(AD, "Run.__eq__", name="Run.__eq__[%s == %s]" % (an, bn),
                                  params={"self": "Self[%s]" % a, "other": "Inst[%s]" % b}, result="Bool", raises={}, modifies=[],
                                  ensures=["result == (%s)" % same]))
    cases.append(Contract(AD, "Run.__eq__", name="Run.__eq__[other: an object of another class]",
                          params={"self": "Self[Run_eq_s]", "other": "Obj"}, result="Any", raises={}, modifies=[],
                          requires=["not isinstance(other, Run)"], ensures=["result is NotImplemented"]))
    for nm, ty in (("None", "None"), ("a number", "Real"), ("a string", "Str")):
        cases.append(Contract(AD, "Run.__eq__", name="Run.__eq__[other: %s]" % nm,
                              params={"self": "Self[Run_eq_n]", "other": ty}, result="Any", raises={}, modifies=[],
                              ensures=["result is NotImplemented"]))
    ix.add(Contract(AD, "Run.__eq__", props=["C05"], cases=cases))


def register_slice_counter(ix):
    """FillRequest._run_run.slice_iterated_with_count (the block reader of the buffer_output mode): every iteration hands on
    the next `size` values of the flow (fewer when the flow ends) and afterwards `count` is exactly the number of values
    handed on in that iteration."""
    Q = "FillRequest._run_run.slice_iterated_with_count"
    # the closure name `islice` of the nested class: the library model of itertools.islice (pyvc/lib.py), by its dotted name
    ix.lib.setdefault("itertools.islice", ix.lib[("itertools", "islice")])
    ix.add_class(ClassSpec("slice_iterated_with_count", AD, fields={"count": "Int", "_size": "Int", "_seq": "Iter[V]"}))
    ix.add_class(ClassSpec("slice_iterated_with_count_new", AD, fields={}, alias_of="slice_iterated_with_count"))
    ix.add(Contract(AD, Q + ".__init__", props=["C16"],
                    params={"self": "Self[slice_iterated_with_count_new]", "size": "Int", "seq": "Iter[V]"}, raises={},
                    ensures=["self.count == 0", "self._size == size", "self._seq is seq", "pulled(seq) == old(pulled(seq))"],
                    modifies=["self.count", "self._size", "self._seq"]))
    P0 = "old(pulled(self._seq))"
    ix.add(Contract(AD, Q + ".__iter__", props=["C16"],
                    params={"self": "Self[slice_iterated_with_count]"}, generator=True, yields="V",
                    # (`islice` is imported by the enclosing function)
                    closure={"islice": "Lib[itertools.islice]"},
                    requires=["self._size >= 0"],
                    loops={0: LoopSpec(invariant=["count == _i", "len(out) == _i", "_i <= self._size",
                                                  "pulled(self._seq) == %s + _i" % P0,
                                                  "all(out[k] == content(self._seq)[%s + k] for k in range(_i))" % P0])},
                    # the k-th value handed on is the k-th further value of the flow; nothing is read ahead
                    at_yield=["pulled(self._seq) == %s + len(out) + 1" % P0, "yielded == content(self._seq)[%s + len(out)]" % P0],
                    ensures=["len(out) == (self._size if self._size <= len(content(self._seq)) - %s else len(content(self._seq)) - %s)" % (P0, P0),
                             "all(out[k] == content(self._seq)[%s + k] for k in range(len(out)))" % P0,
                             # counts exactly the values handed on
                             "self.count == len(out)", "pulled(self._seq) == %s + len(out)" % P0],
                    modifies=["self.count", "self._seq"]))


def register_zip(ix):
    """Zip._create_data (no field names: `zip output values into tuples`): the tuple of the branches' data parts, in branch
    order.  Callers (Zip._yield, contracts/P_split.py) execute it in place."""
    cases = []
    for n in (1, 2, 3):
        ix.add_class(ClassSpec("Zip_data%d" % n, ZP, alias_of="Zip", fields={"_namedtuple": "None"}))
        cases.append(Contract(ZP, "Zip._create_data", name="Zip._create_data[%d branches, no fields]" % n,
                              params={"self": "Self[Zip_data%d]" % n, "values": "PyList[%d,V]" % n},
                              result="Tuple[%s]" % ",".join(["V"] * n), raises={}, modifies=[],
                              ensures=["len(result) == %d" % n] + ["result[%d] == values[%d]" % (k, k) for k in range(n)] +
                                      ["len(values) == %d" % n] + ["values[%d] == old(values[%d])" % (k, k) for k in range(n)]))
    replace(ix, Contract(ZP, "Zip._create_data", props=["C03"], inline=True, cases=cases))


CF = "lena/context/functions.py"


def sp_ctx_tuple2(ip, st, pos, kws):
    """ctx_tuple2(a, b): the context VALUE that is the python tuple (a, b) of two dictionaries (contexts hold scalars and
    dictionaries in the model; the tuple Zip stores under context.zip is an uninterpreted constructor of its two parts)"""
    from pyvc.smt import T
    from pyvc.sym import Opaque
    from pyvc.dicts import dterm
    ip.reg.need_val()
    f = ip.reg.ufun("ctx_tuple2", ["Val", "Val"], "Val")
    return Opaque(T("(%s %s %s)" % (f, dterm(ip, st, pos[0]).s, dterm(ip, st, pos[1]).s), "Val"))


def register_zip_context(ix):
    """Zip._create_context (2 branches, no field names): the context of a zipped value is what the branches' contexts have in
    common at the first level (lena.context.intersection, level=1: C07 / contracts/P_ctx.py); if they differ, the tuple of
    the differences (lena.context.difference, level=1: contracts/C07.py) is put under `zip`."""
    ix.spec_names["ctx_tuple2"] = sp_ctx_tuple2
    ix.add_class(ClassSpec("Zip_ctx", ZP, alias_of="Zip", fields={"_namedtuple": "None"}))
    COMMON = "inter_spec(old(values[0]), old(values[1]), 1)"
    D = ["diff_spec(old(values[%d]), %s, 1)" % (k, COMMON) for k in (0, 1)]
    DIFFER = "(%s != emptydict() or %s != emptydict())" % (D[0], D[1])
    # update_nested("zip", common, <tuple of the differences>): its proved contract (contracts/P_ctx.py) is typed for a
    # DICTIONARY `other`; with a tuple the docstring's first case applies (`If d doesn't contain the key, it is updated with
    # {key: other}`); when d has the key, the tuple is indexed with it: TypeError
    UN_TUPLE = Contract(CF, "update_nested", name="update_nested[other: a tuple of two dictionaries, assumed]", props=[],
                        trusted=True, dict_model="Val", params={"key": "Str", "d": "Dict", "other": "Tuple[Val,Val]"},
                        result=None, requires=["isdict(d)"], raises={"TypeError": "key in d"},
                        ensures=["all_keys(lambda k: item(d, k) == (present(ctx_tuple2(other[0], other[1])) if k == key "
                                 "else item(old(d), k)))"],
                        modifies=["d"], notes="assumed: update_nested with a tuple for `other` and no such key in d: d[key] = other")

    def cc(name, requires, props):
        return Contract(
            ZP, "Zip._create_context", name="Zip._create_context[2 branches, no fields%s]" % name, dict_model="Val",
            params={"self": "Self[Zip_ctx]", "values": "PyList[2,Dict]"}, result="Dict",
            requires=["isdict(values[0])", "isdict(values[1])"] + requires, raises={},
            ensures=["not %s implies result == %s" % (DIFFER, COMMON),
                     "%s implies all_keys(lambda k: item(result, k) == (present(ctx_tuple2(%s, %s)) if k == 'zip' else item(%s, k)))"
                     % (DIFFER, D[0], D[1], COMMON),
                     "values[0] == old(values[0])", "values[1] == old(values[1])"],
            ghost={"assumed_callees": {"update_nested": UN_TUPLE}}, props=props)
    return cc


def register_lena_split_init(ix):
    """LenaSplit.__init__ keeps the very list of branches it is given; the static-context initialisation with the empty
    context does nothing (`every sequence was already initialised with {}`) and no exception escapes.
    contracts/P_split.py ASSUMED this for `any list` (the branches Split.__init__ hands over are elements and new sequence
    objects, which is no list of abstract objects).  The assumed case is removed: the function is proved for lists of
    elements (symbolic and concrete length) and its callers -- Split.__init__ -- execute its two statements in place, the
    call `self._set_context({})` included (LenaSplit._set_context returns at once for the empty context)."""
    ix.add_class(ClassSpec("LenaSplit_new", SP, alias_of="LenaSplit", fields={}))
    cases = [Contract(SP, "LenaSplit.__init__", name="LenaSplit.__init__[list of elements]", dict_model="Val",
                      params={"self": "Self[LenaSplit_new]", "seqs": "Lst[Obj]"}, raises={},
                      ensures=["self._seqs is seqs", "seqs == old(seqs)"], modifies=["self._seqs"])]
    for n in (0, 1, 2, 3):
        cases.append(Contract(SP, "LenaSplit.__init__", name="LenaSplit.__init__[list of %d elements]" % n, dict_model="Val",
                              params={"self": "Self[LenaSplit_new]", "seqs": "PyList[%d,Obj]" % n}, raises={},
                              ensures=["self._seqs is seqs", "len(seqs) == %d" % n] +
                                      ["seqs[%d] is old(seqs[%d])" % (k, k) for k in range(n)],
                              modifies=["self._seqs"], ghost={"inline_callees": ["LenaSplit._set_context"]}))
    replace(ix, Contract(SP, "LenaSplit.__init__", props=["C03"], inline=True, cases=cases))
    c = ix.by_key.get((SP, "Split.__init__"))
    for case in ((c.cases or [c]) if c is not None else []):
        lst = case.ghost.setdefault("inline_callees", [])
        if "LenaSplit._set_context" not in lst:
            lst.append("LenaSplit._set_context")


def register(ix):
    register_predicates(ix, ["C01", "C03", "C05", "C16"])
    register_lena_sequence(ix, ["C01", "C05"])
    register_lena_sequence_access(ix, ["C01"])
    register_eq(ix, ["C01"])
    register_adapters(ix)
    register_run_eq(ix)
    register_slice_counter(ix)
    register_zip(ix)
    register_lena_split_init(ix)
    cc = register_zip_context(ix)
    ix.add(Contract(ZP, "Zip._create_context", qualkey="Zip._create_context#proved", props=["C03"], cases=[
        cc("", ["not ('zip' in inter_spec(values[0], values[1], 1))"], ["C03"])]))
    # FINDING on the unchanged tree (props=[]): without the restriction -- both branches deliver contexts with the SAME item
    # `zip` (e.g. the results of two equal inner Zips) and differ elsewhere -- update_nested indexes the tuple: TypeError
    ix.add(Contract(ZP, "Zip._create_context", qualkey="Zip._create_context#common-zip", props=[], cases=[
        cc(", any contexts] (FAILS: new finding", [], [])]))
