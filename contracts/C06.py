"""C06 -- histogram fill: right cell, weight conserved.
Contracts of lena/structures/hist_functions.py and lena/structures/histogram.py (sidecar; /repo is not edited)."""
from pyvc.contracts import Contract, LoopSpec, ClassSpec

HF = "lena/structures/hist_functions.py"
HI = "lena/structures/histogram.py"

INCR = "all({a}[i] < {a}[i + 1] for i in range(len({a}) - 1))"


def incr(a):
    return INCR.format(a=a)


def mono(a):
    """pairwise form of strictly increasing (follows from the adjacent form by lemma_incr_pairwise)"""
    return "all(all(implies(i < j, {a}[i] < {a}[j]) for j in range(len({a}))) for i in range(len({a})))".format(a=a)


def register(ix):
    # ------------------------------------------------------------------ edges validation
    ix.add(Contract(
        HF, "_check_edges_increasing_1d", props=["C06"],
        params={"arr": "Lst[Real]"}, result=None,
        raises={"LenaValueError": "len(arr) <= 1 or not " + incr("arr")},
        raises_frame="pure",
    ))
    edges_md = lambda n: Contract(
        HF, "check_edges_increasing", name="check_edges_increasing[dim=%d]" % n,
        params={"edges": "PyList[%d,Lst[Real]]" % n}, result=None,
        raises={"LenaValueError": " or ".join("len(edges[%d]) <= 1 or not %s" % (d, incr("edges[%d]" % d)) for d in range(n))},
        raises_frame="pure")
    ix.add(Contract(
        HF, "check_edges_increasing", props=["C06"],
        cases=[
            Contract(HF, "check_edges_increasing", name="check_edges_increasing[1d]",
                     params={"edges": "Lst[Real]"}, result=None,
                     raises={"LenaValueError": "len(edges) <= 1 or not " + incr("edges")}, raises_frame="pure"),
            edges_md(1), edges_md(2), edges_md(3),
        ]))
    # ------------------------------------------------------------------ bin search
    ix.add(Contract(
        HF, "get_bin_on_value_1d", props=["C06", "C11", "C12"],
        params={"val": "Real", "arr": "Lst[Real]"}, result="Int",
        requires=["len(arr) >= 1", incr("arr")],
        ensures=["-1 <= result <= len(arr) - 1",
                 "result >= 0 implies arr[result] <= val",
                 "result < len(arr) - 1 implies val < arr[result + 1]"],
        loops={0: LoopSpec(
            invariant=["0 <= ind_min <= ind_max <= len(arr) - 1",
                       "ind_min == 0 or arr[ind_min - 1] <= val",
                       "ind_max == len(arr) - 1 or val < arr[ind_max + 1]"],
            decreases="ind_max - ind_min")},
        abstract={"shift": ("Int", "0 <= shift <= ind_max - ind_min")},
        notes="float interpolation guess abstracted to any integer in [0, ind_max-ind_min] (DESIGN 2.4 item 1a)",
    ))

    def gbov(n):
        coords = ", ".join(["Real"] * n)
        ens = ["len(result) == %d" % n]
        for d in range(n):
            ens += ["-1 <= result[{d}] <= len(edges[{d}]) - 1".format(d=d),
                    "result[{d}] >= 0 implies edges[{d}][result[{d}]] <= arg[{d}]".format(d=d),
                    "result[{d}] < len(edges[{d}]) - 1 implies arg[{d}] < edges[{d}][result[{d}] + 1]".format(d=d)]
        req = []
        for d in range(n):
            req += ["len(edges[%d]) >= 1" % d, incr("edges[%d]" % d)]
        return Contract(HF, "get_bin_on_value", name="get_bin_on_value[dim=%d]" % n,
                        params={"arg": "Tuple[%s]" % coords, "edges": "PyList[%d,Lst[Real]]" % n},
                        result="PyList[%d,Int]" % n, requires=req, ensures=ens)
    ix.add(Contract(
        HF, "get_bin_on_value", props=["C06", "C11"],
        cases=[
            Contract(HF, "get_bin_on_value", name="get_bin_on_value[scalar]",
                     params={"arg": "Real", "edges": "Lst[Real]"}, result="PyList[1,Int]",
                     requires=["len(edges) >= 1", incr("edges")],
                     ensures=["-1 <= result[0] <= len(edges) - 1",
                              "result[0] >= 0 implies edges[result[0]] <= arg",
                              "result[0] < len(edges) - 1 implies arg < edges[result[0] + 1]"]),
            gbov(1), gbov(2), gbov(3),
        ]))
    # a sequence argument of the wrong dimension is rejected
    ix.add(Contract(
        HF, "get_bin_on_value", name="get_bin_on_value[dimension mismatch]", props=["C06"],
        params={"arg": "Tuple[Real,Real]", "edges": "PyList[3,Lst[Real]]"}, result="PyList[3,Int]",
        raises={"LenaValueError": "True"}, qualkey="get_bin_on_value#mismatch"))

    # ------------------------------------------------------------------ histogram.fill, dims 1..3
    ix.add_class(ClassSpec(
        "histogram_d1", HI, alias_of="histogram",
        fields={"edges": "Lst[Real]", "bins": "Lst[Real]", "n_out_of_range": "Real", "dim": "Int"},
        invariant=["len(self.edges) >= 2", mono("self.edges"), "len(self.bins) == len(self.edges) - 1", "self.dim == 1"]))
    ix.add_class(ClassSpec(
        "histogram_d2", HI, alias_of="histogram",
        fields={"edges": "PyList[2,Lst[Real]]", "bins": "Lst[Lst[Real]]", "n_out_of_range": "Real", "dim": "Int"},
        invariant=["len(self.edges[0]) >= 2", "len(self.edges[1]) >= 2", mono("self.edges[0]"), mono("self.edges[1]"),
                   "len(self.bins) == len(self.edges[0]) - 1",
                   "all(len(self.bins[i]) == len(self.edges[1]) - 1 for i in range(len(self.bins)))", "self.dim == 2"]))
    ix.add_class(ClassSpec(
        "histogram_d3", HI, alias_of="histogram",
        fields={"edges": "PyList[3,Lst[Real]]", "bins": "Lst[Lst[Lst[Real]]]", "n_out_of_range": "Real", "dim": "Int"},
        invariant=["len(self.edges[0]) >= 2", "len(self.edges[1]) >= 2", "len(self.edges[2]) >= 2",
                   mono("self.edges[0]"), mono("self.edges[1]"), mono("self.edges[2]"),
                   "len(self.bins) == len(self.edges[0]) - 1",
                   "all(len(self.bins[i]) == len(self.edges[1]) - 1 for i in range(len(self.bins)))",
                   "all(all(len(self.bins[i][j]) == len(self.edges[2]) - 1 for j in range(len(self.bins[i]))) for i in range(len(self.bins)))",
                   "self.dim == 3"]))
    incell = "(self.edges[{d}][{i}] <= coord[{d}] < self.edges[{d}][{i} + 1])"
    inrange = "(self.edges[{d}][0] <= coord[{d}] < self.edges[{d}][len(self.edges[{d}]) - 1])"
    ix.add(Contract(
        HI, "histogram.fill", props=["C06"],
        cases=[
            Contract(HI, "histogram.fill", name="histogram.fill[dim=1]",
                     params={"self": "Self[histogram_d1]", "coord": "Real", "weight": "Real"}, result=None,
                     modifies=["self.bins", "self.n_out_of_range"],
                     ensures=[
                         "len(self.bins) == old(len(self.bins))",
                         "all(self.bins[i] == old(self.bins[i]) + (weight if (self.edges[i] <= coord < self.edges[i + 1]) else 0)"
                         " for i in range(len(self.bins)))",
                         "self.n_out_of_range == old(self.n_out_of_range) + "
                         "(0 if (self.edges[0] <= coord < self.edges[len(self.edges) - 1]) else weight)"]),
            Contract(HI, "histogram.fill", name="histogram.fill[dim=2]",
                     params={"self": "Self[histogram_d2]", "coord": "Tuple[Real,Real]", "weight": "Real"}, result=None,
                     modifies=["self.bins", "self.n_out_of_range"],
                     ensures=[
                         "len(self.bins) == old(len(self.bins))",
                         "all(len(self.bins[i]) == old(len(self.bins[i])) for i in range(len(self.bins)))",
                         "all(all(self.bins[i][j] == old(self.bins[i][j]) + (weight if (%s and %s) else 0)"
                         " for j in range(len(self.bins[i]))) for i in range(len(self.bins)))"
                         % (incell.format(d=0, i="i"), incell.format(d=1, i="j")),
                         "self.n_out_of_range == old(self.n_out_of_range) + (0 if (%s and %s) else weight)"
                         % (inrange.format(d=0), inrange.format(d=1))]),
            Contract(HI, "histogram.fill", name="histogram.fill[dim=3]",
                     params={"self": "Self[histogram_d3]", "coord": "Tuple[Real,Real,Real]", "weight": "Real"}, result=None,
                     modifies=["self.bins", "self.n_out_of_range"],
                     ensures=[
                         "len(self.bins) == old(len(self.bins))",
                         "all(len(self.bins[i]) == old(len(self.bins[i])) for i in range(len(self.bins)))",
                         "all(all(len(self.bins[i][j]) == old(len(self.bins[i][j])) for j in range(len(self.bins[i]))) for i in range(len(self.bins)))",
                         "all(all(all(self.bins[i][j][k] == old(self.bins[i][j][k]) + (weight if (%s and %s and %s) else 0)"
                         " for k in range(len(self.bins[i][j]))) for j in range(len(self.bins[i]))) for i in range(len(self.bins)))"
                         % (incell.format(d=0, i="i"), incell.format(d=1, i="j"), incell.format(d=2, i="k")),
                         "self.n_out_of_range == old(self.n_out_of_range) + (0 if (%s and %s and %s) else weight)"
                         % (inrange.format(d=0), inrange.format(d=1), inrange.format(d=2))]),
        ]))
