"""sidecar contracts (see tools/CONTRACTS_GUIDE.md)

P_var -- variables and static context (properties C14, C13).  Sidecar contracts of lena/variables/variable.py
(Variable._update_context, proved here and replacing the assumed contract of C14.py; Variable.__call__ against it),
lena/core/lena_sequence.py, lena/core/split.py, lena/meta/elements.py.

Variable._update_context is verified with dictionaries as OBJECTS (Contract(ghost={"dict_objects": True}), pyvc/dictobj.py):
the function keeps names for the old context.variable and its compose list, re-binds context["variable"] and goes on
using the old objects.  Lists of strings stored in a context are the context values klist_as_val(l).

Reference (property text C14 + docstrings of Variable.__init__ / __call__):
  * context.variable IS the variable's own var_context object afterwards (the caller hands over a deep copy) and carries
    its name and attributes: every item of the variable's context other than `compose` is kept;
  * nothing else of the value's context changes;
  * history: if the value arrives with a typed context.variable cv0 and the variable is typed, `compose` lists the types in
    application order   compose_ref(cv0, v) = (cv0.compose if present else [cv0.type]) ++ (v.compose if present else [v.type])
    and the attributes of every composed variable stay available under its type: item(cv0, t) for every t in compose that
    the variable's own context does not define -- and nothing more;
  * without history (no context.variable, a falsy one, or one with neither type nor compose) context.variable equals the
    variable's var_context exactly.
The region of the OPEN C14 finding (an UNTYPED variable applied to a value with a typed context.variable, or a
context.variable that has a compose list but no type) is deliberately left unspecified beyond the frame clauses."""
from pyvc.contracts import Contract, LoopSpec, ClassSpec
from pyvc.smt import T, I
from pyvc.sym import Opaque, Bool
from pyvc.dicts import dterm

VA = "lena/variables/variable.py"


def replace(ix, c):
    """register c under its key INSTEAD of whatever an earlier module registered there (an assumed contract)"""
    for lst in ix.by_simple.values():
        lst[:] = [x for x in lst if x.key != c.key]
    return ix.add(c)


# ------------------------------------------------------------------------------------------------ reference functions
def sp_compose_ref(ip, st, pos, kws):
    """compose_ref(cv0, v): the types in application order: the history of the earlier context.variable cv0 (its compose
    list, or its single type) followed by what the variable v contributes (its compose list, or its single type)"""
    from pyvc import dictobj
    reg = ip.reg
    ls = dictobj.klist_decl(ip)
    kc, kt = reg.key("compose").s, reg.key("type").s

    def part(x):
        one = reg.l_append(reg.l_empty_canonical(ls), dictobj.val_str_key(ip, st, T("(vget %s %s)" % (x, kt), "Val")))
        return "(ite (vhas %s %s) (val_as_klist (vget %s %s)) %s)" % (x, kc, x, kc, one.s)
    a, b = dterm(ip, st, pos[0]).s, dterm(ip, st, pos[1]).s
    for x in (a, b):
        dictobj.inst_val(ip, st, "(vget %s %s)" % (x, kc))
    return ip.lst_view(dictobj.klist_cat(ip, st, T(part(a), ls), T(part(b), ls)))


def hist(c):
    """the value arrives with a typed context.variable (c: the context before the call)"""
    return "('variable' in {c} and {c}['variable'] and 'type' in {c}['variable'])".format(c=c)


def nohist(c):
    return ("((not 'variable' in {c}) or (not {c}['variable']) or "
            "('type' not in {c}['variable'] and 'compose' not in {c}['variable']))").format(c=c)


def typed(v):
    return "('type' in {v} and {v}['type'])".format(v=v)


def wf_var(v):
    """a variable context as variables produce it: the type is a string, compose a list of strings"""
    return ["'type' in {v} implies is_str({v}['type'])".format(v=v),
            "'compose' in {v} implies is_klist({v}['compose'])".format(v=v)]


CV0 = "old(context)['variable']"
HIST = hist("old(context)")
NOHIST = nohist("old(context)")
TYPED = typed("old(var_context)")
WF = "(not {x} or (isdict({x}) and implies('type' in {x}, is_str({x}['type'])) " \
     "and implies('compose' in {x}, is_klist({x}['compose']))))"
CREF = "compose_ref(old(context)['variable'], old(var_context))"


def register(ix):
    from pyvc import dictobj
    dictobj.register(ix)
    ix.spec_names["compose_ref"] = sp_compose_ref
    # ------------------------------------------------------------------ Variable._update_context (proved)
    replace(ix, Contract(
        VA, "Variable._update_context", props=["C14"], dict_model="Val", self_class="static",
        ghost={"dict_objects": True},
        params={"context": "Dict", "var_context": "Dict"}, result=None,
        requires=[
            "isdict(context)", "isdict(var_context)",
            # ownership: the callee stores var_context inside the value's context, so the caller must give it a deep copy
            "is_deep_copy(var_context)",
            # a context.variable as variables produce it: a dictionary whose type is a string and whose compose is a list
            # of strings (or any falsy value); the same for the variable's own context
            "'variable' in context implies " + WF.format(x="context['variable']"),
        ] + wf_var("var_context"),
        raises={},
        ensures=[
            # nothing else of the context changes
            "all_keys(lambda k: k == 'variable' or item(context, k) == item(old(context), k))",
            # context.variable is the variable's context -- the very object
            "item(context, 'variable') == present(var_context)",
            "context['variable'] is var_context",
            # name and attributes of the variable
            "all_keys(lambda k: k == 'compose' or item(old(var_context), k) == absent() "
            "or item(var_context, k) == item(old(var_context), k))",
            # no history: exactly the variable's own context
            NOHIST + " implies var_context == old(var_context)",
            # history of a typed variable after a typed context.variable: compose lists the types in application order
            HIST + " and " + TYPED + " implies 'compose' in var_context and is_klist(var_context['compose']) "
            "and klist(var_context['compose']) == " + CREF,
            # ... the attributes of every composed variable stay available under its type, and nothing more
            HIST + " and " + TYPED + " implies all_keys(lambda k: k == 'compose' or item(var_context, k) == ("
            "item(old(var_context), k) if item(old(var_context), k) != absent() else "
            "(item(" + CV0 + ", k) if k in klist(var_context['compose']) else absent())))",
            # context.variable is again a well-formed variable context (what the next variable requires)
            "isdict(var_context)",
        ] + wf_var("var_context"),
        modifies=["context", "var_context"],
        loops={0: LoopSpec(invariant=[
            "isdict(cvar)",
            "klist(cvar['compose']) == klist(composed)",
            "all_keys(lambda k: item(cvar, k) == (present(composed) if k == 'compose' else "
            "(item(old(var_context), k) if item(old(var_context), k) != absent() else "
            "(item(old_cvar, k) if any(klist(composed)[j] == k for j in range(_i)) else absent()))))",
        ])},
        notes="verified with dictionaries as objects (pyvc/dictobj.py); var_context is stored into the context as it is "
              "(ownership passes to the context: callers hand over a deep copy)"))

    # ------------------------------------------------------------------ Variable.__call__ (against the proved contract)
    cs = ix.classes["Variable"]
    for inv in wf_var("self.var_context"):
        if inv not in cs.invariant:
            cs.invariant.append(inv)
    FRAME = "all_keys(lambda k: k == 'variable' or item({new}, k) == item({old}, k))"

    def history(c, res):
        """clauses about res['variable'] for a value that arrived with the context c"""
        cref = "compose_ref(%s['variable'], self.var_context)" % c
        return [
            # no history: context.variable equals the variable's own context
            nohist(c) + " implies " + res + "['variable'] == self.var_context",
            # name and attributes of the variable
            "all_keys(lambda k: k == 'compose' or item(self.var_context, k) == absent() "
            "or item(" + res + "['variable'], k) == item(self.var_context, k))",
            hist(c) + " and " + typed("self.var_context") + " implies klist(" + res + "['variable']['compose']) == " + cref,
            hist(c) + " and " + typed("self.var_context") + " implies all_keys(lambda k: k == 'compose' or "
            "item(" + res + "['variable'], k) == (item(self.var_context, k) if item(self.var_context, k) != absent() else "
            "(item(" + c + "['variable'], k) if k in klist(" + res + "['variable']['compose']) else absent())))",
            # what the next variable needs: context.variable is again a well-formed variable context
            "isdict(" + res + "['variable'])"] + wf_var(res + "['variable']")
    replace(ix, Contract(
        VA, "Variable.__call__", props=["C14"], dict_model="Val",
        cases=[
            Contract(VA, "Variable.__call__", name="Variable.__call__[(data, context)]", dict_model="Val",
                     params={"self": "Self[Variable]", "value": "Tuple[V,Dict]"}, result="Tuple[V,Dict]",
                     requires=["isdict(value[1])",
                               "'variable' in value[1] implies " + WF.format(x="value[1]['variable']")],
                     ensures=["result[0] == el_call(self.getter, value[0])",
                              "result[1] is value[1]",
                              FRAME.format(new="result[1]", old="old(value[1])"),
                              # applying a variable does not change the variable
                              "self.var_context == old(self.var_context)"] + history("old(value[1])", "result[1]"),
                     modifies=["value[1]"]),
            Contract(VA, "Variable.__call__", name="Variable.__call__[bare data]", dict_model="Val",
                     params={"self": "Self[Variable]", "value": "V"}, result="Tuple[V,Dict]",
                     requires=["not v_has_context(value)"],
                     ensures=["result[0] == el_call(self.getter, value)",
                              FRAME.format(new="result[1]", old="emptydict()"),
                              "result[1]['variable'] == self.var_context",
                              "self.var_context == old(self.var_context)"]),
        ]))
    register_static_context(ix)


# ================================================================================================== static context (C13)
LS = "lena/core/lena_sequence.py"
ME = "lena/meta/elements.py"

# Reference (property text C13): "the static context an element receives at initialisation is the fold, in document order,
# of the ... updates of the earlier elements of its enclosing sequence".  One step of the fold for an element e, with the
# element states E and the context value C accumulated so far (protocol of lena_sequence.py / the element interface):
#   e has _set_context and C is not empty:  e._set_context(C) -- an unresolved key (LenaKeyError) ends the fold: the sequence
#                                           remembers the exception and keeps no context (phase 1);
#                                           otherwise e's state and (in place) the context are updated
#   e has _get_context:                     the context for the following elements is e._get_context() -- a LenaKeyError
#                                           here is remembered AND raised (phase 2)
# sq_st / sq_cx / sq_ph (ss, es, c, n): element states, context value and phase after the first n elements of ss.
SEQLET = ("(let ((E (sq_st {A} (- {n} 1))) (C (sq_cx {A} (- {n} 1))) (P (sq_ph {A} (- {n} 1))) "
          "(e (select (arr_{lo} {ss}) (- {n} 1)))) "
          "(let ((sets (and (has_attr_Obj e {ks}) (vtruthy C)))) "
          "(let ((sraise (and sets (el_setctx_raises e (select E e) C))) "
          "(E1 (ite sets (store E e (el_setctx e (select E e) C)) E)) "
          "(C1 (ite sets (el_setctx_out e (select E e) C) C)) (gets (has_attr_Obj e {kg}))) "
          "(let ((graise (and gets (el_getctx_raises e (select E1 e)))) (C2 (ite gets (el_getctx e (select E1 e)) C1))) "
          "(and (= (sq_st {A} {n}) (ite (<= {n} 0) {es} (ite (not (= P 0)) E (ite sraise E E1)))) "
          "(= (sq_cx {A} {n}) (ite (<= {n} 0) {c} (ite (not (= P 0)) C (ite sraise C (ite graise C1 C2))))) "
          "(= (sq_ph {A} {n}) (ite (<= {n} 0) 0 (ite (not (= P 0)) P (ite sraise 1 (ite graise 2 0)))))))))) ")


def declare_seqctx(ip):
    """sq_st / sq_cx / sq_ph: uninterpreted symbols; their (recursive) definition is added as an instance at every
    argument tuple they are applied to (one unfolding: n in terms of n - 1), see _seq_args"""
    from pyvc.builtins_ import obj_preds
    reg = ip.reg
    reg.need_val()
    obj_preds(ip)
    lo = reg.lst("Obj")
    reg.need("St")
    reg.need("(Array Obj St)")
    reg.ufun("el_setctx_raises", ["Obj", "St", "Val"], "Bool")
    reg.ufun("el_setctx", ["Obj", "St", "Val"], "St")
    reg.ufun("el_setctx_out", ["Obj", "St", "Val"], "Val")
    reg.ufun("el_getctx_raises", ["Obj", "St"], "Bool")
    reg.ufun("el_getctx", ["Obj", "St"], "Val")
    sig = [lo, "(Array Obj St)", "Val", "Int"]
    reg.ufun("sq_st", sig, "(Array Obj St)")
    reg.ufun("sq_cx", sig, "Val")
    reg.ufun("sq_ph", sig, "Int")
    return lo


def seq_def(ip, lo, ss, es, c, n):
    reg = ip.reg
    return SEQLET.format(lo=lo, ss=ss, es=es, c=c, n=n, A="%s %s %s" % (ss, es, c),
                         ks=reg.key("_set_context").s, kg=reg.key("_get_context").s)


def _elst(ip, st):
    from pyvc.calls import elem_state
    if "$elst" not in st.env:
        elem_state(ip, st, Opaque(ip.reg.new("anyel", "Obj")))
    return st.env["$elst"].t


def _seq_args(ip, st, pos):
    from pyvc.speclib import lst_term
    lo = declare_seqctx(ip)
    old = ip.oldst if ip.oldst is not None else st
    args = (lst_term(ip, st, pos[0], lo).s, _elst(ip, old).s, dterm(ip, st, pos[1]).s, ip.num(pos[2]).s)
    if not ip.bound_stack:
        ax = T(seq_def(ip, lo, *args), "Bool")       # the definition at these arguments
        if not any(h.s == ax.s for h in st.pc):
            st.pc.append(ax)
    return args


def sp_seq_ctx(ip, st, pos, kws):
    """seq_ctx(seq, c0, n): the context after the first n elements of seq, started with the context value c0 and the
    element states of the pre-state"""
    return Opaque(T("(sq_cx %s %s %s %s)" % _seq_args(ip, st, pos), "Val"))


def sp_seq_phase(ip, st, pos, kws):
    """seq_phase(seq, c0, n): 0 = the first n elements took / gave their context; 1 = some _set_context among them met an
    unresolved key; 2 = some _get_context among them did"""
    from pyvc.sym import Num
    return Num(T("(sq_ph %s %s %s %s)" % _seq_args(ip, st, pos), "Int"))


def sp_seq_states_are(ip, st, pos, kws):
    """seq_states_are(seq, c0, n): the element states NOW are those after the first n elements of seq"""
    return Bool(T("(= %s (sq_st %s %s %s %s))" % ((_elst(ip, st).s,) + _seq_args(ip, st, pos)), "Bool"))


def stable_stmt(lo, ss, es, c, n, m):
    """once an element among the first n met an unresolved key, the rest of the sequence changes nothing"""
    A = "%s %s %s" % (ss, es, c)
    return ("(=> (and (<= 0 {n}) (<= {n} {m}) (not (= (sq_ph {A} {n}) 0))) (and (= (sq_ph {A} {m}) (sq_ph {A} {n})) "
            "(= (sq_cx {A} {m}) (sq_cx {A} {n})) (= (sq_st {A} {m}) (sq_st {A} {n}))))").format(A=A, n=n, m=m)


def sp_seq_stable(ip, st, pos, kws):
    """seq_stable(seq, c0, n, m): lemma function -- an instance of the statement proved by the Lemma unit below"""
    from pyvc.speclib import lst_term
    lo = declare_seqctx(ip)
    old = ip.oldst if ip.oldst is not None else st
    ip.assumptions.add("instances of the lemma `static context: nothing changes after an unresolved key` (proved as a Lemma "
                       "object in contracts/P_var.py) are used as hypotheses")
    _seq_args(ip, st, pos[:3])           # (the definition of the fold at n)
    return Bool(T(stable_stmt(lo, lst_term(ip, st, pos[0], lo).s, _elst(ip, old).s, dterm(ip, st, pos[1]).s,
                              ip.num(pos[2]).s, ip.num(pos[3]).s), "Bool"))


def lem_seq_stable(ip, st):
    """induction on m (n, the sequence, the states and the context arbitrary): base m == n; step m - 1 -> m with the
    definition of the fold at m"""
    from pyvc.interp import VC
    reg = ip.reg
    lo = declare_seqctx(ip)
    ss, es, c = reg.new("ss", lo).s, reg.new("es", "(Array Obj St)").s, reg.new("c", "Val").s
    n, m = reg.new("n", "Int").s, reg.new("m", "Int").s
    base = st.copy()
    base.assume(T("(= %s %s)" % (m, n), "Bool"))
    ip.emit("lemma", "stable after an unresolved key: base m == n", base, T(stable_stmt(lo, ss, es, c, n, m), "Bool"))
    step = st.copy()
    step.assume(T("(> %s %s)" % (m, n), "Bool"))
    step.assume(T(stable_stmt(lo, ss, es, c, n, "(- %s 1)" % m), "Bool"))        # induction hypothesis
    step.assume(T(seq_def(ip, lo, ss, es, c, m), "Bool"))
    ip.emit("lemma", "stable after an unresolved key: step m - 1 -> m", step, T(stable_stmt(lo, ss, es, c, n, m), "Bool"))
    ip.vcs.append(VC("cover requires", "cover", list(step.pc), T("false", "Bool"), ""))
    ip.vcs.append(VC("canary ensures False#0", "canary", list(step.pc), T("false", "Bool"), ""))


def register_static_context(ix):
    from pyvc.verify import Lemma
    for n, f in (("seq_ctx", sp_seq_ctx), ("seq_phase", sp_seq_phase), ("seq_states_are", sp_seq_states_are),
                 ("seq_stable", sp_seq_stable)):
        ix.spec_names[n] = f
    ix.lemma_functions = set(getattr(ix, "lemma_functions", ())) | {"seq_stable"}
    ix.lemmas.append(Lemma("static context: nothing changes after an unresolved key", LS, ["C13"], lem_seq_stable,
                           notes="induction on the number of elements; used by LenaSequence._set_context through lemmas=[...]"))
    ix.add_class(ClassSpec("LenaSequence_ctx", LS, fields={"_seq": "Lst[Obj]"},
                           alias_of="LenaSequence"))
    N = "len(self._seq)"
    PH = "seq_phase(self._seq, old(context), %s)" % N

    def set_context(name, cty):
        return Contract(
            LS, "LenaSequence._set_context", name="LenaSequence._set_context[%s]" % name,
            ghost={"elstate": True, "alias_store": True},
            params={"self": "Self[LenaSequence_ctx]", "context": cty}, result=None,
            requires=["isdict(context)"] if cty == "Dict" else [],
            # LenaKeyError iff some element cannot GIVE its context (an unresolved key met while a context is set is
            # remembered, not raised)
            raises={"LenaKeyError": "seq_phase(self._seq, context, %s) == 2" % N},
            exc_ensures={"LenaKeyError": ["seq_states_are(self._seq, old(context), %s)" % N]},
            ensures=[
                # every element took part in sequence order
                "seq_states_are(self._seq, old(context), %s)" % N,
                # the context after the last element of the sequence
                PH + " == 0 implies self._static_context == seq_ctx(self._seq, old(context), %s)" % N,
            ],
            lemmas=["seq_stable(self._seq, old(context), local('_i') + 1, %s)" % N],
            at_call={"_set_context": [
                # the context handed to an element is the accumulated context of the elements before it
                "call_args[0] == seq_ctx(self._seq, old(context), _i)",
                "seq_phase(self._seq, old(context), _i) == 0",
                # the empty context is not handed on (every element was initialised with it)
                "call_args[0]"]},
            modifies=["self._static_context", "self._exc", "context"],
            loops={0: LoopSpec(ghost={"context": "Dict"}, invariant=[
                "seq_phase(self._seq, old(context), _i) == 0",
                "context == seq_ctx(self._seq, old(context), _i)",
                "seq_states_are(self._seq, old(context), _i)"])})
    replace(ix, Contract(LS, "LenaSequence._set_context", props=["C13"],
                         cases=[set_context("context dictionary", "Dict"), set_context("empty context {}", "KwDict[]")]))
    register_set_context(ix)


# -------------------------------------------------------------------------------------------------- SetContext._set_context
# property text C13: the update of a SetContext element is "its key set to its value" in the context it is handed (in
# place: the sequence hands the same dictionary on); docstring of format_update_with / property C08: exactly the addressed
# item changes.  Proved for values that are no formatting strings (numbers, booleans, dictionaries: the cases of the
# format_update_with contract of P_ctx.py); for those no key can be unresolved: LenaKeyError is never raised.
def register_set_context(ix):
    KS = "split_dots(self._key)"
    cases = []
    for tag, vty in (("number value", "Real"), ("bool value", "Bool"), ("dictionary value", "Dict")):
        cs = "SetContext_" + tag.split()[0]
        ix.add_class(ClassSpec(cs, ME, fields={"_key": "Str", "_value": vty}, alias_of="SetContext",
                               invariant=["isdict(self._value)"] if vty == "Dict" else []))
        cases.append(Contract(
            ME, "SetContext._set_context", name="SetContext._set_context[%s]" % tag, dict_model="Val",
            params={"self": "Self[%s]" % cs, "context": "Dict"}, result=None,
            raises={"LenaValueError": "self._key == ''", "LenaTypeError": "self._key != '' and not isdict(context)"},
            ensures=["context == upd_spec(old(context), nestk(%s, 0, len(%s), self._value))" % (KS, KS),
                     # the element keeps the very dictionary it was handed (its _get_context hands out deep copies)
                     "self._static_context is context"]
            + (["self._value == old(self._value)"] if vty == "Dict" else []),
            modifies=["context", "self._static_context", "self._exc"]))
    ix.add(Contract(ME, "SetContext._set_context", props=["C13"], dict_model="Val", cases=cases))
    register_variable_init(ix)


# ---------------------------------------------------------------------------------------------------- Variable.__init__
# docstring: var_context is the dictionary of attributes of the variable: its name and the keyword arguments; "type ...
# if present, its value is added to variable's context as a key with the context of this variable" (the attributes so far,
# without the type) and the type itself under 'type'.  getter is kept; LenaTypeError iff getter is a Variable or not callable.
def register_variable_init(ix):
    ix.add_class(ClassSpec("Variable_new", VA, fields={}, alias_of="Variable"))

    def init(tag, kwty, attrs, reserved_ok=True, namety="Str", getterty="Obj"):
        plain = "{'name': name%s}" % attrs
        typed_ = "{'name': name%s, type: %s, 'type': type}" % (attrs, plain)
        wf = ["'type' in self.var_context implies is_str(self.var_context['type'])",
              # (a type named 'compose' puts a dictionary where the bookkeeping of _update_context expects the list of
              # types: see the finding contract below)
              ("type != 'compose' and " if reserved_ok else "") +
              "'compose' in self.var_context implies is_klist(self.var_context['compose'])"]
        return Contract(
            VA, "Variable.__init__", name="Variable.__init__[%s]" % tag, dict_model="Val", ghost={"str_instances": True},
            params={"self": "Self[Variable_new]", "name": namety, "getter": getterty, "type": "Str", "kwargs": kwty},
            kwarg="kwargs", result=None,
            raises={"LenaTypeError": "isinstance(getter, Variable) or not callable(getter)" if getterty == "Obj" else "False"},
            ensures=["self.getter is getter",
                     "not type implies self.var_context == " + plain,
                     "type implies self.var_context == " + typed_,
                     "isdict(self.var_context)"] + wf,
            modifies=["self.getter", "self.var_context"])
    ix.add(Contract(VA, "Variable.__init__", props=["C14"], dict_model="Val", cases=[
        init("name, getter, type", "KwDict[]", ""),
        init("name, getter, type, one more attribute", "KwDict[latex_name:Val]", ", 'latex_name': old(kwargs['latex_name'])"),
        # the getter is a python function (a closure of Compose / Combine: callable and no Variable)
        init("name, function", "KwDict[]", "", getterty="Fn[V,V]"),
        init("any value as name, function", "KwDict[]", "", namety="Val", getterty="Fn[V,V]")]))
    # FINDING (fails on the unchanged tree, props=[]: not part of any check): "context.variable carries the name and
    # attributes of the resulting variable ... for variables with pairwise distinct non-empty types" -- every variable
    # context must be one that _update_context accepts.  A variable whose type is the string 'compose' gets a dictionary
    # under 'compose' (Variable('a', f, type='compose').var_context == {'name': 'a', 'compose': {'name': 'a'}, 'type':
    # 'compose'}); the next typed variable applied after it -- or Compose(v1, v2) -- raises AssertionError.
    c = init("FINDING: a type named 'compose'", "KwDict[]", "", reserved_ok=False)
    c.qualkey = "Variable.__init__#well-formed for every type"
    c.props = []
    ix.add(c)
    register_compose_init(ix)


# ------------------------------------------------------------------------------- Variable.__getattr__, Compose.__init__
# Compose.__init__ docstring / property C14: "Compose(v1,...,vn) and the Sequence (v1,...,vn) produce ... the same context":
# the context of the composed variable is what applying v2 (.. vn) to a value that carries v1's context.variable yields --
# the clauses below are those of Variable.__call__ (history(...)) with context.variable := v1.var_context; the name is the
# keyword `name` or the last variable's name; LenaTypeError iff an argument is no Variable, there is none, or `getter` is
# given.  The variables themselves are not changed (their contexts are deep-copied).
def register_compose_init(ix):
    ix.add(Contract(
        VA, "Variable.__getattr__", props=["C14"], dict_model="Val",
        cases=[Contract(VA, "Variable.__getattr__", name="Variable.__getattr__['name']", dict_model="Val",
                        params={"self": "Self[Variable]", "name": "Str['name']"}, result="Val",
                        # all public attributes of a variable can be accessed using dot notation
                        raises={"LenaAttributeError": "'name' not in self.var_context"},
                        ensures=["present(result) == item(self.var_context, 'name')",
                                 "self.var_context == old(self.var_context)"])]))
    ix.add_class(ClassSpec("Compose_new", VA, fields={}, alias_of="Compose", bases=["Variable"]))
    ix.classes["Compose"].bases = ["Variable"]          # (super(Compose, self).__init__ is Variable.__init__)
    A, B = "old(args[0].var_context)", "old(args[1].var_context)"
    MOD = ["self._vars", "self.getter", "self.var_context"]

    def wf_arg(i):
        v = "args[%d].var_context" % i
        return ["isdict(%s)" % v, "'name' in %s" % v] + wf_var(v)

    def ok(tag, n, kwty, name_expr, extra_req=()):
        vs = ",".join(["Inst[Variable]"] * n)
        req = [r for i in range(n) for r in wf_arg(i)] + list(extra_req)
        ens = ["len(self._vars) == %d" % n] + ["self._vars[%d] is args[%d]" % (i, i) for i in range(n)]
        ens += ["self.getter is local('getter')",
                # the variables are not changed
                ] + ["args[%d].var_context == old(args[%d].var_context)" % (i, i) for i in range(n)]
        ens += ["isdict(self.var_context)", "self.var_context['name'] == " + name_expr] + wf_var("self.var_context")
        res = "self.var_context"
        if n == 1:
            ens += ["all_keys(lambda k: k == 'name' or item(%s, k) == item(%s, k))" % (res, A)]
        else:
            cref = "compose_ref(%s, %s)" % (A, B)
            h = "('type' in {a} and {a}['type'])".format(a=A)
            noh = "('type' not in {a} and 'compose' not in {a})".format(a=A)
            ens += [
                noh + " implies all_keys(lambda k: k == 'name' or item(%s, k) == item(%s, k))" % (res, B),
                "all_keys(lambda k: k == 'compose' or k == 'name' or item(%s, k) == absent() "
                "or item(%s, k) == item(%s, k))" % (B, res, B),
                h + " and " + typed(B) + " implies klist(%s['compose']) == %s" % (res, cref),
                h + " and " + typed(B) + " implies all_keys(lambda k: k == 'compose' or k == 'name' or "
                "item(%s, k) == (item(%s, k) if item(%s, k) != absent() else "
                "(item(%s, k) if k in klist(%s['compose']) else absent())))" % (res, B, B, A, res)]
        return Contract(VA, "Compose.__init__", name="Compose.__init__[%s]" % tag, dict_model="Val",
                        ghost={"dict_objects": True},
                        params={"self": "Self[Compose_new]", "args": "Tuple[%s]" % vs, "kwargs": kwty},
                        vararg="args", kwarg="kwargs", result=None, requires=req,
                        raises={"LenaTypeError": "False"}, ensures=ens, modifies=MOD)

    def bad(tag, argty, kwty):
        return Contract(VA, "Compose.__init__", name="Compose.__init__[%s]" % tag, dict_model="Val",
                        ghost={"dict_objects": True},
                        params={"self": "Self[Compose_new]", "args": argty, "kwargs": kwty},
                        vararg="args", kwarg="kwargs", result=None,
                        raises={"LenaTypeError": "True"}, modifies=MOD)
    ix.add(Contract(VA, "Compose.__init__", props=["C14"], dict_model="Val", cases=[
        ok("one variable", 1, "KwDict[]", A + "['name']"),
        ok("two variables", 2, "KwDict[]", B + "['name']"),
        ok("two variables, name=", 2, "KwDict[name:Str]", "old(kwargs['name'])"),
        bad("no variables", "Tuple[]", "KwDict[]"),
        bad("an argument that is no Variable", "Tuple[Inst[Variable],Real]", "KwDict[]"),
        bad("getter given", "Tuple[Inst[Variable]]", "KwDict[getter:Obj]"),
    ]))
