"""P_split -- C03 / C04 / C05: Split and Zip beyond the local disciplines of contracts/C03.py.  Sidecar contracts of
lena/core/split.py and lena/flow/zip.py.

Branches are abstract elements (DESIGN 2.3): el_source / el_run / el_fill / el_fill_stops / el_compute / el_request
denote what a branch does; `elstate(e)` is its state.  The branches of one Split / Zip are pairwise different objects
(filling one branch does not fill another); this is a precondition of every state-level contract here.

Reference functions of this module (registered below):
  fill_until_stop(e, s, xs, j, n) : state of e after `fill(xs[j]), fill(xs[j+1]), ...` from state s, until a fill signals
                                   LenaStopFill (that value is not filled) or xs[n-1] was filled -- what C05 calls
                                   "filled value by value (until it signals LenaStopFill)"
  stops_until(e, s, xs, j, n)     : ... and some fill on the way signals LenaStopFill
  cat_len(kinds, seqs, snap, k) / branch_result(kinds, seqs, snap, m) : "the output is the concatenation of the branches'
                                   results in branch order" without a concatenation function (see below)
  elstates() / state_in(snap, e)  : snapshot of all element states / the state of e in a snapshot (ghost)
  frozen(xs)                      : the items a list has now (ghost snapshot)
  loop_iter(k) / iter_source(it)  : the iterator the for-loop #k of the function runs over / the list it iterates (ghost)

Engine additions made for this module: pyvc/lib_split.py (builtins map / set), `call_self` in at_call clauses (calls.py),
list comprehensions over a list of concrete length whose item expression forks (interp.py: listcomp_forking), deep copies
of tuples mark the copied inner objects (lib.py: lib_deepcopy)."""
from pyvc.contracts import Contract, LoopSpec, ClassSpec

SP = "lena/core/split.py"
ZP = "lena/flow/zip.py"


# ---------------------------------------------------------------------------------------------- reference functions
def _register_spec_functions(ix):
    from pyvc.smt import T, lit_int
    from pyvc.sym import Opaque, Num, Str, Ref
    from pyvc.speclib import lst_term, obj_term, st_term
    from pyvc.interp import Unsupported

    def sp_elstates(ip, st, pos, kws):
        from pyvc.calls import elem_state
        if "$elst" not in st.env:
            elem_state(ip, st, Opaque(ip.reg.new("anyel", "Obj")))
        return Opaque(st.env["$elst"].t)

    def sp_state_in(ip, st, pos, kws):
        snap = pos[0]
        if not (isinstance(snap, Opaque) and snap.sort == "(Array Obj St)"):
            raise Unsupported("state_in: snapshot of element states expected")
        return Opaque(T("(select %s %s)" % (snap.t.s, obj_term(pos[1]).s), "St"))

    def sp_loop_iter(ip, st, pos, kws):
        k = lit_int(ip.num(pos[0]))
        it = st.notes.get("loop_it_%s" % k)
        if it is None:
            raise Unsupported("loop_iter(%s): that loop has not been entered on this path" % k)
        return it

    # fill_until_stop / stops_until: recursive reference functions (recursion on n - j).  Encoding (as diff / upd in C07.py):
    # an uninterpreted symbol + the base case as a quantified axiom + the defining equation at the ground terms the function
    # is applied to in clauses (one unfolding each) -- all of them consequences of the recursive definition
    #   f(e, s, xs, j, n) = base(s)                                  if j >= n
    #                     = stop(s)                                  if el_fill_stops(e, s, xs[j])
    #                     = f(e, el_fill(e, s, xs[j]), xs, j + 1, n) otherwise
    def rec_fun(name, ressort, base, stop):
        def fn(ip, st, pos, kws):
            from pyvc.sym import Bool as SBool
            reg = ip.reg
            sort = reg.lst("V")
            reg.need("St")
            reg.need("Obj")
            reg.ufun("el_fill", ["Obj", "St", "V"], "St")
            reg.ufun("el_fill_stops", ["Obj", "St", "V"], "Bool")
            reg.ufun(name, ["Obj", "St", sort, "Int", "Int"], ressort)
            ax = T("(forall ((e Obj) (s St) (xs {l}) (j Int) (n Int)) (! (=> (>= j n) (= ({f} e s xs j n) {b})) "
                   ":pattern (({f} e s xs j n))))".format(l=sort, f=name, b=base), "Bool")
            if not any(x.s == ax.s for x in reg.axioms):
                reg.axioms.append(ax)
            e, s0, xs = obj_term(pos[0]).s, st_term(pos[1]).s, lst_term(ip, st, pos[2], sort).s
            j, n = ip.num(pos[3]).s, ip.num(pos[4]).s
            app = "({f} {e} {s} {xs} {j} {n})".format(f=name, e=e, s=s0, xs=xs, j=j, n=n)
            if not ip.bound_stack:
                x = "(select (arr_{l} {xs}) {j})".format(l=sort, xs=xs, j=j)
                d = T("(=> (< {j} {n}) (= {app} (ite (el_fill_stops {e} {s} {x}) {stop} "
                      "({f} {e} (el_fill {e} {s} {x}) {xs} (+ {j} 1) {n}))))".format(
                          j=j, n=n, app=app, e=e, s=s0, x=x, stop=stop.replace("s", s0) if stop == "s" else stop,
                          f=name, xs=xs), "Bool")
                if not any(h.s == d.s for h in st.pc):
                    st.pc.append(d)          # the definition at these arguments
            t = T(app, ressort)
            return SBool(t) if ressort == "Bool" else Opaque(t)
        return fn
    sp_fill_until_stop = rec_fun("fill_until_stop", "St", "s", "s")
    sp_stops_until = rec_fun("stops_until", "Bool", "false", "true")

    def sp_iter_source(ip, st, pos, kws):
        """iter_source(it): the list object a list iterator runs over"""
        from pyvc.sym import IterCell
        it = pos[0]
        live = getattr(st.heap[it.cid], "live", None) if isinstance(it, Ref) and isinstance(st.heap.get(it.cid), IterCell) else None
        if live is None:
            raise Unsupported("iter_source: not an iterator over a list object")
        return live

    def sp_frozen(ip, st, pos, kws):
        """frozen(xs): the items a list has now (an immutable snapshot: later changes of the list do not affect it)"""
        return ip.lst_view(lst_term(ip, st, pos[0]))

    # ---- concatenation of the branches' results, stated without a concatenation function: with
    #   L(n) = len(res(0)) + ... + len(res(n-1))          (cat_len: recursive on n; encoded as above)
    # "out is res(0) + res(1) + ... + res(n-1)" reads  len(out) == L(n)  and  out[L(m) + q] == res(m)[q]  for m < n, q < len(res(m)).
    # res(m) = branch_result(kind, seqs[m], snap[seqs[m]]): what a branch of that kind delivers when it is invoked without
    # (further) input -- 'source': its flow, 'fill_compute': compute(), 'fill_request': request(), 'sequence': run([]), any other
    # kind: nothing; kind = one of these literals (all branches of the same kind) or the m-th item of a list of kinds
    KINDS = ("source", "fill_compute", "fill_request", "sequence")

    def _res_decl(reg):
        lv = reg.lst("V")
        reg.need_val()
        reg.need("St")
        reg.need("Obj")
        reg.ufun("el_source", ["Obj"], lv)
        reg.ufun("el_compute", ["Obj", "St"], lv)
        reg.ufun("el_request", ["Obj", "St"], lv)
        reg.ufun("el_run", ["Obj", lv], lv)
        empty = reg.l_empty_canonical(lv).s
        for k in ("source", "fill_compute", "fill_request", "sequence"):
            reg.key(k)
        reg.fun_decl("branch_result",
                     "(define-fun branch_result ((t Key) (e Obj) (s St)) {lv} "
                     "(ite (= t |key:source|) (el_source e) "
                     "(ite (= t |key:fill_compute|) (el_compute e s) "
                     "(ite (= t |key:fill_request|) (el_request e s) "
                     "(ite (= t |key:sequence|) (el_run e {empty}) {empty})))))".format(lv=lv, empty=empty))
        return lv

    def _kind_at(ip, st, kinds, m):
        """SMT text of the kind of branch m: a literal kind, or kinds[m]"""
        if isinstance(kinds, Str):
            if kinds.s not in KINDS:
                raise Unsupported("branch kind %r" % kinds.s)
            return ip.reg.key(kinds.s).s
        t = lst_term(ip, st, kinds, ip.reg.lst("Key"))
        return "(select (arr_%s %s) %s)" % (t.sort, t.s, m)

    def sp_branch_result(ip, st, pos, kws):
        """branch_result(kinds, seqs, snap, m): the values branch m delivers (see above)"""
        lv = _res_decl(ip.reg)
        lo = ip.reg.lst("Obj")
        ss = lst_term(ip, st, pos[1], lo)
        m = ip.num(pos[3]).s
        k = _kind_at(ip, st, pos[0], m)
        e = "(select (arr_%s %s) %s)" % (lo, ss.s, m)
        t = T("(branch_result %s %s (select %s %s))" % (k, e, pos[2].t.s, e), lv)
        return ip.lst_view(t)

    def sp_cat_len(ip, st, pos, kws):
        """cat_len(kinds, seqs, snap, n): total number of values branches 0 .. n-1 deliver"""
        reg = ip.reg
        lv = _res_decl(reg)
        lo, lk = reg.lst("Obj"), reg.lst("Key")
        ss = lst_term(ip, st, pos[1], lo)
        snap, n = pos[2].t.s, ip.num(pos[3]).s
        if isinstance(pos[0], Str):
            if pos[0].s not in KINDS:
                raise Unsupported("branch kind %r" % pos[0].s)
            f = "cat_len_" + pos[0].s
            reg.ufun(f, [lo, "(Array Obj St)", "Int"], "Int")
            args, qv, qargs = "%s %s" % (ss.s, snap), "(ss %s) (es (Array Obj St))" % lo, "ss es"
            kind = reg.key(pos[0].s).s
        else:
            f = "cat_len_kinds"
            reg.ufun(f, [lk, lo, "(Array Obj St)", "Int"], "Int")
            ks = lst_term(ip, st, pos[0], lk)
            args, qv, qargs = "%s %s %s" % (ks.s, ss.s, snap), "(ks %s) (ss %s) (es (Array Obj St))" % (lk, lo), "ks ss es"
            kind = "(select (arr_%s %s) (- %s 1))" % (lk, ks.s, n)
        # the base case (quantified, non-recursive); the recursive step at the ground arguments of this application
        ax = T("(forall ({qv} (n Int)) (! (=> (<= n 0) (= ({f} {qa} n) 0)) :pattern (({f} {qa} n))))".format(qv=qv, f=f, qa=qargs), "Bool")
        if not any(x.s == ax.s for x in reg.axioms):
            reg.axioms.append(ax)
        app = "(%s %s %s)" % (f, args, n)
        if not ip.bound_stack:
            e = "(select (arr_%s %s) (- %s 1))" % (lo, ss.s, n)
            d = T("(=> (> {n} 0) (= {app} (+ ({f} {args} (- {n} 1)) (len_{lv} (branch_result {k} {e} (select {es} {e}))))))".format(
                n=n, app=app, f=f, args=args, lv=lv, k=kind, e=e, es=snap), "Bool")
            if not any(h.s == d.s for h in st.pc):
                st.pc.append(d)
        return Num(T(app, "Int"))

    for name, fn in [("elstates", sp_elstates), ("state_in", sp_state_in), ("loop_iter", sp_loop_iter),
                     ("fill_until_stop", sp_fill_until_stop), ("stops_until", sp_stops_until), ("frozen", sp_frozen), ("iter_source", sp_iter_source),
                     ("cat_len", sp_cat_len), ("branch_result", sp_branch_result)]:
        ix.spec_names[name] = fn


# ---------------------------------------------------------------------------------------------- vocabulary of Split.run
A, TY = "active_seqs", "active_seq_types"
XS, N = "content(flow)", "len(content(flow))"
DISTINCT = "all(all(implies(i != j, {l}[i] is not {l}[j]) for j in range(len({l}))) for i in range(len({l})))"
ACT = ["0 <= ind <= n_of_active_seqs", "n_of_active_seqs == len(%s)" % A, "n_of_active_seqs == len(%s)" % TY]
LAZY = ["pulled(flow) <= _maxpull"]
NOSRC = "all(%s[k] != 'source' for k in range({n}))" % TY
# what a fill/compute branch will have been filled with when the whole flow has passed, from its state at entry ...
FINAL = "fill_until_stop({e}, state_in(_S0, {e}), %s, 0, %s)" % (XS, N)
# ... equals what remains to be done from its present state at position {p} of the flow
REM = "fill_until_stop({e}, elstate({e}), %s, {p}, %s)" % (XS, N)
BLOCK = ["_B >= 0", "len(orig_buf) == pulled(flow) - _B", "pulled(flow) <= %s" % N,
         "all(orig_buf[q] == %s[_B + q] for q in range(len(orig_buf)))" % XS]
# C04: the list a branch consumes was made for it in this very turn (a deep copy), unless it is the last active branch
OWN_COPY = "(not self._copy_buf or n_of_active_seqs - ind == 1 or (made_in_iteration({x}, 1) and is_deep_copy({x})))"
OTHERS = "all(implies(k != ind, elstate({a}[k]) == state_in(_blk, {a}[k])) for k in range(len({a})))".format(a=A)


def yield_loop(k, extra=()):
    """a loop `for val in <result of a branch>: yield val`: the output grows by exactly that result, in order"""
    return LoopSpec(invariant=list(extra) + ["len(out) == _o%d + _i" % k,
                                            "all(out[_o%d + q] == content(loop_iter(%d))[q] for q in range(_i))" % (k, k)],
                    init_ghost={"_o%d" % k: "len(out)"}, ghost={"_o%d" % k: "Int"})


def cat_spec(kinds, seqs, snap, n, with_chain=True):
    """`out` is the concatenation of the results of branches 0 .. n-1, in branch order (see cat_len above)"""
    L = lambda m: "cat_len(%s, %s, %s, %s)" % (kinds, seqs, snap, m)
    R = "branch_result(%s, %s, %s, m)" % (kinds, seqs, snap)
    cl = ["len(out) == " + L(n), "all(%s == %s + len(%s) for m in range(%s))" % (L("m + 1"), L("m"), R, n),
          # (by position p of the output: branch m owns the positions L(m) <= p < L(m + 1))
          "all(all(implies(%s <= p and p < %s, out[p] == %s[p - %s]) for p in range(len(out))) for m in range(%s))"
          % (L("m"), L("m + 1"), R, L("m"), n)]
    if with_chain:
        # (auxiliary, for the induction over the branches: the lengths add up and stay within the output so far)
        cl.append("all(%s <= len(out) for m in range(%s))" % (L("m + 1"), n))
    return cl


def yield_all(k):
    """a loop `for val in <result of a branch>: yield val` inside a loop over branches: the output so far stays, and grows by
    exactly that result, in order"""
    return LoopSpec(invariant=["len(out) == _o%d + _i" % k,
                               "all(implies(p >= _o%d, out[p] == content(loop_iter(%d))[p - _o%d]) for p in range(len(out)))" % (k, k, k),
                               "all(out[q] == _p%d[q] for q in range(_o%d))" % (k, k)],
                    init_ghost={"_o%d" % k: "len(out)", "_p%d" % k: "frozen(out)"})


def register(ix):
    _register_spec_functions(ix)
    # bufsize None: `whole input flow is materialized in the buffer` (one block)
    ix.add_class(ClassSpec("Split_whole", SP, alias_of="Split",
                           fields={"_seqs": "Lst[Obj]", "_seq_types": "Lst[Key]", "_copy_buf": "Bool", "_bufsize": "None"},
                           invariant=["len(self._seqs) == len(self._seq_types)"]))
    register_run_schedule(ix, whole=False)
    register_run_schedule(ix, whole=True)
    register_run_empty(ix)
    register_run_one_fc(ix)
    register_run_one_source(ix)
    register_run_one_fr(ix)
    register_common_type(ix)
    register_zip(ix)
    register_conversion(ix)
    register_init(ix)
    register_zip_init(ix)
    register_init_findings(ix)


def register_run_schedule(ix, whole):
    """Split.run, any number of branches of any kind, integer bufsize / bufsize None.  Clause by clause from the docstring of run / C03:
      * `The flow is divided into subslices of bufsize`: block k is content(flow)[_B : pulled(flow)], read at once;
      * `Each subslice is processed by sequences in the order of their initializer list`;
      * Source: called in the first block (or the final pass of an empty flow) only, all its values are yielded;
      * FillComputeSeq: `filled with values from each buffer, but yields values from compute only after the whole flow is
        finished` -- compute() is called on a branch exactly in the state  fill_until_stop(branch, state at entry, whole
        flow): either in the final pass (branch order), or at once when its fill signalled LenaStopFill (C05: finalised
        and dropped) -- hence independent of bufsize;
      * FillRequestSeq: `filled with the buffer contents.  After the buffer is finished, it yields all values from request()`;
      * Sequence: `called with run(buffer)`, every block; `the results are yielded for each buffer (and also if the flow was
        empty)`;
      * copy_buf: `the buffer for each sequence except the last one is a deep copy of the current buffer` (made for that
        branch in that very iteration: C04)."""
    inner = ACT + LAZY + BLOCK + ["not flow_was_empty", "len(orig_buf) >= 1"]
    I0 = "all(implies({ty}[k] == 'fill_compute', {fin} == {rem}) for k in range(len({a})))".format(
        ty=TY, a=A, fin=FINAL.format(e=A + "[k]"), rem=REM.format(e=A + "[k]", p="pulled(flow)"))
    I1 = "all(implies({ty}[k] == 'fill_compute', {fin} == {rem}) for k in range(len({a})))".format(
        ty=TY, a=A, fin=FINAL.format(e=A + "[k]"), rem=REM.format(e=A + "[k]", p="(pulled(flow) if k < ind else _B)"))
    DA = DISTINCT.format(l=A)
    # during the turn of branch `ind` the other branches stay as they were when the turn began (_blk); the fill loop leaves
    # the flag `stopped` alone unless it breaks
    STOPS = ("stops_until(seq, state_in(_blk, seq), {xs}, _B, pulled(flow)) == "
             "stops_until(seq, elstate(seq), {xs}, _B + _i, pulled(flow))".format(xs=XS))
    fill_fc = LoopSpec(invariant=["stopped == _st3", OTHERS, STOPS,
                                  "%s == %s" % (FINAL.format(e="seq"), REM.format(e="seq", p="_B + _i"))],
                       init_ghost={"_st3": "stopped"})
    fill_fr = LoopSpec(invariant=["stopped == _st5", OTHERS, STOPS,
                                  "fill_until_stop(seq, state_in(_blk, seq), {xs}, _B, pulled(flow)) == "
                                  "fill_until_stop(seq, elstate(seq), {xs}, _B + _i, pulled(flow))".format(xs=XS)],
                       init_ghost={"_st5": "stopped"})
    # one turn of the branch loop (ghosts _a1, _t1, _ind1, _blk: the active branches, their kinds, the index and the element
    # states when the turn began): the branch whose turn it was is DROPPED iff it is a Source or a fill/compute or
    # fill/request branch one of whose fills signalled LenaStopFill on this block; otherwise it is KEPT and the next branch
    # is up; all other branches keep their places
    E1, T1 = "_a1[_ind1]", "_t1[_ind1]"
    KEPT = ("(len({a}) == len(_a1) and ind == _ind1 + 1 and "
            "all({a}[k] is _a1[k] and {ty}[k] == _t1[k] for k in range(len({a}))))").format(a=A, ty=TY)
    DROPPED = ("(len({a}) == len(_a1) - 1 and ind == _ind1 and "
               "all({a}[k] is _a1[k if k < ind else k + 1] and {ty}[k] == _t1[k if k < ind else k + 1] "
               "for k in range(len({a}))))").format(a=A, ty=TY)
    MUST_DROP = ("({t} == 'source' or (({t} == 'fill_compute' or {t} == 'fill_request') and "
                 "stops_until({e}, state_in(_blk, {e}), {xs}, _B, pulled(flow))))").format(t=T1, e=E1, xs=XS)
    TURN = ["_ind1 == -1 or %s or %s" % (KEPT, DROPPED), "_ind1 == -1 or (%s == %s)" % (DROPPED, MUST_DROP)]
    tag = "schedule, bufsize None" if whole else "schedule"
    ix.add(Contract(
        SP, "Split.run", qualkey="Split.run#" + tag.replace(", ", "-").replace(" ", "-"), name="Split.run[%s]" % tag,
        props=["C03", "C04", "C05"],
        params={"self": "Self[Split_whole]" if whole else "Self[Split]", "flow": "Iter[V]"}, generator=True, yields="V",
        ghost={"elstate": True},
        requires=["pulled(flow) == 0", DISTINCT.format(l="self._seqs")],
        loops={
            0: LoopSpec(invariant=["0 <= n_of_active_seqs", "n_of_active_seqs == len(%s)" % A, "n_of_active_seqs == len(%s)" % TY,
                                   "pulled(flow) <= _maxpull", "_maxpull >= 0", "_nblk >= 0", "flow_was_empty == (_nblk == 0)",
                                   "flow_was_empty implies pulled(flow) == 0",
                                   "flow_was_empty or " + NOSRC.format(n="len(%s)" % TY), DA, I0,
                                   # no block yet: no branch has been touched
                                   "flow_was_empty implies all(elstate({a}[k]) == state_in(_S0, {a}[k]) "
                                   "for k in range(len({a})))".format(a=A)],
                        init_ghost={"_maxpull": "0", "_nblk": "0", "_S0": "elstates()"},
                        body_ghost={"_maxpull": N if whole else "_maxpull + self._bufsize", "_nblk": "_nblk + 1", "_B": "pulled(flow)"},
                        ghost={"_maxpull": "Int", "_nblk": "Int", "_B": "Int"},
                        decreases="len(content(flow)) - pulled(flow)"),
            1: LoopSpec(invariant=inner + ["_nblk >= 1", NOSRC.format(n="ind"),
                                           "_nblk == 1 or " + NOSRC.format(n="len(%s)" % TY), DA, I1] + TURN,
                        init_ghost={"_blk": "elstates()", "_a1": "frozen(%s)" % A, "_t1": "frozen(%s)" % TY, "_ind1": "-1"},
                        body_ghost={"_blk": "elstates()", "_a1": "frozen(%s)" % A, "_t1": "frozen(%s)" % TY, "_ind1": "ind"},
                        # (`buf` is a list of flow values whenever the head of the branch loop is reached again)
                        ghost={"_a1": "Lst[Obj]", "_t1": "Lst[Key]", "_ind1": "Int", "buf": "Lst[V]"},
                        decreases="n_of_active_seqs - ind"),
            2: yield_loop(2), 3: fill_fc, 4: yield_loop(4), 5: fill_fr, 6: yield_loop(6), 7: yield_loop(7),
            8: LoopSpec(invariant=[
                                          "all(implies({ty}[k] == 'fill_compute', elstate({a}[k]) == {fin}) "
                                          "for k in range(len({a})))".format(ty=TY, a=A, fin=FINAL.format(e=A + "[k]")), DA,
                                          "len(%s) == len(%s)" % (A, TY),
                                          "flow_was_empty implies all(implies(k >= _i, elstate({a}[k]) == state_in(_S0, {a}[k])) "
                                          "for k in range(len({a})))".format(a=A)]),
            9: yield_loop(9), 10: yield_loop(10), 11: yield_loop(11), 12: yield_loop(12),
        },
        # C02: nothing is pulled while results of a block are handed on
        at_yield=["pulled(flow) <= _maxpull"],
        at_call={
            # a branch is filled with the values of the current block, in order (value _i of the block in the _i-th call),
            # from a buffer made for it (C04)
            "fill": ["call_self is %s[ind]" % A, "call_args[0] == %s[_B + _i]" % XS,
                     "in_loop(3) implies " + OWN_COPY.format(x="iter_source(loop_iter(3))"),
                     "in_loop(5) implies " + OWN_COPY.format(x="iter_source(loop_iter(5))"),
                     "%s[ind] == 'fill_compute' or %s[ind] == 'fill_request'" % (TY, TY)],
            # a plain Sequence runs on the whole block
            "run": ["in_loop(8) implies flow_was_empty and len(call_args[0]) == 0 and call_self is %s[_i] and %s[_i] == 'sequence'" % (A, TY),
                    "not in_loop(8) implies call_self is %s[ind] and %s[ind] == 'sequence'" % (A, TY),
                    "not in_loop(8) implies len(call_args[0]) == pulled(flow) - _B and "
                    "all(call_args[0][q] == %s[_B + q] for q in range(len(call_args[0])))" % XS,
                    "not in_loop(8) implies " + OWN_COPY.format(x="call_args[0]")],
            # a Source produces its complete flow the first time it is reached
            "__call__": ["in_loop(8) implies flow_was_empty and call_self is %s[_i] and %s[_i] == 'source'" % (A, TY),
                         "not in_loop(8) implies _nblk == 1 and call_self is %s[ind] and %s[ind] == 'source'" % (A, TY)],
            # fill/compute: computed when everything it accepts has been filled -- the same state whatever bufsize
            "compute": ["elstate(call_self) == " + FINAL.format(e="call_self"),
                        "in_loop(8) implies call_self is %s[_i] and %s[_i] == 'fill_compute'" % (A, TY),
                        "not in_loop(8) implies call_self is %s[ind] and %s[ind] == 'fill_compute'" % (A, TY)],
            # fill/request: requested after every block, filled with exactly that block (until it signalled LenaStopFill)
            "request": ["in_loop(8) implies flow_was_empty and elstate(call_self) == state_in(_S0, call_self) "
                        "and call_self is %s[_i] and %s[_i] == 'fill_request'" % (A, TY),
                        "not in_loop(8) implies call_self is %s[ind] and %s[ind] == 'fill_request'" % (A, TY),
                        "not in_loop(8) implies elstate(call_self) == "
                        "fill_until_stop(call_self, state_in(_blk, call_self), %s, _B, pulled(flow))" % XS],
        },
        ensures=["pulled(flow) == %s" % N],
        modifies=["flow"],
        notes=("bufsize None (one block); " if whole else "integer bufsize; ") + "branches are pairwise different objects"))


def register_run_empty(ix):
    """C03: `on an empty flow every branch is still invoked exactly once` / run: `If the flow was empty, each call, compute,
    request or run is called nevertheless`: the output is, in branch order, the complete flow of each Source, compute() of
    each fill/compute branch, request() of each fill/request branch and run([]) of each Sequence, every branch in the state
    it had at entry."""
    for whole in (False, True):
        tag = "empty flow, bufsize None" if whole else "empty flow"
        S0 = "old(elstates())"
        ix.add(Contract(
            SP, "Split.run", qualkey="Split.run#" + tag.replace(", ", "-").replace(" ", "-"), name="Split.run[%s]" % tag,
            props=["C03"],
            params={"self": "Self[Split_whole]" if whole else "Self[Split]", "flow": "Iter[V]"}, generator=True, yields="V",
            ghost={"elstate": True},
            requires=["pulled(flow) == 0", "%s == 0" % N, DISTINCT.format(l="self._seqs")],
            loops={
                0: LoopSpec(invariant=["flow_was_empty", "pulled(flow) == 0", "len(out) == 0",
                                       "same(%s, self._seqs)" % A, "same(%s, self._seq_types)" % TY,
                                       "all(elstate({a}[k]) == state_in(_S0, {a}[k]) for k in range(len({a})))".format(a=A)],
                            init_ghost={"_S0": "elstates()"}),
                # (no block is ever started on an empty flow: the bodies of the block loops are unreachable)
                1: LoopSpec(invariant=[]), 2: LoopSpec(invariant=[]), 3: LoopSpec(invariant=[]), 4: LoopSpec(invariant=[]),
                5: LoopSpec(invariant=[]), 6: LoopSpec(invariant=[]), 7: LoopSpec(invariant=[]),
                8: LoopSpec(invariant=cat_spec(TY, A, "_S0", "_i") + [
                    "all(implies(k >= _i, elstate({a}[k]) == state_in(_S0, {a}[k])) for k in range(len({a})))".format(a=A)]),
                9: yield_all(9), 10: yield_all(10), 11: yield_all(11), 12: yield_all(12),
            },
            ensures=cat_spec("self._seq_types", "self._seqs", S0, "len(self._seqs)", with_chain=False),
            modifies=["flow"],
            notes="empty flow; branches are pairwise different objects"))


def register_run_one_fc(ix):
    """C05: `the results are identical whether the chain is ... a branch of a Split with any bufsize, or an explicit
    FillComputeSeq filled value by value (until it signals LenaStopFill) and then computed`.  A Split whose only branch is a
    fill/compute sequence e yields exactly  compute()  of e filled with the flow until it stops -- whatever bufsize (an
    integer >= 1 or None), also on an empty flow."""
    E = "self._seqs[0]"
    FIN = FINAL.format(e=E)
    RES = "el_compute(%s, %s)" % (E, FIN)
    DONE = "(len(out) == len({r}) and all(out[q] == {r}[q] for q in range(len(out))))".format(r=RES)
    SHAPE = ["0 <= n_of_active_seqs <= 1", "n_of_active_seqs == len(%s)" % A, "n_of_active_seqs == len(%s)" % TY,
             "n_of_active_seqs == 1 implies %s[0] is %s and %s[0] == 'fill_compute' and len(out) == 0" % (A, E, TY),
             "n_of_active_seqs == 0 implies " + DONE]
    copy_out = lambda k: LoopSpec(invariant=["len(out) == _i", "all(out[q] == content(loop_iter(%d))[q] for q in range(_i))" % k])
    none = LoopSpec(invariant=[])
    for whole in (False, True):
        tag = "one fill/compute branch, bufsize None" if whole else "one fill/compute branch"
        ix.add(Contract(
            SP, "Split.run", qualkey="Split.run#" + tag.replace(", ", "-").replace(" ", "-").replace("/", "-"),
            name="Split.run[%s]" % tag, props=["C05", "C03"],
            params={"self": "Self[Split_whole]" if whole else "Self[Split]", "flow": "Iter[V]"}, generator=True, yields="V",
            ghost={"elstate": True},
            requires=["pulled(flow) == 0", "len(self._seqs) == 1", "self._seq_types[0] == 'fill_compute'"],
            loops={
                0: LoopSpec(invariant=SHAPE + ["n_of_active_seqs == 1 implies %s == %s" % (FIN, REM.format(e=E, p="pulled(flow)"))],
                            init_ghost={"_S0": "elstates()"}, body_ghost={"_B": "pulled(flow)"}, ghost={"_B": "Int"},
                            decreases="len(content(flow)) - pulled(flow)"),
                1: LoopSpec(invariant=SHAPE + BLOCK + ["0 <= ind <= n_of_active_seqs", "len(orig_buf) >= 1",
                                                       "n_of_active_seqs == 1 implies %s == %s" % (
                                                           FIN, REM.format(e=E, p="(pulled(flow) if ind == 1 else _B)"))],
                            decreases="n_of_active_seqs - ind"),
                2: none,
                3: LoopSpec(invariant=["stopped == _st3", "%s == %s" % (FIN, REM.format(e=E, p="_B + _i"))],
                            init_ghost={"_st3": "stopped"}),
                4: copy_out(4), 5: none, 6: none, 7: none,
                8: LoopSpec(invariant=["_i <= n_of_active_seqs",
                                       "n_of_active_seqs == 1 and _i == 0 implies len(out) == 0 and elstate(%s) == %s" % (E, FIN),
                                       "n_of_active_seqs == 0 or _i == 1 implies " + DONE]),
                9: none, 10: copy_out(10), 11: none, 12: none,
            },
            ensures=["len(out) == len({r})".format(r=RES.replace("state_in(_S0, %s)" % E, "old(elstate(%s))" % E)),
                     "all(out[q] == {r}[q] for q in range(len(out)))".format(
                         r=RES.replace("state_in(_S0, %s)" % E, "old(elstate(%s))" % E)),
                     "pulled(flow) == %s" % N],
            modifies=["flow"]))


def _one_branch(ix, tag, kind, props, whole, loops, res, requires=(), notes=""):
    E = "self._seqs[0]"
    r = res.replace("state_in(_S0, %s)" % E, "old(elstate(%s))" % E)
    ix.add(Contract(
        SP, "Split.run", qualkey="Split.run#" + tag.replace(", ", "-").replace(" ", "-").replace("/", "-"),
        name="Split.run[%s]" % tag, props=props,
        params={"self": "Self[Split_whole]" if whole else "Self[Split]", "flow": "Iter[V]"}, generator=True, yields="V",
        ghost={"elstate": True},
        requires=["pulled(flow) == 0", "len(self._seqs) == 1", "self._seq_types[0] == '%s'" % kind] + list(requires),
        loops=loops,
        ensures=["len(out) == len(%s)" % r, "all(out[q] == %s[q] for q in range(len(out)))" % r, "pulled(flow) == %s" % N],
        modifies=["flow"], notes=notes))


def register_run_one_source(ix):
    """run: `If a sequence is a Source, it doesn't accept the incoming flow, but produces its own complete flow and becomes
    inactive`: a Split whose only branch is a Source yields exactly the flow of that Source (once), whatever the input flow
    and bufsize."""
    E = "self._seqs[0]"
    RES = "el_source(%s)" % E
    DONE = "(len(out) == len({r}) and all(out[q] == {r}[q] for q in range(len(out))))".format(r=RES)
    SHAPE = ["0 <= n_of_active_seqs <= 1", "n_of_active_seqs == len(%s)" % A, "n_of_active_seqs == len(%s)" % TY,
             "n_of_active_seqs == 1 implies %s[0] is %s and %s[0] == 'source' and len(out) == 0" % (A, E, TY),
             "n_of_active_seqs == 0 implies " + DONE]
    copy_out = lambda k: LoopSpec(invariant=["len(out) == _i", "all(out[q] == content(loop_iter(%d))[q] for q in range(_i))" % k])
    none = LoopSpec(invariant=[])
    for whole in (False, True):
        _one_branch(ix, "one Source branch" + (", bufsize None" if whole else ""), "source", ["C03"], whole, {
            0: LoopSpec(invariant=SHAPE + ["n_of_active_seqs == 1 implies flow_was_empty"],
                        decreases="len(content(flow)) - pulled(flow)"),
            1: LoopSpec(invariant=SHAPE + ["0 <= ind <= n_of_active_seqs", "n_of_active_seqs == 1 implies ind == 0"],
                        decreases="n_of_active_seqs - ind"),
            2: copy_out(2), 3: none, 4: none, 5: none, 6: none, 7: none,
            8: LoopSpec(invariant=["_i <= n_of_active_seqs", "n_of_active_seqs == 1 and _i == 0 implies len(out) == 0",
                                   "n_of_active_seqs == 0 or _i == 1 implies " + DONE]),
            9: copy_out(9), 10: none, 11: none, 12: none}, RES)


def register_run_one_fr(ix):
    """run: `A FillRequestSeq is filled with the buffer contents.  After the buffer is finished, it yields all values from
    request()` / C05: with the whole flow in one block (bufsize None, or at least the length of the flow) a Split whose only
    branch is a fill/request sequence e yields exactly request() of e filled with the flow until it stops -- also on an
    empty flow."""
    E = "self._seqs[0]"
    FIN = FINAL.format(e=E)
    RES = "el_request(%s, %s)" % (E, FIN)
    DONE = "(len(out) == len({r}) and all(out[q] == {r}[q] for q in range(len(out))))".format(r=RES)
    FRESH = "len(out) == 0 and elstate({e}) == state_in(_S0, {e})".format(e=E)
    SHAPE = ["0 <= n_of_active_seqs <= 1", "n_of_active_seqs == len(%s)" % A, "n_of_active_seqs == len(%s)" % TY,
             "n_of_active_seqs == 1 implies %s[0] is %s and %s[0] == 'fill_request'" % (A, E, TY)]
    copy_out = lambda k: LoopSpec(invariant=["len(out) == _i", "all(out[q] == content(loop_iter(%d))[q] for q in range(_i))" % k])
    none = LoopSpec(invariant=[])
    for whole in (False, True):
        _one_branch(ix, "one fill/request branch, " + ("bufsize None" if whole else "one block"), "fill_request", ["C05", "C03"],
                    whole, {
            0: LoopSpec(invariant=SHAPE + ["flow_was_empty implies pulled(flow) == 0 and n_of_active_seqs == 1 and " + FRESH,
                                           "not flow_was_empty implies pulled(flow) == %s and %s" % (N, DONE)],
                        init_ghost={"_S0": "elstates()"}, body_ghost={"_B": "pulled(flow)"}, ghost={"_B": "Int"},
                        decreases="len(content(flow)) - pulled(flow)"),
            1: LoopSpec(invariant=SHAPE + BLOCK + ["0 <= ind <= n_of_active_seqs", "len(orig_buf) >= 1", "_B == 0",
                                                   "pulled(flow) == %s" % N, "not flow_was_empty",
                                                   "n_of_active_seqs == 1 and ind == 0 implies " + FRESH,
                                                   "n_of_active_seqs == 0 or ind == 1 implies " + DONE],
                        decreases="n_of_active_seqs - ind"),
            2: none, 3: none, 4: none,
            5: LoopSpec(invariant=["stopped == _st5", "len(out) == 0", "%s == %s" % (FIN, REM.format(e=E, p="_i"))],
                        init_ghost={"_st5": "stopped"}),
            6: copy_out(6), 7: none,
            8: LoopSpec(invariant=["_i <= n_of_active_seqs", "not flow_was_empty implies " + DONE,
                                   "flow_was_empty and _i == 0 implies " + FRESH,
                                   "flow_was_empty and _i == 1 implies " + DONE]),
            9: none, 10: none, 11: copy_out(11), 12: none}, RES,
            requires=[] if whole else ["%s <= self._bufsize" % N],
            notes="the whole flow fits into one block")


# ---------------------------------------------------------------------------------------------- common-type methods
def register_common_type(ix):
    """Split.__init__: `If each sequence from seqs has a common type, Split creates methods corresponding to this type ...
    fill fills all its subsequences (with copies if copy_buf is True), and compute yields values from all sequences in turn
    (as would also do request or Source.__call__)`."""
    S = "self._seqs"
    OLD = "old(elstate(%s[{k}]))" % S
    STOPS_UPTO = "any(el_fill_stops(%s[m], %s, val) for m in range(k + 1))" % (S, OLD.format(k="m"))
    # branch k is filled iff neither it nor a branch before it signals LenaStopFill (the exception ends the method)
    FILLED = ("all(elstate({s}[k]) == ({old} if {stops} else el_fill({s}[k], {old}, val)) for k in range(len({s})))"
              .format(s=S, old=OLD.format(k="k"), stops=STOPS_UPTO))
    ix.add(Contract(
        SP, "Split._fill", qualkey="Split._fill#state", name="Split._fill[states]", props=["C03", "C05"],
        params={"self": "Self[Split]", "val": "V"}, result=None, ghost={"elstate": True},
        requires=["len(%s) >= 1" % S, DISTINCT.format(l=S)],
        # the exception of a branch is not handled here: it ends fill (the branches after it are not filled)
        raises={"LenaStopFill": "any(el_fill_stops({s}[k], elstate({s}[k]), val) for k in range(len({s})))".format(s=S)},
        exc_ensures={"LenaStopFill": [FILLED]},
        loops={0: LoopSpec(invariant=[
            "all(elstate({s}[k]) == (el_fill({s}[k], {old}, val) if k < _i else {old}) for k in range(len({s})))".format(
                s=S, old=OLD.format(k="k")),
            "all(not el_fill_stops({s}[k], {old}, val) for k in range(_i))".format(s=S, old=OLD.format(k="k"))])},
        at_call={"fill": ["call_args[0] == val", "in_loop(0) implies call_self is %s[_i]" % S,
                          "not in_loop(0) implies call_self is %s[len(%s) - 1]" % (S, S)]},
        ensures=["all(elstate({s}[k]) == el_fill({s}[k], {old}, val) for k in range(len({s})))".format(s=S, old=OLD.format(k="k"))],
        notes="branches are pairwise different objects; flow values of the abstract sort V (copy.deepcopy of one is the value)"))
    # C04: `fill fills all its subsequences (with copies if copy_buf is True)`: the context dictionary every branch but the
    # last receives is a DEEP copy made for it in this very iteration (contracts/C03.py: a new object per iteration)
    ix.add(Contract(
        SP, "Split._fill", qualkey="Split._fill#copies", name="Split._fill[deep copies]", props=["C04"],
        params={"self": "Self[Split]", "val": "Tuple[V,Dict]"}, result=None, ghost={"elstate": True},
        requires=["len(%s) >= 1" % S], raises={"LenaStopFill": "?"},
        loops={0: LoopSpec(invariant=["val[1] == old(val[1])"])},
        at_call={"fill": ["in_loop(0) and self._copy_buf implies is_deep_copy(call_args[0][1]) and made_in_iteration(call_args[0][1], 0)",
                          "call_args[0][0] == val[0]", "call_args[0][1] == old(val[1])"]},
        ensures=["val[1] == old(val[1])"]))

    ix.add(Contract(
        SP, "Split._compute", props=["C03"],
        params={"self": "Self[Split]"}, generator=True, yields="V", ghost={"elstate": True},
        loops={0: LoopSpec(invariant=cat_spec("'fill_compute'", S, "elstates()", "_i")), 1: yield_all(1)},
        ensures=cat_spec("'fill_compute'", S, "elstates()", "len(%s)" % S, with_chain=False) + ["elstates() == old(elstates())"]))
    REQ = "el_request_state({s}[k], state_in({snap}, {s}[k]))"
    ix.add(Contract(
        SP, "Split._request", props=["C03"],
        params={"self": "Self[Split]"}, generator=True, yields="V", ghost={"elstate": True},
        requires=[DISTINCT.format(l=S)],
        loops={0: LoopSpec(invariant=cat_spec("'fill_request'", S, "_S0", "_i") + [
                               "all(elstate({s}[k]) == ({req} if k < _i else state_in(_S0, {s}[k])) for k in range(len({s})))".format(
                                   s=S, req=REQ.format(s=S, snap="_S0"))],
                           init_ghost={"_S0": "elstates()"}),
               1: yield_all(1)},
        # every branch is requested once, in the state it had at entry
        ensures=cat_spec("'fill_request'", S, "old(elstates())", "len(%s)" % S, with_chain=False) + [
            "all(elstate({s}[k]) == {req} for k in range(len({s})))".format(s=S, req=REQ.format(s=S, snap="old(elstates())"))],
        notes="branches are pairwise different objects"))
    CT = "lena/core/check_sequence_type.py"
    if (CT, "is_source") not in ix.by_key:
        ix.add(Contract(CT, "is_source", props=[], params={"seq": "Obj"}, result="Bool", inline=True))
    ix.add_class(ClassSpec("Split_callable", SP, alias_of="Split", fields={"_seqs": "Lst[Obj]", "_n_seq_types": "Int"},
                           # _n_seq_types is the number of different kinds among the branches (Split.__init__)
                           invariant=["self._n_seq_types == 1 implies len(self._seqs) >= 1"]))
    ix.add(Contract(
        SP, "Split.__call__", props=["C03"],
        params={"self": "Self[Split_callable]"}, generator=True, yields="V", ghost={"elstate": True},
        # `available only if each self sequence is a Source, otherwise runtime LenaAttributeError is raised`
        raises={"LenaAttributeError": "self._n_seq_types != 1 or not is_instance_of(self._seqs[0], 'Source')"},
        loops={0: LoopSpec(invariant=cat_spec("'source'", S, "elstates()", "_i")), 1: yield_all(1)},
        # `Each initialization sequence generates flow.  After its flow is empty, next sequence is called, etc.`
        ensures=cat_spec("'source'", S, "elstates()", "len(%s)" % S, with_chain=False)))


# ---------------------------------------------------------------------------------------------- Zip
def register_zip(ix):
    """C03: `a Zip of such branches yields the tuples of their i-th results` (stops at the shortest); C04: every branch of a
    Zip is filled with its own deep copy."""
    FF = "lena/flow/functions.py"
    S = "self._sequences"
    OLD = "old(elstate(%s[{k}]))" % S
    STOPS_UPTO = "any(el_fill_stops(%s[m], %s, val) for m in range(k + 1))" % (S, OLD.format(k="m"))
    FILLED = ("all(elstate({s}[k]) == ({old} if {stops} else el_fill({s}[k], {old}, val)) for k in range(len({s})))"
              .format(s=S, old=OLD.format(k="k"), stops=STOPS_UPTO))
    ix.add(Contract(
        ZP, "Zip._fill", qualkey="Zip._fill#state", name="Zip._fill[states]", props=["C03"],
        params={"self": "Self[Zip]", "val": "V"}, result=None, ghost={"elstate": True},
        requires=[DISTINCT.format(l=S)],
        raises={"LenaStopFill": "any(el_fill_stops({s}[k], elstate({s}[k]), val) for k in range(len({s})))".format(s=S)},
        exc_ensures={"LenaStopFill": [FILLED]},
        loops={0: LoopSpec(invariant=[
            "all(elstate({s}[k]) == (el_fill({s}[k], {old}, val) if k < _i else {old}) for k in range(len({s})))".format(
                s=S, old=OLD.format(k="k")),
            "all(not el_fill_stops({s}[k], {old}, val) for k in range(_i))".format(s=S, old=OLD.format(k="k"))])},
        at_call={"fill": ["call_args[0] == val", "call_self is %s[_i]" % S]},
        ensures=["all(elstate({s}[k]) == el_fill({s}[k], {old}, val) for k in range(len({s})))".format(s=S, old=OLD.format(k="k"))],
        notes="branches are pairwise different objects; flow values of the abstract sort V"))
    # C04: `each ... Zip branch works on a private deep copy`
    ix.add(Contract(
        ZP, "Zip._fill", qualkey="Zip._fill#copies", name="Zip._fill[deep copies]", props=["C04"],
        params={"self": "Self[Zip]", "val": "Tuple[V,Dict]"}, result=None, ghost={"elstate": True},
        raises={"LenaStopFill": "?"},
        loops={0: LoopSpec(invariant=["val[1] == old(val[1])"])},
        at_call={"fill": ["is_deep_copy(call_args[0][1]) and made_in_iteration(call_args[0][1], 0)",
                          "call_args[0][0] == val[0]", "call_args[0][1] == old(val[1])"]},
        ensures=["val[1] == old(val[1])"]))
    ix.add(Contract(
        ZP, "Zip._reset", props=["C03"],
        params={"self": "Self[Zip]"}, result=None, ghost={"elstate": True},
        loops={0: LoopSpec(invariant=["all(elstate({s}[k]) == el_reset({s}[k]) for k in range(_i))".format(s=S)])},
        at_call={"reset": ["call_self is %s[_i]" % S]},
        ensures=["all(elstate({s}[k]) == el_reset({s}[k]) for k in range(len({s})))".format(s=S)]))
    # ---- _yield: the data part of a result (a (data, context) pair or bare data: lena.flow.functions.get_data_context)
    DATA = "(vdata({v}) if v_has_context({v}) else {v})"
    ix.add(Contract(ZP, "Zip._create_data", props=[], params={"self": "Any", "values": "Any"}, inline=True))
    ix.add_class(ClassSpec("Zip_any", ZP, alias_of="Zip", fields={}))
    ix.add(Contract(ZP, "Zip._create_context", props=[], trusted=True,
                    params={"self": "Self[Zip_any]", "values": "Any"}, result="Dict",
                    notes="assumed at the call in Zip._yield: the context of a zipped value (intersection / difference of the "
                          "branches' contexts, the subject of C07) is some dictionary"))

    def yield_case(n):
        rs = ["results[%d]" % k for k in range(n)]
        cur = ["content(%s)[yield_count()]" % r for r in rs]
        tup = "(" + ", ".join(DATA.format(v=c) for c in cur) + ("," if n == 1 else "") + ")"
        return Contract(
            ZP, "Zip._yield", name="Zip._yield[%d branches]" % n,
            params={"self": "Self[Zip_%d]" % n, "results": "PyList[%d,Iter[V]]" % n}, generator=True, yields="Any",
            requires=["pulled(%s) == 0" % r for r in rs],
            loops={0: LoopSpec(invariant=["pulled(%s) == yield_count()" % r for r in rs] +
                                         ["yield_count() <= len(content(%s))" % r for r in rs],
                               decreases="len(content(results[0])) - pulled(results[0])")},
            at_yield=[
                # the k-th value is made of the k-th results of ALL the branches: every branch still has one
                " and ".join("yield_count() < len(content(%s))" % r for r in rs),
                # its data part is the tuple of their data parts, in branch order
                "context implies len(yielded) == 2 and yielded[0] == %s and yielded[1] is context" % tup,
                "not context implies yielded == %s" % tup],
            # `stop on shortest sequence`
            ensures=[" or ".join("yield_count() == len(content(%s))" % r for r in rs)] +
                    ["yield_count() <= len(content(%s))" % r for r in rs],
            modifies=rs)

    def yield_summary(n):
        rs = ["results[%d]" % k for k in range(n)]
        return Contract(
            ZP, "Zip._yield", qualkey="Zip_%dc._yield" % n, name="Zip._yield[%d branches, summary for callers]" % n, props=[],
            trusted=True,
            params={"self": "Self[Zip_%dc]" % n, "results": "PyList[%d,Iter[V]]" % n}, generator=True, yields="V",
            requires=["pulled(%s) == 0" % r for r in rs],
            ensures=[" or ".join("len(out) == len(content(%s))" % r for r in rs)] +
                    ["len(out) <= len(content(%s))" % r for r in rs],
            notes="the number of zipped values, as proved for Zip._yield[%d branches] (there the values are tuples; here they "
                  "are opaque flow values: callers only hand them on)" % n)

    for n in (1, 2, 3):
        ix.add_class(ClassSpec("Zip_%d" % n, ZP, alias_of="Zip", fields={"_namedtuple": "None"}))
        ix.add_class(ClassSpec("Zip_%dc" % n, ZP, alias_of="Zip", fields={"_sequences": "PyList[%d,Obj]" % n}))
        ix.add(yield_summary(n))
    ix.add(Contract(ZP, "Zip._yield", props=["C03"], cases=[yield_case(1), yield_case(2), yield_case(3)]))

    def driver(meth, n):
        rs = ["el_%s(%s[%d], old(elstate(%s[%d])))" % (meth, S, k, S, k) for k in range(n)]
        req = ["all(all(implies(i != j, {l}[i] is not {l}[j]) for j in range(%d)) for i in range(%d))".format(l=S) % (n, n)] \
            if meth == "request" else []
        return Contract(
            ZP, "Zip._%s" % meth, name="Zip._%s[%d branches]" % (meth, n),
            params={"self": "Self[Zip_%dc]" % n}, generator=True, yields="V", ghost={"elstate": True}, requires=req,
            # what is zipped: the k-th iterator is the result of the k-th branch
            loops={1: LoopSpec(invariant=["len(out) == _i"] + ["same(content(results[%d]), %s)" % (k, r) for k, r in enumerate(rs)])},
            # every branch is asked once, in branch order, before anything is zipped
            at_call={meth: ["call_self is %s[len(results)]" % S, "len(out) == 0"]},
            # as many values as the shortest branch delivers
            ensures=[" or ".join("len(out) == len(%s)" % r for r in rs)] + ["len(out) <= len(%s)" % r for r in rs],
            notes="the zipped values themselves: Zip._yield")
    for meth in ("compute", "request"):
        ix.add(Contract(ZP, "Zip._%s" % meth, props=["C03"], cases=[driver(meth, 1), driver(meth, 2), driver(meth, 3)]))


# ---------------------------------------------------------------------------------------------- branch conversion (C05)
CT = "lena/core/check_sequence_type.py"
FCF = "lena/core/fill_compute_seq.py"
FRF = "lena/core/fill_request_seq.py"
IS_FC = "(has_attr({e}, 'fill') and has_attr({e}, 'compute') and callable_m({e}, 'fill') and callable_m({e}, 'compute'))"
IS_FR = "(has_attr({e}, 'fill') and has_attr({e}, 'request') and callable_m({e}, 'fill') and callable_m({e}, 'request'))"
HAS_RUN = "(has_attr({e}, 'run') and callable_m({e}, 'run'))"
# what Sequence accepts as an element (contracts/C01.py: Sequence.__init__)
SEQ_EL = "(" + HAS_RUN + " or callable({e}) or " + IS_FC + ")"
CLASSES = ("Source", "FillComputeSeq", "FillRequestSeq", "Sequence")
KIND_OF_CLASS = {"Source": "source", "FillComputeSeq": "fill_compute", "FillRequestSeq": "fill_request", "Sequence": "sequence"}


def as_sequence(r, e, k):
    """item k of the data sequence of the new Sequence `r` stands for the element `e` (C01 / C05: an element with run is
    taken as it is, any other one is wrapped into the Run adapter of that very element)"""
    hr = HAS_RUN.format(e=e)
    return ["implies(%s, %s._data_seq[%d] is %s)" % (hr, r, k, e),
            "implies(not %s, is_instance_of(%s._data_seq[%d], 'Run') and %s._data_seq[%d]._el is %s)" % (hr, r, k, r, k, e)]


def register_conversion(ix):
    """_get_seq_with_type: `Return a (sequence, type) pair.  Sequence is derived from seq (or is seq, if that is of a sequence
    type)`; Split.__init__: `seqs must be a list of Sequence, Source, FillComputeSeq or FillRequestSeq sequences` -- anything
    else is converted: `If no explicit type is given, check seq's methods`."""
    for fn in ("is_fill_compute_seq", "is_fill_request_seq", "is_source"):
        if (CT, fn) not in ix.by_key:
            ix.add(Contract(CT, fn, props=[], params={"seq": "Any"}, inline=True))
    # callers (Split.__init__, Zip.__init__) execute the conversion in place: every path of it is explored for every branch
    ix.add(Contract(SP, "_get_seq_with_type", props=[], params={"seq": "Any", "bufsize": "Any"}, inline=True))
    # ---- constructors of the two fill sequences: assumed (they are not under contract); ghost fields record the arguments
    for n in (1, 2):
        objs = ",".join(["Obj"] * n)
        ix.add_class(ClassSpec("FillComputeSeq_a%d" % n, FCF, alias_of="FillComputeSeq", fields={"_seq": "PyList[%d,Obj]" % n}))
        ix.add_class(ClassSpec("FillRequestSeq_a%d" % n, FRF, alias_of="FillRequestSeq",
                               fields={"_g_args": "PyList[%d,Obj]" % n, "_g_bufsize": "Int", "_g_reset": "Bool",
                                       "_g_buffer_input": "Bool"}))
    ix.add(Contract(FCF, "FillComputeSeq.__init__", props=[], trusted=True, cases=[
        Contract(FCF, "FillComputeSeq.__init__", name="FillComputeSeq.__init__[%d elements, assumed]" % n, trusted=True,
                 params={"self": "Self[FillComputeSeq_a%d]" % n, "args": "Tuple[%s]" % ",".join(["Obj"] * n)}, vararg="args",
                 raises={"LenaTypeError": "?"},
                 ensures=["self._seq[%d] is args[%d]" % (k, k) for k in range(n)], modifies=["self._seq"],
                 notes="assumed: LenaSequence.__init__ keeps the arguments as self._seq; may raise LenaTypeError")
        for n in (1, 2)]))
    ix.add(Contract(FRF, "FillRequestSeq.__init__", props=[], trusted=True, cases=[
        Contract(FRF, "FillRequestSeq.__init__", name="FillRequestSeq.__init__[%d elements, assumed]" % n, trusted=True,
                 params={"self": "Self[FillRequestSeq_a%d]" % n, "args": "Tuple[%s]" % ",".join(["Obj"] * n),
                         "kwargs": "KwDict[bufsize:Int,reset:Bool,buffer_input:Bool]"}, vararg="args", kwarg="kwargs",
                 raises={"LenaTypeError": "?", "LenaValueError": "?"},
                 ensures=["self._g_args[%d] is args[%d]" % (k, k) for k in range(n)] + [
                     "self._g_bufsize == kwargs['bufsize']", "self._g_reset == kwargs['reset']",
                     "self._g_buffer_input == kwargs['buffer_input']"],
                 modifies=["self._g_args", "self._g_bufsize", "self._g_reset", "self._g_buffer_input"],
                 notes="assumed: the constructor is not under contract; the ghost fields _g_* record its arguments")
        for n in (1, 2)]))
    # ---- one element
    INST = {c: "is_instance_of(seq, '%s')" % c for c in CLASSES}
    ANY_CLASS = "(" + " or ".join(INST[c] for c in CLASSES) + ")"
    NOT_ITER = "(not has_attr(seq, '__iter__') and not has_attr(seq, '__getitem__'))"
    fc, fr = IS_FC.format(e="seq"), IS_FR.format(e="seq")
    ens, before = [], []
    for c in CLASSES:          # an explicit sequence type wins, in this order
        cond = " and ".join(["not " + b for b in before] + [INST[c]])
        ens.append("%s implies result[0] is seq and result[1] == '%s'" % (cond, KIND_OF_CLASS[c]))
        before.append(INST[c])
    NOCLASS = "not " + ANY_CLASS
    ens += ["%s and %s implies result[0] is seq and result[1] == 'fill_compute'" % (NOCLASS, fc),
            "%s and not %s and %s implies result[0] is seq and result[1] == 'fill_request'" % (NOCLASS, fc, fr),
            "%s and not %s and not %s implies result[1] == 'sequence' and is_instance_of(result[0], 'Sequence') "
            "and len(result[0]._data_seq) == 1" % (NOCLASS, fc, fr)]
    ens += ["%s and not %s and not %s implies (%s)" % (NOCLASS, fc, fr, cl) for cl in as_sequence("result[0]", "seq", 0)]
    element = Contract(
        SP, "_get_seq_with_type", name="_get_seq_with_type[one element]",
        params={"seq": "Obj", "bufsize": "Int"}, result="Tuple[Any,Str]",
        requires=["%s or %s" % (ANY_CLASS, NOT_ITER), "not isinstance(seq, tuple)", "not has_attr(seq, '_has_no_data')"],
        # everything but a sequence object, a fill/compute or fill/request element, an element with run and a callable
        raises={"LenaTypeError": "not (%s or %s or %s or %s)" % (ANY_CLASS, fc, fr, SEQ_EL.format(e="seq"))},
        ensures=ens,
        notes="an element that is not iterable (or an object of one of the four sequence classes)")

    # ---- a tuple of two elements
    def pair(bty):
        e0, e1 = "seq[0]", "seq[1]"
        anyfc = "(%s or %s)" % (IS_FC.format(e=e0), IS_FC.format(e=e1))
        anyfr = "(%s or %s)" % (IS_FR.format(e=e0), IS_FR.format(e=e1))
        plain = "not %s and not %s" % (anyfc, anyfr)
        bad = "not %s or not %s" % (SEQ_EL.format(e=e0), SEQ_EL.format(e=e1))
        bs = "1" if bty == "None" else "bufsize"
        return Contract(
            SP, "_get_seq_with_type", name="_get_seq_with_type[tuple of two elements, bufsize %s]" % bty,
            params={"seq": "Tuple[Obj,Obj]", "bufsize": bty}, result="Tuple[Any,Str]",
            requires=["not has_attr(seq[0], '_has_no_data')", "not has_attr(seq[1], '_has_no_data')"],
            raises={"LenaTypeError": "?", "LenaValueError": "?"},
            # a tuple without a fill element is refused exactly when Sequence refuses one of its elements; LenaValueError can
            # only come from the constructor of FillRequestSeq (bufsize is validated by Split.__init__ after the conversion)
            exc_ensures={"LenaTypeError": ["%s or %s or %s" % (anyfc, anyfr, bad)],
                         "LenaValueError": ["not %s and %s" % (anyfc, anyfr)]},
            ensures=[
                "%s implies not (%s)" % (plain, bad),
                # a FillCompute element in the tuple: FillComputeSeq of the elements of the tuple
                "%s implies result[1] == 'fill_compute' and is_instance_of(result[0], 'FillComputeSeq') and "
                "result[0]._seq[0] is seq[0] and result[0]._seq[1] is seq[1]" % anyfc,
                # else a FillRequest element: FillRequestSeq of them, `bufsize=1 if bufsize is None else bufsize`, the
                # FillRequest element `decides itself when to reset`, filled `without a buffer`
                "not %s and %s implies result[1] == 'fill_request' and is_instance_of(result[0], 'FillRequestSeq') and "
                "result[0]._g_args[0] is seq[0] and result[0]._g_args[1] is seq[1] and result[0]._g_bufsize == %s and "
                "not result[0]._g_reset and result[0]._g_buffer_input" % (anyfc, anyfr, bs),
                # else a plain Sequence of the elements
                "%s implies result[1] == 'sequence' and is_instance_of(result[0], 'Sequence') and "
                "len(result[0]._data_seq) == 2" % plain] +
                ["%s implies (%s)" % (plain, cl) for k in (0, 1) for cl in as_sequence("result[0]", "seq[%d]" % k, k)])
    ix.add(Contract(SP, "_get_seq_with_type", qualkey="_get_seq_with_type#spec", props=["C05", "C03"],
                    cases=[element, pair("Int"), pair("None")]))


# ---------------------------------------------------------------------------------------------- Split.__init__
def kind_clauses(e, kind_of, same_of, seq_of):
    """clauses classifying the branch `e` (an element): its kind is `kind_of`, the stored branch `seq_of` is `e` itself
    unless e is a plain element (then a new Sequence of it)"""
    inst = {c: "is_instance_of(%s, '%s')" % (e, c) for c in CLASSES}
    anyc = "(" + " or ".join(inst[c] for c in CLASSES) + ")"
    fc, fr = IS_FC.format(e=e), IS_FR.format(e=e)
    out, before = [], []
    for c in CLASSES:
        cond = " and ".join(["not " + b for b in before] + [inst[c]])
        out.append("%s implies %s is %s and %s == '%s'" % (cond, seq_of, e, kind_of, KIND_OF_CLASS[c]))
        before.append(inst[c])
    out += ["not %s and %s implies %s is %s and %s == 'fill_compute'" % (anyc, fc, seq_of, e, kind_of),
            "not %s and not %s and %s implies %s is %s and %s == 'fill_request'" % (anyc, fc, fr, seq_of, e, kind_of),
            "not %s and not %s and not %s implies %s == 'sequence' and is_instance_of(%s, 'Sequence') and "
            "len(%s._data_seq) == 1" % (anyc, fc, fr, kind_of, seq_of, seq_of)]
    out += ["not %s and not %s and not %s implies (%s)" % (anyc, fc, fr, cl) for cl in as_sequence(seq_of, e, 0)]
    return out


def element_requires(e):
    inst = " or ".join("is_instance_of(%s, '%s')" % (e, c) for c in CLASSES)
    return ["(%s) or (not has_attr(%s, '__iter__') and not has_attr(%s, '__getitem__'))" % (inst, e, e),
            "not isinstance(%s, tuple)" % e, "not has_attr(%s, '_has_no_data')" % e, "not has_attr(%s, 'alter_sequence')" % e]


def convertible(e):
    inst = " or ".join("is_instance_of(%s, '%s')" % (e, c) for c in CLASSES)
    return "(%s or %s or %s or %s)" % (inst, IS_FC.format(e=e), IS_FR.format(e=e), SEQ_EL.format(e=e))


def register_init(ix):
    """Split.__init__: `seqs must be a list of Sequence, Source, FillComputeSeq or FillRequestSeq sequences.  If seqs is empty,
    Split acts as an empty Sequence ...  bufsize must be a natural number or None ...  If each sequence from seqs has a common
    type, Split creates methods corresponding to this type ...  In case of wrong initialization arguments, LenaTypeError or
    LenaValueError is raised.`"""
    MT = "lena/core/meta.py"
    ix.add(Contract(MT, "alter_sequence", props=[], trusted=True, cases=[
        Contract(MT, "alter_sequence", name="alter_sequence[element, assumed]", trusted=True,
                 params={"seq": "Obj"}, result="Obj", result_alias="seq", requires=["not has_attr(seq, 'alter_sequence')"],
                 notes="assumed (sequence alteration by meta elements is no subject of C03 - C05): an element, or a sequence "
                       "object none of whose elements defines alter_sequence, is returned as it is"),
        Contract(MT, "alter_sequence", name="alter_sequence[tuple of two elements, assumed]", trusted=True,
                 params={"seq": "Tuple[Obj,Obj]"}, result="Tuple[Obj,Obj]", result_alias="seq",
                 requires=["not has_attr(seq[0], 'alter_sequence')", "not has_attr(seq[1], 'alter_sequence')"],
                 notes="assumed: a tuple of elements none of which defines alter_sequence is returned as it is")]))
    # ---- LenaSplit.__init__: keeps the list of branches (the static context {} changes nothing)
    ix.add_class(ClassSpec("LenaSplit0", SP, alias_of="LenaSplit", fields={}))
    ix.add(Contract(SP, "LenaSplit.__init__", props=["C03"], cases=[
        Contract(SP, "LenaSplit.__init__", name="LenaSplit.__init__[any list, as proved for a list of elements]", trusted=True,
                 params={"self": "Self[LenaSplit0]", "seqs": "Any"}, ensures=["self._seqs is seqs"], modifies=["self._seqs"],
                 notes="the case below, for callers whose list holds elements and new sequence objects"),
        Contract(SP, "LenaSplit.__init__", name="LenaSplit.__init__[list of elements]", dict_model="Val",
                 params={"self": "Self[LenaSplit0]", "seqs": "Lst[Obj]"}, ensures=["self._seqs is seqs", "seqs == old(seqs)"],
                 modifies=["self._seqs"])]))
    ix.classes["Split"].bases = ["LenaSplit"]
    ix.add_class(ClassSpec("Split0", SP, alias_of="Split", fields={}, bases=["LenaSplit"]))
    MOD = ["self._seq_types", "self._n_seq_types", "self.fill", "self.compute", "self.request", "self.run", "self._copy_buf",
           "self._bufsize", "self._name", "self._seqs"]
    T = "self._seq_types"

    def common(n, bufsize_ok):
        """the clauses that do not depend on the kind of branch"""
        both = lambda k: " and ".join("%s[%d] == '%s'" % (T, i, k) for i in range(n)) if n else "False"
        cl = ["len(self._seqs) == %d" % n, "len(%s) == %d" % (T, n), "self._copy_buf == copy_buf", bufsize_ok,
              # `If seqs is empty, Split acts as an empty Sequence and yields all values it receives`; else the block schedule
              "self.run is class_method(self, '%s')" % ("run" if n else "_empty_run")]
        if n == 2:
            cl.append("self._n_seq_types == (1 if %s[0] == %s[1] else 2)" % (T, T))
        else:
            cl.append("self._n_seq_types == %d" % n)
        # common type: fill and compute / fill and request -- for these two types only, and only when ALL branches have it
        cl += ["%s implies self.fill is class_method(self, '_fill') and self.compute is class_method(self, '_compute') "
               "and not has_attr(self, 'request')" % both("fill_compute"),
               "%s implies self.fill is class_method(self, '_fill') and self.request is class_method(self, '_request') "
               "and not has_attr(self, 'compute')" % both("fill_request"),
               "not (%s) and not (%s) implies not has_attr(self, 'fill') and not has_attr(self, 'compute') and "
               "not has_attr(self, 'request')" % (both("fill_compute"), both("fill_request"))]
        return cl

    def init_case(n, bty):
        els = ["seqs[%d]" % i for i in range(n)]
        bad = " or ".join("not " + convertible(e) for e in els) or "False"
        if bty == "None":
            okb, raises = "self._bufsize is None", {"LenaTypeError": bad}
        else:
            okb = "self._bufsize == bufsize"
            small = "bufsize < 1" if bty == "Int" else "(bufsize != int(bufsize) or bufsize < 1)"
            # (a branch that cannot be converted is reported first)
            raises = {"LenaTypeError": bad, "LenaValueError": "not (%s) and %s" % (bad, small)}
        ens = common(n, okb)
        for i, e in enumerate(els):
            ens += kind_clauses(e, "%s[%d]" % (T, i), None, "self._seqs[%d]" % i)
        return Contract(
            SP, "Split.__init__", name="Split.__init__[%d element branch%s, bufsize %s]" % (n, "" if n == 1 else "es", bty),
            params={"self": "Self[Split0]", "seqs": "PyList[%d,Obj]" % n, "bufsize": bty, "copy_buf": "Bool"},
            requires=[r for e in els for r in element_requires(e)],
            raises=raises, ensures=ens, modifies=MOD, max_paths=20000,
            notes="branches that are elements / sequence objects (abstract); tuples: _get_seq_with_type")
    def tuple_case(bty):
        """one branch given as a tuple of two elements: `If no explicit type is given, check seq's methods`"""
        e0, e1, r = "seqs[0][0]", "seqs[0][1]", "self._seqs[0]"
        anyfc = "(%s or %s)" % (IS_FC.format(e=e0), IS_FC.format(e=e1))
        anyfr = "(%s or %s)" % (IS_FR.format(e=e0), IS_FR.format(e=e1))
        plain = "not %s and not %s" % (anyfc, anyfr)
        bad = "not %s or not %s" % (SEQ_EL.format(e=e0), SEQ_EL.format(e=e1))
        okb = "self._bufsize is None" if bty == "None" else "self._bufsize == bufsize"
        exc = {"LenaTypeError": ["%s or %s or %s" % (anyfc, anyfr, bad)]}
        if bty != "None":
            exc["LenaValueError"] = ["bufsize < 1 or (not %s and %s)" % (anyfc, anyfr)]
        else:
            exc["LenaValueError"] = ["not %s and %s" % (anyfc, anyfr)]
        return Contract(
            SP, "Split.__init__", name="Split.__init__[one tuple branch, bufsize %s]" % bty,
            params={"self": "Self[Split0]", "seqs": "PyList[1,Tuple[Obj,Obj]]", "bufsize": bty, "copy_buf": "Bool"},
            requires=["not has_attr(%s, '_has_no_data')" % e for e in (e0, e1)] +
                     ["not has_attr(%s, 'alter_sequence')" % e for e in (e0, e1)],
            raises={"LenaTypeError": "?", "LenaValueError": "?"}, exc_ensures=exc,
            ensures=common(1, okb) + [
                "%s implies not (%s)" % (plain, bad)] + (["bufsize >= 1"] if bty != "None" else []) + [
                "%s implies %s[0] == 'fill_compute' and is_instance_of(%s, 'FillComputeSeq') and "
                "%s._seq[0] is %s and %s._seq[1] is %s" % (anyfc, T, r, r, e0, r, e1),
                "not %s and %s implies %s[0] == 'fill_request' and is_instance_of(%s, 'FillRequestSeq') and "
                "%s._g_args[0] is %s and %s._g_args[1] is %s and %s._g_bufsize == %s and not %s._g_reset and %s._g_buffer_input"
                % (anyfc, anyfr, T, r, r, e0, r, e1, r, "1" if bty == "None" else "bufsize", r, r),
                "%s implies %s[0] == 'sequence' and is_instance_of(%s, 'Sequence') and len(%s._data_seq) == 2" % (plain, T, r, r)] +
                ["%s implies (%s)" % (plain, cl) for k, e in enumerate((e0, e1)) for cl in as_sequence(r, e, k)],
            modifies=MOD)
    ix.add(Contract(SP, "Split.__init__", props=["C03", "C05"], cases=[
        init_case(0, "Int"), init_case(1, "Int"), init_case(1, "None"), init_case(1, "Real"), init_case(2, "Int"),
        tuple_case("Int"), tuple_case("None"),
        # (the finding below is registered apart, see register_init_findings)
        Contract(SP, "Split.__init__", name="Split.__init__[seqs is not a list]",
                 params={"self": "Self[Split0]", "seqs": "Tuple[Obj]", "bufsize": "Int", "copy_buf": "Bool"},
                 raises={"LenaTypeError": "True"})]))


def register_zip_init(ix):
    """Zip.__init__: `Sequences seqs must be of one common type` -- fill/compute or fill/request (`Like Split, but zip output
    values into tuples`); the matching methods are installed; anything else: LenaTypeError (no sequence, a branch that cannot
    be converted, different types) or LenaNotImplementedError (Sources, plain Sequences)."""
    def kinds(e):
        inst = {c: "is_instance_of(%s, '%s')" % (e, c) for c in CLASSES}
        anyc = "(" + " or ".join(inst[c] for c in CLASSES) + ")"
        fc, fr = IS_FC.format(e=e), IS_FR.format(e=e)
        k = {"source": inst["Source"],
             "fill_compute": "((not %s and %s) or (not %s and %s))" % (inst["Source"], inst["FillComputeSeq"], anyc, fc),
             "fill_request": "((not %s and not %s and %s) or (not %s and not %s and %s))" % (
                 inst["Source"], inst["FillComputeSeq"], inst["FillRequestSeq"], anyc, fc, fr)}
        k["sequence"] = "(not %s and not %s and not %s)" % (k["source"], k["fill_compute"], k["fill_request"])
        return k
    ix.add_class(ClassSpec("Zip0", ZP, alias_of="Zip", fields={}))
    MOD = ["self._sequences", "self.fill", "self.compute", "self.request", "self.reset", "self._name", "self._namedtuple",
           "self._fields"]

    def zip_case(n):
        els = ["sequences[%d]" % i for i in range(n)]
        ks = [kinds(e) for e in els]
        bad = " or ".join("not " + convertible(e) for e in els)
        allk = lambda k: "(" + " and ".join(x[k] for x in ks) + ")"
        same = "(" + " or ".join(allk(k) for k in ("source", "fill_compute", "fill_request", "sequence")) + ")"
        terr = "(%s or not %s)" % (bad, same)
        ens = ["len(self._sequences) == %d" % n, "self._name == name", "self._namedtuple is None",
               "%s implies self.fill is class_method(self, '_fill') and self.compute is class_method(self, '_compute') and "
               "not has_attr(self, 'request') and not has_attr(self, 'reset')" % allk("fill_compute"),
               "%s implies self.fill is class_method(self, '_fill') and self.request is class_method(self, '_request') and "
               "self.reset is class_method(self, '_reset') and not has_attr(self, 'compute')" % allk("fill_request")]
        for i, e in enumerate(els):
            # fill/compute and fill/request elements and sequence objects are taken as they are
            ens.append("self._sequences[%d] is %s" % (i, e))
        return Contract(
            ZP, "Zip.__init__", name="Zip.__init__[%d element branch%s, no fields]" % (n, "" if n == 1 else "es"),
            params={"self": "Self[Zip0]", "sequences": "PyList[%d,Obj]" % n, "name": "Str", "fields": "PyList[0,Obj]"},
            requires=[r for e in els for r in element_requires(e)[:3]],
            raises={"LenaTypeError": terr,
                    "LenaNotImplementedError": "not %s and not %s and not %s" % (terr, allk("fill_compute"), allk("fill_request"))},
            ensures=ens, modifies=MOD, max_paths=20000)
    ix.add(Contract(ZP, "Zip.__init__", props=["C03", "C05"], cases=[
        zip_case(1), zip_case(2),
        Contract(ZP, "Zip.__init__", name="Zip.__init__[no sequences]",
                 params={"self": "Self[Zip0]", "sequences": "PyList[0,Obj]", "name": "Str", "fields": "PyList[0,Obj]"},
                 # `at least one sequence must be given`
                 raises={"LenaTypeError": "True"})]))


def register_init_findings(ix):
    """Split.__init__, docstring: `bufsize must be a natural number or None ...  In case of wrong initialization arguments,
    LenaTypeError or LenaValueError is raised`.  For a bufsize that is a non-numeric string the builtin ValueError of
    int(bufsize) escapes instead (also: TypeError for a list, ValueError for nan, OverflowError for inf).  A finding on the
    unchanged tree, not part of any property's check (props=[]):
        python3-vt tools/dbg.py lena/core/split.py "Split.__init__#finding-bufsize"
    replay: PYTHONPATH=/repo /venv/bin/python -c "import lena.core as c; c.Split([], bufsize='abc')"   -> ValueError"""
    ix.add(Contract(
        SP, "Split.__init__", qualkey="Split.__init__#finding-bufsize", name="Split.__init__[no branches, bufsize a string]",
        props=[],
        params={"self": "Self[Split0]", "seqs": "PyList[0,Obj]", "bufsize": "Str", "copy_buf": "Bool"},
        # a string is no natural number: one of the two documented exceptions, nothing else
        raises={"LenaValueError": "?", "LenaTypeError": "?"}, ensures=["False"],
        modifies=["self._seq_types", "self._n_seq_types", "self.run", "self._copy_buf", "self._bufsize", "self._name", "self._seqs"]))
