"""P_split -- C03 / C04 / C05: Split and Zip beyond the local disciplines of contracts/C03.py.  Sidecar contracts of
lena/core/split.py and lena/flow/zip.py.

Branches are abstract elements (DESIGN 2.3): el_source / el_run / el_fill / el_fill_stops / el_compute / el_request
denote what a branch does; `elstate(e)` is its state.  The branches of one Split / Zip are pairwise different objects
(filling one branch does not fill another); this is a precondition of every state-level contract here.

Reference functions of this module (registered below):
  fill_until_stop(e, s, xs, j, n) : state of e after `fill(xs[j]), fill(xs[j+1]), ...` from state s, until a fill signals
                                   LenaStopFill (that value is not filled) or xs[n-1] was filled -- what C05 calls
                                   "filled value by value (until it signals LenaStopFill)"
  cat_len(kind, seqs, k)          : total number of results of kind ('compute' | 'request' | 'source') of seqs[0..k)
  elstates() / state_in(snap, e)  : snapshot of all element states / the state of e in a snapshot (ghost)
  loop_iter(k)                    : the iterator the for-loop #k of the function runs over (ghost)"""
from pyvc.contracts import Contract, LoopSpec, ClassSpec

SP = "lena/core/split.py"
ZP = "lena/flow/zip.py"


# ---------------------------------------------------------------------------------------------- reference functions
def _register_spec_functions(ix):
    from pyvc.smt import T, I, lit_int
    from pyvc.sym import Opaque, Num, Str, Ref
    from pyvc.speclib import lst_term, obj_term, st_term
    from pyvc.interp import Unsupported

    def sp_elstates(ip, st, pos, kws):
        from pyvc.calls import elem_state
        if "$elst" not in st.env:
            elem_state(ip, st, Opaque(ip.reg.new("anyel", "Obj")))
        return Opaque(st.env["$elst"].t)

    def sp_state_in(ip, st, pos, kws):
        snap = pos[0]
        if not (isinstance(snap, Opaque) and snap.sort == "(Array Obj St)"):
            raise Unsupported("state_in: snapshot of element states expected")
        return Opaque(T("(select %s %s)" % (snap.t.s, obj_term(pos[1]).s), "St"))

    def sp_loop_iter(ip, st, pos, kws):
        k = lit_int(ip.num(pos[0]))
        it = st.notes.get("loop_it_%s" % k)
        if it is None:
            raise Unsupported("loop_iter(%s): that loop has not been entered on this path" % k)
        return it

    def sp_fill_until_stop(ip, st, pos, kws):
        reg = ip.reg
        sort = reg.lst("V")
        reg.ufun("el_fill", ["Obj", "St", "V"], "St")
        reg.ufun("el_fill_stops", ["Obj", "St", "V"], "Bool")
        reg.fun_decl("fill_until_stop",
                     "(define-fun-rec fill_until_stop ((e Obj) (s St) (xs {l}) (j Int) (n Int)) St "
                     "(ite (>= j n) s (ite (el_fill_stops e s (select (arr_{l} xs) j)) s "
                     "(fill_until_stop e (el_fill e s (select (arr_{l} xs) j)) xs (+ j 1) n))))".format(l=sort))
        xs = lst_term(ip, st, pos[2], sort)
        return Opaque(T("(fill_until_stop %s %s %s %s %s)" % (obj_term(pos[0]).s, st_term(pos[1]).s, xs.s,
                                                               ip.num(pos[3]).s, ip.num(pos[4]).s), "St"))

    def sp_cat_len(ip, st, pos, kws):
        """cat_len(kind, seqs, k): sum of len(el_<kind>(seqs[m], elstate(seqs[m]))) for m < k (states as they are now)"""
        from pyvc.calls import elem_state
        reg = ip.reg
        if not isinstance(pos[0], Str) or pos[0].s not in ("compute", "request", "source"):
            raise Unsupported("cat_len: kind must be 'compute', 'request' or 'source'")
        kind = pos[0].s
        lv, lo = reg.lst("V"), reg.lst("Obj")
        reg.need("St")
        if kind == "source":
            reg.ufun("el_source", ["Obj"], lv)
            item = "(len_{lv} (el_source (select (arr_{lo} ss) (- n 1))))"
        else:
            reg.ufun("el_" + kind, ["Obj", "St"], lv)
            item = "(len_{lv} (el_%s (select (arr_{lo} ss) (- n 1)) (select es (select (arr_{lo} ss) (- n 1)))))" % kind
        name = "cat_len_" + kind
        reg.fun_decl(name, ("(define-fun-rec {name} ((ss {lo}) (es (Array Obj St)) (n Int)) Int "
                            "(ite (<= n 0) 0 (+ ({name} ss es (- n 1)) " + item + ")))").format(name=name, lo=lo, lv=lv))
        if "$elst" not in st.env:
            elem_state(ip, st, Opaque(reg.new("anyel", "Obj")))
        return Num(T("(%s %s %s %s)" % (name, lst_term(ip, st, pos[1], lo).s, st.env["$elst"].t.s, ip.num(pos[2]).s), "Int"))

    for name, fn in [("elstates", sp_elstates), ("state_in", sp_state_in), ("loop_iter", sp_loop_iter),
                     ("fill_until_stop", sp_fill_until_stop), ("cat_len", sp_cat_len)]:
        ix.spec_names[name] = fn


# ---------------------------------------------------------------------------------------------- vocabulary of Split.run
A, TY = "active_seqs", "active_seq_types"
XS, N = "content(flow)", "len(content(flow))"
DISTINCT = "all(all(implies(i != j, {l}[i] is not {l}[j]) for j in range(len({l}))) for i in range(len({l})))"
ACT = ["0 <= ind <= n_of_active_seqs", "n_of_active_seqs == len(%s)" % A, "n_of_active_seqs == len(%s)" % TY]
LAZY = ["pulled(flow) <= _maxpull"]
NOSRC = "all(%s[k] != 'source' for k in range({n}))" % TY
# what a fill/compute branch will have been filled with when the whole flow has passed, from its state at entry ...
FINAL = "fill_until_stop({e}, state_in(_S0, {e}), %s, 0, %s)" % (XS, N)
# ... equals what remains to be done from its present state at position {p} of the flow
REM = "fill_until_stop({e}, elstate({e}), %s, {p}, %s)" % (XS, N)
BLOCK = ["_B >= 0", "len(orig_buf) == pulled(flow) - _B", "pulled(flow) <= %s" % N,
         "all(orig_buf[q] == %s[_B + q] for q in range(len(orig_buf)))" % XS]
BUF = ["len(buf) == len(orig_buf)", "all(buf[q] == orig_buf[q] for q in range(len(buf)))"]
OTHERS = "all(implies(k != ind, elstate({a}[k]) == state_in(_blk, {a}[k])) for k in range(len({a})))".format(a=A)


def yield_loop(k, extra=()):
    """a loop `for val in <result of a branch>: yield val`: the output grows by exactly that result, in order"""
    return LoopSpec(invariant=list(extra) + ["len(out) == _o%d + _i" % k,
                                            "all(out[_o%d + q] == content(loop_iter(%d))[q] for q in range(_i))" % (k, k)],
                    init_ghost={"_o%d" % k: "len(out)"}, ghost={"_o%d" % k: "Int"})


def register(ix):
    _register_spec_functions(ix)
    register_run_schedule(ix)


def register_run_schedule(ix):
    """Split.run, any number of branches of any kind, integer bufsize.  Clause by clause from the docstring of run / C03:
      * `The flow is divided into subslices of bufsize`: block k is content(flow)[_B : pulled(flow)], read at once;
      * `Each subslice is processed by sequences in the order of their initializer list`;
      * Source: called in the first block (or the final pass of an empty flow) only, all its values are yielded;
      * FillComputeSeq: `filled with values from each buffer, but yields values from compute only after the whole flow is
        finished` -- compute() is called on a branch exactly in the state  fill_until_stop(branch, state at entry, whole
        flow): either in the final pass (branch order), or at once when its fill signalled LenaStopFill (C05: finalised
        and dropped) -- hence independent of bufsize;
      * FillRequestSeq: `filled with the buffer contents.  After the buffer is finished, it yields all values from request()`;
      * Sequence: `called with run(buffer)`, every block; `the results are yielded for each buffer (and also if the flow was
        empty)`;
      * copy_buf: `the buffer for each sequence except the last one is a deep copy of the current buffer` (made for that
        branch in that very iteration: C04)."""
    inner = ACT + LAZY + BLOCK + ["not flow_was_empty", "len(orig_buf) >= 1"]
    I0 = "all(implies({ty}[k] == 'fill_compute', {fin} == {rem}) for k in range(len({a})))".format(
        ty=TY, a=A, fin=FINAL.format(e=A + "[k]"), rem=REM.format(e=A + "[k]", p="pulled(flow)"))
    I1 = "all(implies({ty}[k] == 'fill_compute', {fin} == {rem}) for k in range(len({a})))".format(
        ty=TY, a=A, fin=FINAL.format(e=A + "[k]"), rem=REM.format(e=A + "[k]", p="(pulled(flow) if k < ind else _B)"))
    DA = DISTINCT.format(l=A)
    # during the turn of branch `ind` the other branches stay as they were when the turn began (_blk)
    fill_fc = LoopSpec(invariant=["not stopped", OTHERS, "%s == %s" % (FINAL.format(e="seq"), REM.format(e="seq", p="_B + _i"))])
    fill_fr = LoopSpec(invariant=["not stopped", OTHERS,
        "fill_until_stop(seq, state_in(_blk, seq), {xs}, _B, pulled(flow)) == "
        "fill_until_stop(seq, elstate(seq), {xs}, _B + _i, pulled(flow))".format(xs=XS)])
    ix.add(Contract(
        SP, "Split.run", qualkey="Split.run#schedule", name="Split.run[schedule]", props=["C03", "C04", "C05"],
        params={"self": "Self[Split]", "flow": "Iter[V]"}, generator=True, yields="V", ghost={"elstate": True},
        requires=["pulled(flow) == 0", DISTINCT.format(l="self._seqs")],
        loops={
            0: LoopSpec(invariant=["0 <= n_of_active_seqs", "n_of_active_seqs == len(%s)" % A, "n_of_active_seqs == len(%s)" % TY,
                                   "pulled(flow) <= _maxpull", "_maxpull >= 0", "_nblk >= 0", "flow_was_empty == (_nblk == 0)",
                                   "flow_was_empty implies pulled(flow) == 0",
                                   "flow_was_empty or " + NOSRC.format(n="len(%s)" % TY), DA, I0,
                                   # no block yet: no branch has been touched
                                   "flow_was_empty implies all(elstate({a}[k]) == state_in(_S0, {a}[k]) "
                                   "for k in range(len({a})))".format(a=A)],
                        init_ghost={"_maxpull": "0", "_nblk": "0", "_S0": "elstates()"},
                        body_ghost={"_maxpull": "_maxpull + self._bufsize", "_nblk": "_nblk + 1", "_B": "pulled(flow)"},
                        ghost={"_maxpull": "Int", "_nblk": "Int", "_B": "Int"},
                        decreases="len(content(flow)) - pulled(flow)"),
            1: LoopSpec(invariant=inner + ["_nblk >= 1", NOSRC.format(n="ind"),
                                           "_nblk == 1 or " + NOSRC.format(n="len(%s)" % TY), DA, I1],
                        body_ghost={"_blk": "elstates()"},
                        decreases="n_of_active_seqs - ind"),
            2: yield_loop(2), 3: fill_fc, 4: yield_loop(4), 5: fill_fr, 6: yield_loop(6), 7: yield_loop(7),
            8: LoopSpec(invariant=[
                                          "all(implies({ty}[k] == 'fill_compute', elstate({a}[k]) == {fin}) "
                                          "for k in range(len({a})))".format(ty=TY, a=A, fin=FINAL.format(e=A + "[k]")), DA,
                                          "len(%s) == len(%s)" % (A, TY),
                                          "flow_was_empty implies all(implies(k >= _i, elstate({a}[k]) == state_in(_S0, {a}[k])) "
                                          "for k in range(len({a})))".format(a=A)]),
            9: yield_loop(9), 10: yield_loop(10), 11: yield_loop(11), 12: yield_loop(12),
        },
        # C02: nothing is pulled while results of a block are handed on
        at_yield=["pulled(flow) <= _maxpull"],
        at_call={
            # a branch is filled with the values of the current block, in order (value _i of the block in the _i-th call),
            # from a buffer made for it (C04)
            "fill": ["call_self is %s[ind]" % A, "call_args[0] == %s[_B + _i]" % XS, "call_args[0] == buf[_i]",
                     "not self._copy_buf or n_of_active_seqs - ind == 1 or (made_in_iteration(buf, 1) and is_deep_copy(buf))",
                     "%s[ind] == 'fill_compute' or %s[ind] == 'fill_request'" % (TY, TY)],
            # a plain Sequence runs on the whole block
            "run": ["in_loop(8) implies flow_was_empty and len(call_args[0]) == 0 and %s[_i] == 'sequence'" % TY,
                    "not in_loop(8) implies call_self is %s[ind] and %s[ind] == 'sequence'" % (A, TY),
                    "not in_loop(8) implies len(call_args[0]) == pulled(flow) - _B and "
                    "all(call_args[0][q] == %s[_B + q] for q in range(len(call_args[0])))" % XS,
                    "not in_loop(8) implies not self._copy_buf or n_of_active_seqs - ind == 1 or "
                    "(made_in_iteration(call_args[0], 1) and is_deep_copy(call_args[0]))"],
            # a Source produces its complete flow the first time it is reached
            "__call__": ["in_loop(8) implies flow_was_empty and %s[_i] == 'source'" % TY,
                         "not in_loop(8) implies _nblk == 1 and call_self is %s[ind] and %s[ind] == 'source'" % (A, TY)],
            # fill/compute: computed when everything it accepts has been filled -- the same state whatever bufsize
            "compute": ["elstate(call_self) == " + FINAL.format(e="call_self"),
                        "in_loop(8) implies call_self is %s[_i] and %s[_i] == 'fill_compute'" % (A, TY),
                        "not in_loop(8) implies call_self is %s[ind] and %s[ind] == 'fill_compute'" % (A, TY)],
            # fill/request: requested after every block, filled with exactly that block (until it signalled LenaStopFill)
            "request": ["in_loop(8) implies flow_was_empty and elstate(call_self) == state_in(_S0, call_self) "
                        "and %s[_i] == 'fill_request'" % TY,
                        "not in_loop(8) implies call_self is %s[ind] and %s[ind] == 'fill_request'" % (A, TY),
                        "not in_loop(8) implies elstate(call_self) == "
                        "fill_until_stop(call_self, state_in(_blk, call_self), %s, _B, pulled(flow))" % XS],
        },
        ensures=["pulled(flow) == %s" % N],
        modifies=["flow"],
        notes="integer bufsize; branches are pairwise different objects"))
