"""sidecar contracts (see tools/CONTRACTS_GUIDE.md)

P_hist -- histogram structure functions (properties C06, C11, C12).  Sidecar contracts of
lena/structures/hist_functions.py, lena/structures/histogram.py, lena/structures/split_into_bins.py."""
from pyvc.contracts import Contract, LoopSpec, ClassSpec
from pyvc.smt import T
from pyvc.sym import Num
from pyvc.speclib import lst_term
from pyvc.verify import Lemma

HF = "lena/structures/hist_functions.py"
HI = "lena/structures/histogram.py"
SB = "lena/structures/split_into_bins.py"


INCR = "all({a}[i] < {a}[i + 1] for i in range(len({a}) - 1))"


def incr(a):
    return INCR.format(a=a)


def mono(a):
    """pairwise form of strictly increasing"""
    return "all(all(implies(i < j, {a}[i] < {a}[j]) for j in range(len({a}))) for i in range(len({a})))".format(a=a)


def norm(i, n):
    """python index normalisation inside a clause: a negative index counts from the end"""
    return "({i} if {i} >= 0 else {i} + {n})".format(i=i, n=n)


def inrange(i, n):
    return "(-{n} <= {i} < {n})".format(i=i, n=n)


def register(ix):
    from pyvc import histlib
    histlib.register(ix)          # born(x), clock(), copy_of(c, x), new_object(c): ghost allocation clock
    register_get_bin_on_index(ix)
    register_init_bins(ix)
    register_histogram_init(ix)
    register_iter_bins(ix)
    register_integral(ix)
    register_get_bin_edges(ix)
    register_scale(ix)
    register_add(ix)
    register_nevents(ix)
    register_split_into_bins(ix)
    register_iter_cells(ix)
    register_lemmas(ix)


# ---------------------------------------------------------------------------------------------- get_bin_on_index
def register_get_bin_on_index(ix):
    """docstring: `Return bin corresponding to multidimensional index.  index can be a number or a list/tuple.  If index
    length is less than dimension of bins, a subarray of bins is returned.  In case of an index error, LenaIndexError is
    raised.`  An index is a Python index: -len <= i < len is in range and a negative one counts from the end (that is
    why a caller must not hand an underflow index -1 to this function: C06)."""
    def gboi(name, index_ty, bins_ty, res_ty, idx, depth, alias=None):
        # idx: list of clause texts of the index components
        sub = "bins"
        bad, cur = [], "bins"
        for d, i in enumerate(idx):
            bad.append("not " + inrange(i, "len(%s)" % cur))
            cur = "%s[%s]" % (cur, norm(i, "len(%s)" % cur))
        ens = []
        if alias is None:
            if res_ty.startswith("Lst"):
                ens = ["same(result, %s)" % cur]
            elif res_ty == "Obj":
                ens = ["result is %s" % cur]
            else:
                ens = ["result == %s" % cur]
        # `raises` as a chain: a later component is only looked at when the earlier ones are in range
        cond, pre = [], []
        for b in bad:
            cond.append("(%s)" % " and ".join(["not (%s)" % p for p in pre] + [b]) if pre else "(%s)" % b)
            pre.append(b)
        return Contract(HF, "get_bin_on_index", name="get_bin_on_index[%s]" % name,
                        params={"index": index_ty, "bins": bins_ty}, result=res_ty,
                        raises={"LenaIndexError": " or ".join(cond) if cond else "False"},
                        raises_frame="pure", ensures=ens, result_alias=alias)
    ix.add(Contract(
        HF, "get_bin_on_index", props=["C06", "C11", "C12"], inline=True,
        cases=[
            gboi("number, 1-d bins", "Int", "Lst[Real]", "Real", ["index"], 1),
            gboi("(i,), 1-d bins", "Tuple[Int]", "Lst[Real]", "Real", ["index[0]"], 1),
            gboi("[i], 1-d bins", "PyList[1,Int]", "Lst[Real]", "Real", ["index[0]"], 1),
            gboi("(i, j), 2-d bins", "Tuple[Int,Int]", "Lst[Lst[Real]]", "Real", ["index[0]", "index[1]"], 2),
            gboi("[i, j], 2-d bins", "PyList[2,Int]", "Lst[Lst[Real]]", "Real", ["index[0]", "index[1]"], 2),
            gboi("(i, j, k), 3-d bins", "Tuple[Int,Int,Int]", "Lst[Lst[Lst[Real]]]", "Real",
                 ["index[0]", "index[1]", "index[2]"], 3),
            # shorter index: a subarray (the very object, not a copy)
            gboi("number, 2-d bins: a row", "Int", "Lst[Lst[Real]]", "Lst[Real]", ["index"], 1),
            gboi("(i,), 2-d bins: a row", "Tuple[Int]", "Lst[Lst[Real]]", "Lst[Real]", ["index[0]"], 1),
            gboi("(), the bins themselves", "Tuple[]", "Lst[Real]", "Lst[Real]", [], 0, alias="bins"),
            # cells that are objects (SplitIntoBins)
            gboi("(i,), 1-d bins of elements", "Tuple[Int]", "Lst[Obj]", "Obj", ["index[0]"], 1),
            gboi("(i, j), 2-d bins of elements", "Tuple[Int,Int]", "Lst[Lst[Obj]]", "Obj", ["index[0]", "index[1]"], 2),
        ],
        notes="executed in place at call sites (the result may be a row OF the caller's bins: aliasing is kept)"))


# ---------------------------------------------------------------------------------------------- init_bins
def register_init_bins(ix):
    """docstring: `Initialize cells of the form edges with the given value.  Return bins filled with copies of value.
    ... If the value is mutable, use deepcopy = True (or the content of cells will be identical).`
    C11: `deep copy of the analysis per cell at construction`."""
    ALL1 = "all(result[i] == value for i in range(len(result)))"
    ALL2 = "all(all(result[i][j] == value for j in range(len(result[i]))) for i in range(len(result)))"
    # ---- cells that are objects (the analysis sequence of SplitIntoBins): ownership
    # "every cell is its OWN deep copy of the initial value": made by copy.deepcopy(value) during this call (so it is
    # neither the value itself nor anything that existed before) and no two cells are the same object
    def own(cell, rng):
        return ["deepcopy implies " + rng("copy_of(%s, value)" % cell),
                "deepcopy implies " + rng("is_deep_copy(%s)" % cell),
                "deepcopy implies " + rng("%s is not value" % cell),
                # (for callers that build several rows: the stamps of this call's objects)
                "deepcopy implies " + rng("old(clock()) <= born(%s) < clock()" % cell),
                "clock() >= old(clock())",
                "not deepcopy implies " + rng("%s is value" % cell)]
    r1 = lambda body: "all(%s for i in range(len(result)))" % body
    r2 = lambda body: "all(all(%s for j in range(len(result[i]))) for i in range(len(result)))" % body
    DISTINCT1 = "all(all(implies(i != j, {b}[i] is not {b}[j]) for j in range(len({b}))) for i in range(len({b})))"
    DISTINCT2 = ("all(all(all(all(implies(i != i2 or j != j2, {b}[i][j] is not {b}[i2][j2]) for j2 in range(len({b}[i2])))"
                 " for i2 in range(len({b}))) for j in range(len({b}[i]))) for i in range(len({b})))")
    b2 = lambda body: "all(all(%s for j in range(len(bins[i]))) for i in range(len(bins)))" % body
    obj_cases = [
        Contract(HF, "init_bins", name="init_bins[2-d edges, element]",
                 params={"edges": "PyList[2,Lst[Real]]", "value": "Obj", "deepcopy": "Bool"}, result="Lst[Lst[Obj]]",
                 defaults={"deepcopy": False}, ghost={"alloc": True},
                 requires=["len(edges[0]) >= 1", "len(edges[1]) >= 1"],
                 local_types={"bins": "Lst[Lst[Obj]]"},
                 loops={1: LoopSpec(invariant=[
                     "len(bins) == _i",
                     "all(len(bins[i]) == len(edges[1]) - 1 for i in range(len(bins)))",
                     "clock() >= old(clock())",
                     "deepcopy implies " + b2("copy_of(bins[i][j], value)"),
                     "deepcopy implies " + b2("is_deep_copy(bins[i][j])"),
                     "deepcopy implies " + b2("old(clock()) <= born(bins[i][j]) < clock()"),
                     "deepcopy implies " + DISTINCT2.format(b="bins"),
                     "not deepcopy implies " + b2("bins[i][j] is value")])},
                 ensures=["len(result) == len(edges[0]) - 1",
                          "all(len(result[i]) == len(edges[1]) - 1 for i in range(len(result)))"]
                 + own("result[i][j]", r2) + ["deepcopy implies " + DISTINCT2.format(b="result"),
                                               # (ground instance of the clauses above: the first cell)
                                               "deepcopy and len(result) > 0 and len(result[0]) > 0 implies "
                                               "result[0][0] is not value and copy_of(result[0][0], value)",
                                               "deepcopy and len(result) > 1 and len(result[0]) > 0 and len(result[1]) > 0 "
                                               "implies result[0][0] is not result[1][0]"]),
        Contract(HF, "init_bins", name="init_bins[[x-edges], element]",
                 params={"edges": "PyList[1,Lst[Real]]", "value": "Obj", "deepcopy": "Bool"}, result="Lst[Obj]",
                 defaults={"deepcopy": False}, ghost={"alloc": True},
                 requires=["len(edges[0]) >= 1"],
                 ensures=["len(result) == len(edges[0]) - 1"] + own("result[i]", r1)
                 + ["deepcopy implies " + DISTINCT1.format(b="result")]),
        Contract(HF, "init_bins", name="init_bins[1-d edges, element]",
                 params={"edges": "Lst[Real]", "value": "Obj", "deepcopy": "Bool"}, result="Lst[Obj]",
                 defaults={"deepcopy": False}, ghost={"alloc": True},
                 requires=["len(edges) >= 1"],
                 ensures=["len(result) == len(edges) - 1"] + own("result[i]", r1)
                 + ["deepcopy implies " + DISTINCT1.format(b="result")]),
    ]
    ix.add(Contract(
        HF, "init_bins", props=["C11", "C12", "C06"],
        cases=obj_cases[:2] + [
            # (concrete-length edge lists first: case selection goes by argument fit)
            Contract(HF, "init_bins", name="init_bins[2-d edges, number]",
                     params={"edges": "PyList[2,Lst[Real]]", "value": "Real", "deepcopy": "Bool"}, result="Lst[Lst[Real]]",
                     defaults={"value": 0, "deepcopy": False},
                     requires=["len(edges[0]) >= 1", "len(edges[1]) >= 1"],
                     local_types={"bins": "Lst[Lst[Real]]"},
                     loops={1: LoopSpec(invariant=[
                         "len(bins) == _i",
                         "all(len(bins[i]) == len(edges[1]) - 1 for i in range(len(bins)))",
                         "all(all(bins[i][j] == value for j in range(len(bins[i]))) for i in range(len(bins)))"])},
                     ensures=["len(result) == len(edges[0]) - 1",
                              "all(len(result[i]) == len(edges[1]) - 1 for i in range(len(result)))", ALL2]),
            Contract(HF, "init_bins", name="init_bins[[x-edges], number]",
                     params={"edges": "PyList[1,Lst[Real]]", "value": "Real", "deepcopy": "Bool"}, result="Lst[Real]",
                     defaults={"value": 0, "deepcopy": False},
                     requires=["len(edges[0]) >= 1"],
                     ensures=["len(result) == len(edges[0]) - 1", ALL1]),
            Contract(HF, "init_bins", name="init_bins[1-d edges, number]",
                     params={"edges": "Lst[Real]", "value": "Real", "deepcopy": "Bool"}, result="Lst[Real]",
                     defaults={"value": 0, "deepcopy": False},
                     requires=["len(edges) >= 1"],
                     ensures=["len(result) == len(edges) - 1", ALL1]),
        ] + obj_cases[2:]))


# ---------------------------------------------------------------------------------------------- histogram (1-d)
H1_FIELDS = {"edges": "Lst[Real]", "bins": "Lst[Real]", "n_out_of_range": "Real", "dim": "Int",
             "nbins": "PyList[1,Int]", "ranges": "PyList[1,Tuple[Real,Real]]"}
H1_INV = ["len(self.edges) >= 2", mono("self.edges"), "len(self.bins) == len(self.edges) - 1", "self.dim == 1",
          "self.nbins[0] == len(self.edges) - 1"]
H_ALL = ["self.edges", "self.bins", "self.n_out_of_range", "self.dim", "self._scale", "self.nbins", "self.ranges"]


def register_histogram_init(ix):
    """1-dimensional histogram objects.  `histogram`: scale not computed (self._scale is None, the state after __init__);
    `histogram_scaled`: a scale was computed or set before (self._scale is a number)."""
    ix.add_class(ClassSpec("histogram0", HI, fields={}, alias_of="histogram"))          # under construction
    ix.add_class(ClassSpec("histogram", HI, fields=dict(H1_FIELDS, _scale="None"), invariant=H1_INV))
    ix.add_class(ClassSpec("histogram_scaled", HI, fields=dict(H1_FIELDS, _scale="Real"), invariant=H1_INV,
                           alias_of="histogram"))
    bad_edges = "len(edges) <= 1 or not " + incr("edges")
    common = ["self.edges == edges", "self.n_out_of_range == 0", "self._scale is None", "self.dim == 1",
              "self.nbins[0] == len(edges) - 1", "self.ranges[0][0] == edges[0]",
              "self.ranges[0][1] == edges[len(edges) - 1]",
              # (the object invariant of `histogram`, established here)
              "len(self.edges) >= 2", incr("self.edges"), "len(self.bins) == len(self.edges) - 1"]
    ix.add(Contract(
        HI, "histogram.__init__", props=["C06", "C12"],
        cases=[
            Contract(HI, "histogram.__init__", name="histogram.__init__[dim=1, bins given]",
                     params={"self": "Self[histogram0]", "edges": "Lst[Real]", "bins": "Lst[Real]", "initial_value": "Real"},
                     defaults={"initial_value": 0},
                     raises={"LenaValueError": bad_edges + " or len(bins) != len(edges) - 1"},
                     ensures=common + ["self.bins == bins"], modifies=H_ALL),
            Contract(HI, "histogram.__init__", name="histogram.__init__[dim=1, bins None]",
                     params={"self": "Self[histogram0]", "edges": "Lst[Real]", "bins": "None", "initial_value": "Real"},
                     defaults={"bins": None, "initial_value": 0},
                     raises={"LenaValueError": bad_edges},
                     ensures=common + ["all(self.bins[i] == initial_value for i in range(len(self.bins)))"],
                     modifies=H_ALL),
        ]))


# ---------------------------------------------------------------------------------------------- iter_bins
def register_iter_bins(ix):
    """docstring: `Iterate on bins.  Yield (index, bin content).`  C12: conversions keep every cell once and in order."""
    ix.add(Contract(
        HF, "iter_bins", props=["C12"],
        cases=[
            Contract(HF, "iter_bins", name="iter_bins[a cell]",
                     params={"bins": "Real"}, generator=True, yields="Tuple[Tuple[],Real]",
                     out_def=("1", "k", "((), bins)"),
                     ensures=["len(out) == 1", "all(out[k] == ((), bins) for k in range(len(out)))"]),
            Contract(HF, "iter_bins", name="iter_bins[1-d bins]",
                     params={"bins": "Lst[Real]"}, generator=True, yields="Tuple[Tuple[Int],Real]",
                     loops={0: LoopSpec(invariant=[
                                "len(out) == _i0",
                                "all(out[k][0][0] == k and out[k][1] == bins[k] for k in range(len(out)))"]),
                            1: LoopSpec(invariant=[
                                "len(out) == _i0 + _i1", "_i0 < len(bins)",
                                "all(out[k][0][0] == k and out[k][1] == bins[k] for k in range(len(out)))"])},
                     # the k-th value handed out is cell k with its index
                     at_yield=["yielded[0][0] == len(out)", "yielded[1] == bins[len(out)]", "len(yielded[0]) == 1"],
                     # one (index, content) per cell, in order: the delivered sequence IS k -> ((k,), bins[k])
                     out_def=("len(bins)", "k", "((k,), bins[k])"),
                     ensures=["len(out) == len(bins)",
                              "all(out[k] == ((k,), bins[k]) for k in range(len(out)))"]),
        ]))


# ---------------------------------------------------------------------------------------------- integral
def sp_integral1d(ip, st, pos, kws):
    """integral1d(bins, edges, n): sum over the cells k < n of (edges[k+1] - edges[k]) * bins[k]  (reference function
    of the property text: `scale (integral of the histogram)`, over the reals)"""
    reg = ip.reg
    lr = reg.lst("Real")
    reg.fun_decl("integral1d",
                 "(define-fun-rec integral1d ((b %s) (e %s) (n Int)) Real (ite (<= n 0) 0.0 (+ (integral1d b e (- n 1)) "
                 "(* (- (select (arr_%s e) n) (select (arr_%s e) (- n 1))) (select (arr_%s b) (- n 1))))))" % (lr, lr, lr, lr, lr))
    b = lst_term(ip, st, pos[0], lr)
    e = lst_term(ip, st, pos[1], lr)
    return Num(T("(integral1d %s %s %s)" % (b.s, e.s, ip.num(pos[2]).s), "Real"))


def register_integral(ix):
    ix.spec_names["integral1d"] = sp_integral1d
    ix.add(Contract(
        HF, "integral", props=["C12"],
        cases=[
            Contract(HF, "integral", name="integral[1-d: bins, [edges]]",
                     params={"bins": "Lst[Real]", "edges": "PyList[1,Lst[Real]]"}, result="Real",
                     requires=["len(bins) == len(edges[0]) - 1"],
                     loops={0: LoopSpec(invariant=["total == integral1d(bins, edges[0], _i)"], ghost={"total": "Real"})},
                     ensures=["result == integral1d(bins, edges[0], len(bins))"]),
        ]))


# ---------------------------------------------------------------------------------------------- get_bin_edges
def register_get_bin_edges(ix):
    """docstring: `In one-dimensional case index must be an integer and a tuple of (x_low_edge, x_high_edge) for that bin
    is returned.  In a multidimensional case index is a container of numeric indices in each dimension.  A list of bin
    edges in each dimension is returned.`  A bin index i addresses the bin [edges[i], edges[i+1])."""
    def md(n):
        req, ens = [], ["len(result) == %d" % n]
        for d in range(n):
            req.append("0 <= index[{d}] < len(edges[{d}]) - 1".format(d=d))
            ens += ["result[{d}][0] == edges[{d}][index[{d}]]".format(d=d),
                    "result[{d}][1] == edges[{d}][index[{d}] + 1]".format(d=d)]
        return Contract(HF, "get_bin_edges", name="get_bin_edges[%d-d edges in a list]" % n,
                        params={"index": "Tuple[%s]" % ",".join(["Int"] * n), "edges": "PyList[%d,Lst[Real]]" % n},
                        result="PyList[%d,Tuple[Real,Real]]" % n, requires=req, ensures=ens)
    ix.add(Contract(
        HF, "get_bin_edges", props=["C12", "C11"],
        cases=[
            md(1), md(2), md(3),
            Contract(HF, "get_bin_edges", name="get_bin_edges[1-d edges, number]",
                     params={"index": "Int", "edges": "Lst[Real]"}, result="Tuple[Real,Real]",
                     requires=["0 <= index < len(edges) - 1"],
                     ensures=["result[0] == edges[index]", "result[1] == edges[index + 1]"]),
            Contract(HF, "get_bin_edges", name="get_bin_edges[1-d edges, (i,)]",
                     params={"index": "Tuple[Int]", "edges": "Lst[Real]"}, result="Tuple[Real,Real]",
                     requires=["0 <= index[0] < len(edges) - 1"],
                     ensures=["result[0] == edges[index[0]]", "result[1] == edges[index[0] + 1]"]),
        ]))


# ---------------------------------------------------------------------------------------------- histogram.scale (1-d)
MM = "lena/math/meshes.py"
SC = "integral1d(self.bins, self.edges, len(self.bins))"


def register_scale(ix):
    """docstring: `If other is None, return scale of this histogram.  If its scale was not computed before, it is computed
    and stored for subsequent use (unless explicitly asked to recompute). ... If a float other is provided, rescale self
    to other.  Histograms with scale equal to zero can't be rescaled.  LenaValueError is raised if one tries to do that.`
    C12: rescaling to s multiplies exactly the contents (bins and n_out_of_range) by s / old scale, leaves edges
    untouched; the old scale is the stored one when it was computed before (it must be recomputed explicitly)."""
    # tiny helpers executed in place from their real ASTs
    ix.add(Contract(HF, "unify_1_md", props=[], params={"bins": "Any", "edges": "Any"}, inline=True))
    ix.add(Contract(MM, "md_map", props=[], params={"f": "Any", "arrays": "Any"}, inline=True))

    def rescaled(old_scale):
        return ["len(self.bins) == old(len(self.bins))",
                "all(self.bins[i] == old(self.bins[i]) * other / %s for i in range(len(self.bins)))" % old_scale,
                "self.n_out_of_range == old(self.n_out_of_range) * (other / %s)" % old_scale,
                "self._scale == other"]
    untouched = ["len(self.bins) == old(len(self.bins))",
                 "all(self.bins[i] == old(self.bins[i]) for i in range(len(self.bins)))",
                 "self.n_out_of_range == old(self.n_out_of_range)"]
    ix.add(Contract(
        HI, "histogram.scale", props=["C12"],
        cases=[
            Contract(HI, "histogram.scale", name="histogram.scale[get, not computed before]",
                     params={"self": "Self[histogram]", "other": "None", "recompute": "Bool"}, result="Real",
                     defaults={"other": None, "recompute": False}, post_class="histogram_scaled",
                     ensures=["result == " + SC, "self._scale == result"], modifies=["self._scale"]),
            Contract(HI, "histogram.scale", name="histogram.scale[get, computed before]",
                     params={"self": "Self[histogram_scaled]", "other": "None", "recompute": "Bool"}, result="Real",
                     defaults={"other": None, "recompute": False},
                     ensures=["result == (%s if recompute else old(self._scale))" % SC, "self._scale == result"],
                     modifies=["self._scale"]),
            Contract(HI, "histogram.scale", name="histogram.scale[set, not computed before]",
                     params={"self": "Self[histogram]", "other": "Real", "recompute": "Bool"}, result=None,
                     defaults={"recompute": False}, post_class="histogram_scaled",
                     raises={"LenaValueError": SC + " == 0"},
                     exc_ensures={"LenaValueError": untouched},
                     lemmas=["integral1d_scaled(self.bins, old(self.bins), self.edges, other, old(%s), len(self.bins))" % SC],
                     # C12: the recomputed scale equals the requested one (over the reals)
                     ensures=rescaled("old(%s)" % SC) + [SC + " == other"],
                     modifies=["self.bins", "self.n_out_of_range", "self._scale"]),
            Contract(HI, "histogram.scale", name="histogram.scale[set, computed before]",
                     params={"self": "Self[histogram_scaled]", "other": "Real", "recompute": "Bool"}, result=None,
                     defaults={"recompute": False},
                     raises={"LenaValueError": "self._scale == 0"},
                     exc_ensures={"LenaValueError": untouched + ["self._scale == old(self._scale)"]},
                     lemmas=["integral1d_scaled(self.bins, old(self.bins), self.edges, other, old(self._scale), len(self.bins))"],
                     # the true integral is rescaled by the same factor (it equals `other` iff the stored scale was current)
                     ensures=rescaled("old(self._scale)") + ["%s == old(%s) * other / old(self._scale)" % (SC, SC),
                                                             "old(self._scale) == old(%s) implies %s == other" % (SC, SC)],
                     modifies=["self.bins", "self.n_out_of_range", "self._scale"]),
        ]))


# ---------------------------------------------------------------------------------------------- isclose, histogram.add
MU = "lena/math/utils.py"
CLOSE = "(abs({a} - {b}) <= max(rel_tol * max(abs({a}), abs({b})), abs_tol))"


def register_add(ix):
    """histogram.add docstring: `For each bin, the corresponding bin of other is added.  It can be multiplied with weight.
    ... Histograms must have the same edges.  They are compared approximately using math.isclose with edges_abs_tol and
    edges_rel_tol`.  C12: `histogram.add returns the cell-wise a + w*b without modifying its operands and only for equal
    edges`."""
    ix.add(Contract(MU, "_isclose", props=[], params={"a": "Any", "b": "Any", "rel_tol": "Any", "abs_tol": "Any"}, inline=True))
    ix.add(Contract(
        MU, "isclose", props=["C12"],
        cases=[
            Contract(MU, "isclose", name="isclose[numbers]",
                     params={"a": "Real", "b": "Real", "rel_tol": "Real", "abs_tol": "Real"}, result="Bool",
                     defaults={"rel_tol": 1e-09, "abs_tol": 0.0},
                     ensures=["result == " + CLOSE.format(a="a", b="b")]),
            Contract(MU, "isclose", name="isclose[lists of numbers]",
                     params={"a": "Lst[Real]", "b": "Lst[Real]", "rel_tol": "Real", "abs_tol": "Real"}, result="Bool",
                     defaults={"rel_tol": 1e-09, "abs_tol": 0.0},
                     requires=["len(a) <= len(b)"],
                     loops={0: LoopSpec(invariant=["all(%s for k in range(_i))" % CLOSE.format(a="a[k]", b="b[k]")])},
                     ensures=["result == all(%s for k in range(len(a)))" % CLOSE.format(a="a[k]", b="b[k]")]),
        ]))
    # histogram objects whatever their cached scale: add() neither reads nor writes `_scale`
    ix.add_class(ClassSpec("histogram_any", HI, fields=H1_FIELDS, invariant=H1_INV, alias_of="histogram"))
    EDGES_CLOSE = "all(%s for k in range(len(self.edges)))" % CLOSE.format(a="self.edges[k]", b="other.edges[k]") \
        .replace("rel_tol", "edges_rel_tol").replace("abs_tol", "edges_abs_tol")
    ix.add(Contract(
        HI, "histogram.add", props=["C12"],
        cases=[
            Contract(HI, "histogram.add", name="histogram.add[1-d histograms]",
                     params={"self": "Self[histogram_any]", "other": "Inst[histogram_any]", "weight": "Real",
                             "edges_abs_tol": "Real", "edges_rel_tol": "Real"},
                     defaults={"weight": 1, "edges_abs_tol": 0.0, "edges_rel_tol": 1e-09},
                     result="Inst[histogram]",
                     requires=[inv.replace("self.", "other.") for inv in H1_INV],      # other is a histogram as well
                     # only for equal edges (same number of bins, every edge close within the tolerances)
                     raises={"LenaValueError": "len(self.edges) != len(other.edges) or not " + EDGES_CLOSE},
                     ensures=["result is not self and result is not other",
                              "len(result.bins) == len(self.bins)",
                              "all(result.bins[i] == self.bins[i] + weight * other.bins[i] for i in range(len(result.bins)))",
                              "result.n_out_of_range == self.n_out_of_range + weight * other.n_out_of_range",
                              # (ground instance of the cell-wise clause: the first cell)
                              "len(result.bins) > 0 and result.bins[0] == self.bins[0] + weight * other.bins[0]",
                              "result.edges == self.edges", "result._scale is None", "result.dim == 1",
                              "result.nbins[0] == self.nbins[0]"],
                     modifies=[],       # operands unmodified: every field and list of self and other (frame)
                     raises_frame="pure"),
            Contract(HI, "histogram.add", name="histogram.add[other is not a histogram]",
                     params={"self": "Self[histogram_any]", "other": "V", "weight": "Real",
                             "edges_abs_tol": "Real", "edges_rel_tol": "Real"},
                     defaults={"weight": 1, "edges_abs_tol": 0.0, "edges_rel_tol": 1e-09},
                     requires=["not is_instance_of(other, 'histogram')"],
                     raises={"LenaTypeError": "True"}, raises_frame="pure"),
        ]))


# ---------------------------------------------------------------------------------------------- get_nevents / set_nevents
NEV = "lsum(self.bins, len(self.bins))"


def register_nevents(ix):
    """get_nevents docstring: `If the histogram was filled N times, return N.  If the histogram was filled with weights
    w_i, return the sum of w_i.  Values filled outside the histogram range are not counted unless include_out_of_range`
    -- i.e. the sum of the bin contents (plus n_out_of_range).  set_nevents: `Scale histogram bins to contain nevents
    ... n_out_of_range is scaled together with the histogram bins.  Rescaling a histogram with zero entries raises a
    LenaValueError.`"""
    total = "(%s + (self.n_out_of_range if include_out_of_range else 0))" % NEV
    ix.add(Contract(
        HI, "histogram.get_nevents", props=["C12"],
        params={"self": "Self[histogram_any]", "include_out_of_range": "Bool"}, result="Real",
        defaults={"include_out_of_range": False},
        ensures=["result == " + total], modifies=[]))
    ix.add(Contract(
        HI, "histogram.set_nevents", props=["C12"],
        params={"self": "Self[histogram_any]", "nevents": "Real", "include_out_of_range": "Bool"}, result=None,
        defaults={"include_out_of_range": False},
        raises={"LenaValueError": total + " == 0"},
        exc_ensures={"LenaValueError": ["self.n_out_of_range == old(self.n_out_of_range)"]},
        lemmas=["lsum_scaled(self.bins, old(self.bins), nevents, old(%s), len(self.bins))" % total],
        # C12: set_nevents(n) makes get_nevents() equal n (same include_out_of_range)
        ensures=["%s == nevents" % total,
                 "len(self.bins) == old(len(self.bins))",
                 "all(self.bins[i] == old(self.bins[i]) * nevents / old(%s) for i in range(len(self.bins)))" % total,
                 "self.n_out_of_range == old(self.n_out_of_range) * (nevents / old(%s))" % total],
        modifies=["self.bins", "self.n_out_of_range"]))


# ---------------------------------------------------------------------------------------------- SplitIntoBins.fill
def sp_el_fill_pair(ip, st, pos, kws):
    """el_fill_pair(el, s, data, context): state of el after fill((data, context)) in state s"""
    from pyvc.dicts import dterm
    from pyvc.sym import Opaque
    f = ip.reg.ufun("el_fill", ["Obj", "St", "V"], "St")
    g = ip.reg.ufun("mkpair_ctx", ["V", "Val"], "V")
    v = "(%s %s %s)" % (g, pos[2].t.s, dterm(ip, st, pos[3]).s)
    return Opaque(T("(%s %s %s %s)" % (f, pos[0].t.s, pos[1].t.s, v), "St"))


def sp_el_fill_pair_stops(ip, st, pos, kws):
    from pyvc.dicts import dterm
    from pyvc.sym import Bool
    f = ip.reg.ufun("el_fill_stops", ["Obj", "St", "V"], "Bool")
    g = ip.reg.ufun("mkpair_ctx", ["V", "Val"], "V")
    v = "(%s %s %s)" % (g, pos[2].t.s, dterm(ip, st, pos[3]).s)
    return Bool(T("(%s %s %s %s)" % (f, pos[0].t.s, pos[1].t.s, v), "Bool"))


def _elst(ip, st):
    cur = st.env.get("$elst")
    old = ip.oldst.env.get("$elst") if ip.oldst is not None else None
    if cur is None or old is None:
        from pyvc.interp import Unsupported
        raise Unsupported("element-state frame clause in a contract without ghost elstate")
    return cur.t, old.t


def sp_elstate_only(ip, st, pos, kws):
    """elstate_only(el): no element other than el changed its state since the pre-state"""
    from pyvc.sym import Bool
    cur, old = _elst(ip, st)
    e = pos[0].t.s
    return Bool(T("(= %s (store %s %s (select %s %s)))" % (cur.s, old.s, e, cur.s, e), "Bool"))


def sp_elstate_same(ip, st, pos, kws):
    """elstate_same(): no element changed its state since the pre-state"""
    from pyvc.sym import Bool
    cur, old = _elst(ip, st)
    return Bool(T("(= %s %s)" % (cur.s, old.s), "Bool") if cur.s != old.s else T("true", "Bool"))


def register_split_into_bins(ix):
    """SplitIntoBins.fill docstring: `Fill the cell corresponding to arg_var(val) with val.  Values outside the edges are
    ignored.`  C11: fill routes by get_bin_on_value (cell k holds the values with edges[k] <= arg < edges[k+1]) and
    ignores under/overflow; the stored context is a deep copy (`deep copy, because internal sequences may modify
    context`), i.e. it is taken before the cell sees the value."""
    for n, f in [("el_fill_pair", sp_el_fill_pair), ("el_fill_pair_stops", sp_el_fill_pair_stops),
                 ("elstate_only", sp_elstate_only), ("elstate_same", sp_elstate_same)]:
        ix.spec_names[n] = f
    DIST1 = "all(all(implies(i != j, self.bins[i] is not self.bins[j]) for j in range(len(self.bins))) for i in range(len(self.bins)))"
    ix.add_class(ClassSpec(
        "SplitIntoBins_1d", SB, alias_of="SplitIntoBins",
        fields={"bins": "Lst[Obj]", "edges": "Lst[Real]", "_arg_func": "Fn[V,Real]", "_cur_context": "Dict"},
        # cells are private deep copies of the analysis (init_bins(edges, seq, deepcopy=True)): pairwise different objects
        invariant=["len(self.edges) >= 2", mono("self.edges"), "len(self.bins) == len(self.edges) - 1", DIST1]))
    X = "self._arg_func({data})"
    INCELL = "(self.edges[k] <= {x} < self.edges[k + 1])"
    INR = "(self.edges[0] <= {x} < self.edges[len(self.edges) - 1])"

    def fill_1d(name, val_ty, data, ctx_now, ctx_old, requires, extra_mod):
        x = X.format(data=data)
        incell, inr = INCELL.format(x=x), INR.format(x=x)
        filled = "el_fill_pair(self.bins[k], old(elstate(self.bins[k])), %s, %s)" % (data, ctx_old) if ctx_old else \
                 "el_fill(self.bins[k], old(elstate(self.bins[k])), val)"
        stops = "el_fill_pair_stops(self.bins[k], elstate(self.bins[k]), %s, %s)" % (data, ctx_now) if ctx_old else \
                "el_fill_stops(self.bins[k], elstate(self.bins[k]), val)"
        ens = [
            # exactly the cell get_bin_on_value gives sees the value, every other cell (and any other element) keeps its state
            "all(elstate(self.bins[k]) == (%s if %s else old(elstate(self.bins[k]))) for k in range(len(self.bins)))" % (filled, incell),
            "all(implies(%s, elstate_only(self.bins[k])) for k in range(len(self.bins)))" % incell,
            # the stored context: a deep copy of the value's context as it ARRIVED
            "%s implies is_deep_copy(self._cur_context)" % inr,
            "%s implies self._cur_context == %s" % (inr, ctx_old or "vctx(val)"),
            # values outside the edges are ignored completely
            "not %s implies elstate_same()" % inr,
            "not %s implies self._cur_context == old(self._cur_context)" % inr,
        ]
        if ctx_old:
            ens.append("not %s implies %s == %s" % (inr, ctx_now, ctx_old))
        return Contract(
            SB, "SplitIntoBins.fill", name="SplitIntoBins.fill[1-d, %s]" % name, dict_model="Val",
            params={"self": "Self[SplitIntoBins_1d]", "val": val_ty}, result=None, requires=requires,
            ghost={"elstate": True, "fill_mutates_context": True},
            # the cell's own fill may signal LenaStopFill: it is the cell the value belongs to that decides
            raises={"LenaStopFill": "any(%s and %s for k in range(len(self.bins)))" % (incell, stops)},
            # ownership: when the cell is filled the context kept for compute() has already been copied
            at_call={"fill": ["is_deep_copy(context)", "call_args[0] is val"]},
            ensures=ens, modifies=["self._cur_context"] + extra_mod)
    # ---- 2-d edges
    DIST2 = ("all(all(all(all(implies(i != i2 or j != j2, self.bins[i][j] is not self.bins[i2][j2]) for j2 in range(len(self.bins[i2])))"
             " for i2 in range(len(self.bins))) for j in range(len(self.bins[i]))) for i in range(len(self.bins)))")
    ix.add_class(ClassSpec(
        "SplitIntoBins_2d", SB, alias_of="SplitIntoBins",
        fields={"bins": "Lst[Lst[Obj]]", "edges": "PyList[2,Lst[Real]]", "_arg_func": "Fn[V,Tuple[Real,Real]]",
                "_cur_context": "Dict"},
        invariant=["len(self.edges[0]) >= 2", "len(self.edges[1]) >= 2", mono("self.edges[0]"), mono("self.edges[1]"),
                   "len(self.bins) == len(self.edges[0]) - 1",
                   "all(len(self.bins[i]) == len(self.edges[1]) - 1 for i in range(len(self.bins)))", DIST2]))

    def fill_2d(name, val_ty, data, ctx_now, ctx_old, requires, extra_mod):
        x = X.format(data=data)
        incell = "(self.edges[0][i] <= {x}[0] < self.edges[0][i + 1] and self.edges[1][j] <= {x}[1] < self.edges[1][j + 1])".format(x=x)
        inr = ("(self.edges[0][0] <= {x}[0] < self.edges[0][len(self.edges[0]) - 1] and "
               "self.edges[1][0] <= {x}[1] < self.edges[1][len(self.edges[1]) - 1])").format(x=x)
        cell = "self.bins[i][j]"
        filled = "el_fill_pair(%s, old(elstate(%s)), %s, %s)" % (cell, cell, data, ctx_old) if ctx_old else \
                 "el_fill(%s, old(elstate(%s)), val)" % (cell, cell)
        stops = "el_fill_pair_stops(%s, elstate(%s), %s, %s)" % (cell, cell, data, ctx_now) if ctx_old else \
                "el_fill_stops(%s, elstate(%s), val)" % (cell, cell)
        allij = lambda body: "all(all(%s for j in range(len(self.bins[i]))) for i in range(len(self.bins)))" % body
        ens = [
            allij("elstate(%s) == (%s if %s else old(elstate(%s)))" % (cell, filled, incell, cell)),
            allij("implies(%s, elstate_only(%s))" % (incell, cell)),
            "%s implies is_deep_copy(self._cur_context)" % inr,
            "%s implies self._cur_context == %s" % (inr, ctx_old or "vctx(val)"),
            "not %s implies elstate_same()" % inr,
            "not %s implies self._cur_context == old(self._cur_context)" % inr,
        ]
        if ctx_old:
            ens.append("not %s implies %s == %s" % (inr, ctx_now, ctx_old))
        return Contract(
            SB, "SplitIntoBins.fill", name="SplitIntoBins.fill[2-d, %s]" % name, dict_model="Val",
            params={"self": "Self[SplitIntoBins_2d]", "val": val_ty}, result=None, requires=requires,
            ghost={"elstate": True, "fill_mutates_context": True},
            raises={"LenaStopFill": "any(any(%s and %s for j in range(len(self.bins[i]))) for i in range(len(self.bins)))" % (incell, stops)},
            at_call={"fill": ["is_deep_copy(context)", "call_args[0] is val"]},
            ensures=ens, modifies=["self._cur_context"] + extra_mod)
    ix.add(Contract(
        SB, "SplitIntoBins.fill", props=["C11"],
        cases=[
            fill_2d("(data, context)", "Tuple[V,Dict]", "val[0]", "val[1]", "old(val[1])", ["isdict(val[1])"], ["val[1]"]),
            fill_2d("flow value", "V", "(vdata(val) if v_has_context(val) else val)", None, None, [], []),
            fill_1d("(data, context)", "Tuple[V,Dict]", "val[0]", "val[1]", "old(val[1])", ["isdict(val[1])"], ["val[1]"]),
            # an abstract flow value (a pair or bare data: v_has_context tells; vctx(v) is {} for bare data)
            fill_1d("flow value", "V", "(vdata(val) if v_has_context(val) else val)", None, None, [], []),
        ]))


# ---------------------------------------------------------------------------------------------- iter_bins_with_edges, iter_cells
def register_iter_cells(ix):
    """iter_bins_with_edges docstring: `Generate (bin content, bin edges) pairs.  Bin edges is a tuple, such that its item
    at index i is (lower bound, upper bound) of the bin at i-th coordinate.`
    iter_cells docstring: `For each bin, yield a HistCell containing bin edges, bin content and bin index.  The order of
    iteration is the same as for iter_bins.  ranges are the ranges of bin indices to be used for each coordinate (the
    lower value is included, the upper value is excluded). ... None as an upper or lower range means no limit ... If a
    range index is lower than 0 or higher than possible index, LenaValueError is raised.`
    C12: iter_bins, iter_bins_with_edges and iter_cells agree on content, index and edges."""
    ix.add(Contract(
        HF, "iter_bins_with_edges", props=["C12"],
        cases=[
            Contract(HF, "iter_bins_with_edges", name="iter_bins_with_edges[1-d]",
                     params={"bins": "Lst[Real]", "edges": "Lst[Real]"}, generator=True,
                     yields="Tuple[Real,Tuple[Tuple[Real,Real]]]",
                     requires=["len(edges) >= 1", "len(bins) == len(edges) - 1"],
                     # (the function rebinds its parameter `edges` to [edges]: old(edges) is the argument)
                     loops={0: LoopSpec(invariant=[
                         "len(out) == _i",
                         "all(out[k] == (bins[k], ((old(edges)[k], old(edges)[k + 1]),)) for k in range(len(out)))"])},
                     at_yield=["yielded[0] == bins[len(out)]", "yielded[1][0][0] == old(edges)[len(out)]",
                               "yielded[1][0][1] == old(edges)[len(out) + 1]"],
                     out_def=("len(bins)", "k", "(bins[k], ((edges[k], edges[k + 1]),))"),
                     ensures=["len(out) == len(bins)",
                              "all(out[k] == (bins[k], ((edges[k], edges[k + 1]),)) for k in range(len(out)))"]),
        ]))
    # ---- iter_cells, 1-d histogram
    HREQ = [inv.replace("self.", "hist.") for inv in H1_INV]

    def cells(name, ranges_ty, low, up, bad):
        # cell number k of the range is bin low + k: its edges, its content, its index
        n = "(%s - %s)" % (up, low)
        item = ["out[k][0][0][0] == hist.edges[{lo} + k]", "out[k][0][0][1] == hist.edges[{lo} + k + 1]",
                "out[k][1] == hist.bins[{lo} + k]", "out[k][2][0] == {lo} + k", "len(out[k][2]) == 1", "len(out[k][0]) == 1"]
        allk = "all(%s for k in range(len(out)))" % " and ".join(item).format(lo=low)
        return Contract(
            HF, "iter_cells", name="iter_cells[1-d, %s]" % name,
            params={"hist": "Inst[histogram_any]", "ranges": ranges_ty, "coord_ranges": "None"},
            defaults={"ranges": None, "coord_ranges": None},
            generator=True, yields="Tuple[PyList[1,Tuple[Real,Real]],Real,Tuple[Int]]",
            requires=HREQ, raises={"LenaValueError": bad},
            loops={2: LoopSpec(invariant=["len(out) == _i", allk])},
            at_yield=["yielded[2][0] == %s + len(out)" % low, "yielded[1] == hist.bins[%s + len(out)]" % low],
            # an empty range (also an upper index 0) yields nothing
            ensures=["len(out) == (%s if %s > 0 else 0)" % (n, n), allk],
            modifies=[])
    NB = "(len(hist.edges) - 1)"
    # FINDING (docstring vs code, not part of any property run: props=[]).  The docstring sentence `If a range index is
    # lower than 0 or higher than possible index, LenaValueError is raised` read for BOTH indices of a range.  The code only
    # rejects low < 0 and up > len(edges)-1: ranges=((3, None),) or ((0, -1),) on a 2-bin histogram silently yield nothing.
    # `python3-vt tools/dbg.py lena/structures/hist_functions.py "iter_cells#docstring-literal"` shows the failed obligation.
    lit = cells("ranges=((low, up),), every range index checked", "Tuple[Tuple[Int,Int]]", "ranges[0][0]", "ranges[0][1]",
                "ranges[0][0] < 0 or ranges[0][0] > {nb} or ranges[0][1] < 0 or ranges[0][1] > {nb}".format(nb=NB))
    ix.add(Contract(HF, "iter_cells", props=[], qualkey="iter_cells#docstring-literal", cases=[lit],
                    notes="documents a finding; deliberately not attached to a property"))
    ix.add(Contract(
        HF, "iter_cells", props=["C12"],
        cases=[
            cells("all cells", "None", "0", NB, "False"),
            cells("ranges=((low, up),)", "Tuple[Tuple[Int,Int]]", "ranges[0][0]", "ranges[0][1]",
                  "ranges[0][0] < 0 or ranges[0][1] > " + NB),
            cells("ranges=((None, up),)", "Tuple[Tuple[None,Int]]", "0", "ranges[0][1]", "ranges[0][1] > " + NB),
            cells("ranges=((low, None),)", "Tuple[Tuple[Int,None]]", "ranges[0][0]", NB, "ranges[0][0] < 0"),
            cells("ranges=((None, None),)", "Tuple[Tuple[None,None]]", "0", NB, "False"),
        ]))


# ---------------------------------------------------------------------------------------------- lemmas (scaling)
# Rescaling every cell by num/den rescales the integral (resp. the sum of the cells) by num/den.  The statements are
# proved for ALL arguments by induction on n (Lemma units below); a contract uses an instance through `lemmas=[...]`.
LR = "Lst_Real"
INT_DEF = ("(define-fun-rec integral1d ((b {l}) (e {l}) (n Int)) Real (ite (<= n 0) 0.0 (+ (integral1d b e (- n 1)) "
           "(* (- (select (arr_{l} e) n) (select (arr_{l} e) (- n 1))) (select (arr_{l} b) (- n 1))))))").format(l=LR)


def scaled_cells(b2, b1, num, den, n, i):
    return ("(forall (({i} Int)) (=> (and (<= 0 {i}) (< {i} {n})) (= (select (arr_{l} {b2}) {i}) "
            "(/ (* (select (arr_{l} {b1}) {i}) {num}) {den}))))").format(i=i, n=n, b2=b2, b1=b1, num=num, den=den, l=LR)


def integral_scaled_stmt(b2, b1, e, num, den, n, i="li"):
    return "(=> (and (not (= {den} 0.0)) {cells}) (= (integral1d {b2} {e} {n}) (/ (* (integral1d {b1} {e} {n}) {num}) {den})))".format(
        den=den, cells=scaled_cells(b2, b1, num, den, n, i), b2=b2, b1=b1, e=e, n=n, num=num)


def lsum_scaled_stmt(b2, b1, num, den, n, i="li"):
    return "(=> (and (not (= {den} 0.0)) {cells}) (= (lsum_Real {b2} {n}) (/ (* (lsum_Real {b1} {n}) {num}) {den})))".format(
        den=den, cells=scaled_cells(b2, b1, num, den, n, i), b2=b2, b1=b1, n=n, num=num)


def _real(ip, v):
    from pyvc.smt import to_real
    return to_real(ip.num(v))


def sp_integral1d_scaled(ip, st, pos, kws):
    """integral1d_scaled(new_bins, old_bins, edges, num, den, n): instance of the lemma `if den != 0 and every one of the
    first n cells of new_bins is the cell of old_bins times num/den, then integral1d(new_bins, edges, n) ==
    integral1d(old_bins, edges, n) * num / den`"""
    from pyvc.sym import Bool
    reg = ip.reg
    lr = reg.lst("Real")
    reg.fun_decl("integral1d", INT_DEF)
    b2, b1, e = [lst_term(ip, st, p, lr) for p in pos[:3]]
    return Bool(T(integral_scaled_stmt(b2.s, b1.s, e.s, _real(ip, pos[3]).s, _real(ip, pos[4]).s, ip.num(pos[5]).s,
                                       "li%d" % next(ip.bound)), "Bool"))


def sp_lsum_scaled(ip, st, pos, kws):
    """lsum_scaled(new_bins, old_bins, num, den, n): the same for the sum of the first n cells"""
    from pyvc.sym import Bool
    from pyvc.histlib import declare_lsum
    reg = ip.reg
    lr = reg.lst("Real")
    declare_lsum(reg, lr)
    b2, b1 = [lst_term(ip, st, p, lr) for p in pos[:2]]
    return Bool(T(lsum_scaled_stmt(b2.s, b1.s, _real(ip, pos[2]).s, _real(ip, pos[3]).s, ip.num(pos[4]).s,
                                   "li%d" % next(ip.bound)), "Bool"))


def induction_lemma(kind):
    """proof of the scaling lemma by induction on n, for arbitrary lists / factors (fresh constants).  The reference
    function is used through instances of its defining equation f(.., n) = ite(n <= 0, 0, f(.., n - 1) + term(n - 1))
    only (the symbol itself is left uninterpreted here, so that the solver does not unfold it on its own):
      base   n <= 0:  statement(n)
      step-a n > 0:   premise(n) implies premise(n - 1)                       (so the induction hypothesis applies)
      step-b n > 0:   premise(n), conclusion(n - 1), definitions at n  =>  conclusion(n)"""
    def build(ip, st):
        from pyvc.interp import VC
        reg = ip.reg
        lr = reg.lst("Real")
        fn = "integral1d" if kind == "integral" else "lsum_Real"
        reg.fun_decl(fn, "(declare-fun %s (%s) Real)" % (fn, " ".join([lr, lr, "Int"] if kind == "integral" else [lr, "Int"])))
        b2, b1, e = reg.new("new_bins", lr), reg.new("old_bins", lr), reg.new("edges", lr)
        num, den, n = reg.new("num", "Real"), reg.new("den", "Real"), reg.new("n", "Int")

        def f(b, nn):
            return "(integral1d %s %s %s)" % (b, e.s, nn) if kind == "integral" else "(lsum_Real %s %s)" % (b, nn)

        def premise(nn):
            return "(and (not (= %s 0.0)) %s)" % (den.s, scaled_cells(b2.s, b1.s, num.s, den.s, nn, "li"))

        def conclusion(nn):
            return "(= %s (/ (* %s %s) %s))" % (f(b2.s, nn), f(b1.s, nn), num.s, den.s)

        def definition(b, nn):
            cell = "(select (arr_{l} {b}) (- {n} 1))".format(l=LR, b=b, n=nn)
            if kind == "integral":
                cell = "(* (- (select (arr_{l} {e}) {n}) (select (arr_{l} {e}) (- {n} 1))) {c})".format(l=LR, e=e.s, n=nn, c=cell)
            return "(= %s (ite (<= %s 0) 0.0 (+ %s %s)))" % (f(b, nn), nn, f(b, "(- %s 1)" % nn), cell)
        # the statement proved is exactly the one the lemma function hands out
        stmt = integral_scaled_stmt(b2.s, b1.s, e.s, num.s, den.s, n.s) if kind == "integral" else \
            lsum_scaled_stmt(b2.s, b1.s, num.s, den.s, n.s)
        assert stmt == "(=> %s %s)" % (premise(n.s), conclusion(n.s)), (stmt, premise(n.s), conclusion(n.s))
        nm1 = "(- %s 1)" % n.s
        base = st.copy()
        base.assume(T("(<= %s 0)" % n.s, "Bool"))
        base.assume(T(definition(b2.s, n.s), "Bool"))
        base.assume(T(definition(b1.s, n.s), "Bool"))
        ip.emit("lemma", "scaling lemma (%s): base case n <= 0" % kind, base, T(stmt, "Bool"))
        sa = st.copy()
        sa.assume(T("(> %s 0)" % n.s, "Bool"))
        sa.assume(T(premise(n.s), "Bool"))
        ip.emit("lemma", "scaling lemma (%s): step, the premise for n gives the premise for n - 1" % kind, sa, T(premise(nm1), "Bool"))
        sb = st.copy()
        sb.assume(T("(> %s 0)" % n.s, "Bool"))
        sb.assume(T(premise(n.s), "Bool"))
        sb.assume(T(conclusion(nm1), "Bool"))               # induction hypothesis (its premise holds by step-a)
        sb.assume(T(definition(b2.s, n.s), "Bool"))
        sb.assume(T(definition(b1.s, n.s), "Bool"))
        ip.emit("lemma", "scaling lemma (%s): step n - 1 -> n" % kind, sb, T(conclusion(n.s), "Bool"))
        ip.vcs.append(VC("cover requires", "cover", list(sb.pc), T("false", "Bool"), ""))
    return build


def register_lemmas(ix):
    ix.spec_names["integral1d_scaled"] = sp_integral1d_scaled
    ix.spec_names["lsum_scaled"] = sp_lsum_scaled
    ix.lemma_functions = set(getattr(ix, "lemma_functions", ())) | {"integral1d_scaled", "lsum_scaled"}
    ix.lemmas.append(Lemma("integral1d: rescaling the cells rescales the integral", HF, ["C12"], induction_lemma("integral"),
                           notes="induction on the number of cells; used by histogram.scale through lemmas=[...]"))
    ix.lemmas.append(Lemma("lsum: rescaling the cells rescales their sum", HI, ["C12"], induction_lemma("lsum"),
                           notes="induction on the number of cells; used by histogram.set_nevents through lemmas=[...]"))
