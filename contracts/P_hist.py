"""sidecar contracts (see tools/CONTRACTS_GUIDE.md)

P_hist -- histogram structure functions (properties C06, C11, C12).  Sidecar contracts of
lena/structures/hist_functions.py, lena/structures/histogram.py, lena/structures/split_into_bins.py."""
from pyvc.contracts import Contract, LoopSpec, ClassSpec

HF = "lena/structures/hist_functions.py"
HI = "lena/structures/histogram.py"
SB = "lena/structures/split_into_bins.py"


def norm(i, n):
    """python index normalisation inside a clause: a negative index counts from the end"""
    return "({i} if {i} >= 0 else {i} + {n})".format(i=i, n=n)


def inrange(i, n):
    return "(-{n} <= {i} < {n})".format(i=i, n=n)


def register(ix):
    register_get_bin_on_index(ix)
    register_init_bins(ix)


# ---------------------------------------------------------------------------------------------- get_bin_on_index
def register_get_bin_on_index(ix):
    """docstring: `Return bin corresponding to multidimensional index.  index can be a number or a list/tuple.  If index
    length is less than dimension of bins, a subarray of bins is returned.  In case of an index error, LenaIndexError is
    raised.`  An index is a Python index: -len <= i < len is in range and a negative one counts from the end (that is
    why a caller must not hand an underflow index -1 to this function: C06)."""
    def gboi(name, index_ty, bins_ty, res_ty, idx, depth, alias=None):
        # idx: list of clause texts of the index components
        sub = "bins"
        bad, cur = [], "bins"
        for d, i in enumerate(idx):
            bad.append("not " + inrange(i, "len(%s)" % cur))
            cur = "%s[%s]" % (cur, norm(i, "len(%s)" % cur))
        ens = []
        if alias is None:
            if res_ty.startswith("Lst"):
                ens = ["same(result, %s)" % cur]
            elif res_ty == "Obj":
                ens = ["result is %s" % cur]
            else:
                ens = ["result == %s" % cur]
        # `raises` as a chain: a later component is only looked at when the earlier ones are in range
        cond, pre = [], []
        for b in bad:
            cond.append("(%s)" % " and ".join(["not (%s)" % p for p in pre] + [b]) if pre else "(%s)" % b)
            pre.append(b)
        return Contract(HF, "get_bin_on_index", name="get_bin_on_index[%s]" % name,
                        params={"index": index_ty, "bins": bins_ty}, result=res_ty,
                        raises={"LenaIndexError": " or ".join(cond) if cond else "False"},
                        raises_frame="pure", ensures=ens, result_alias=alias)
    ix.add(Contract(
        HF, "get_bin_on_index", props=["C06", "C11", "C12"], inline=True,
        cases=[
            gboi("number, 1-d bins", "Int", "Lst[Real]", "Real", ["index"], 1),
            gboi("(i,), 1-d bins", "Tuple[Int]", "Lst[Real]", "Real", ["index[0]"], 1),
            gboi("[i], 1-d bins", "PyList[1,Int]", "Lst[Real]", "Real", ["index[0]"], 1),
            gboi("(i, j), 2-d bins", "Tuple[Int,Int]", "Lst[Lst[Real]]", "Real", ["index[0]", "index[1]"], 2),
            gboi("[i, j], 2-d bins", "PyList[2,Int]", "Lst[Lst[Real]]", "Real", ["index[0]", "index[1]"], 2),
            gboi("(i, j, k), 3-d bins", "Tuple[Int,Int,Int]", "Lst[Lst[Lst[Real]]]", "Real",
                 ["index[0]", "index[1]", "index[2]"], 3),
            # shorter index: a subarray (the very object, not a copy)
            gboi("number, 2-d bins: a row", "Int", "Lst[Lst[Real]]", "Lst[Real]", ["index"], 1),
            gboi("(i,), 2-d bins: a row", "Tuple[Int]", "Lst[Lst[Real]]", "Lst[Real]", ["index[0]"], 1),
            gboi("(), the bins themselves", "Tuple[]", "Lst[Real]", "Lst[Real]", [], 0, alias="bins"),
            # cells that are objects (SplitIntoBins)
            gboi("(i,), 1-d bins of elements", "Tuple[Int]", "Lst[Obj]", "Obj", ["index[0]"], 1),
            gboi("(i, j), 2-d bins of elements", "Tuple[Int,Int]", "Lst[Lst[Obj]]", "Obj", ["index[0]", "index[1]"], 2),
        ],
        notes="executed in place at call sites (the result may be a row OF the caller's bins: aliasing is kept)"))


# ---------------------------------------------------------------------------------------------- init_bins
def register_init_bins(ix):
    """docstring: `Initialize cells of the form edges with the given value.  Return bins filled with copies of value.
    ... If the value is mutable, use deepcopy = True (or the content of cells will be identical).`
    C11: `deep copy of the analysis per cell at construction`."""
    ALL1 = "all(result[i] == value for i in range(len(result)))"
    ALL2 = "all(all(result[i][j] == value for j in range(len(result[i]))) for i in range(len(result)))"
    ix.add(Contract(
        HF, "init_bins", props=["C11", "C12", "C06"],
        cases=[
            # (concrete-length edge lists first: case selection goes by argument fit)
            Contract(HF, "init_bins", name="init_bins[2-d edges, number]",
                     params={"edges": "PyList[2,Lst[Real]]", "value": "Real", "deepcopy": "Bool"}, result="Lst[Lst[Real]]",
                     defaults={"value": 0, "deepcopy": False},
                     requires=["len(edges[0]) >= 1", "len(edges[1]) >= 1"],
                     local_types={"bins": "Lst[Lst[Real]]"},
                     loops={1: LoopSpec(invariant=[
                         "len(bins) == _i",
                         "all(len(bins[i]) == len(edges[1]) - 1 for i in range(len(bins)))",
                         "all(all(bins[i][j] == value for j in range(len(bins[i]))) for i in range(len(bins)))"])},
                     ensures=["len(result) == len(edges[0]) - 1",
                              "all(len(result[i]) == len(edges[1]) - 1 for i in range(len(result)))", ALL2]),
            Contract(HF, "init_bins", name="init_bins[[x-edges], number]",
                     params={"edges": "PyList[1,Lst[Real]]", "value": "Real", "deepcopy": "Bool"}, result="Lst[Real]",
                     defaults={"value": 0, "deepcopy": False},
                     requires=["len(edges[0]) >= 1"],
                     ensures=["len(result) == len(edges[0]) - 1", ALL1]),
            Contract(HF, "init_bins", name="init_bins[1-d edges, number]",
                     params={"edges": "Lst[Real]", "value": "Real", "deepcopy": "Bool"}, result="Lst[Real]",
                     defaults={"value": 0, "deepcopy": False},
                     requires=["len(edges) >= 1"],
                     ensures=["len(result) == len(edges) - 1", ALL1]),
        ]))
