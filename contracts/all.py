"""registers every sidecar contract (callee contracts of one property are needed by the callers of another)"""
import importlib

MODULES = ["C06", "C01", "C05", "C02", "C07", "C08", "C17", "C09", "C18", "C03", "C16", "C13", "C14", "C15", "P_hist", "P_acc", "P_ctx", "P_fr", "P_sel", "P_split", "P_var", "P_flow", "P_pairs", "P_hist2", "P_sib", "P_iet", "P_seq", "P_core2", "C19", "P_out", "P_ctx2", "P_acc2", "P_struct2", "P_names", "P_var2", "P_ctor", "P_acc3", "P_out2"]


def register(ix):
    import os
    import sys
    import traceback
    from pyvc import speclib
    speclib.register(ix)
    from pyvc import lib
    lib.register(ix)
    ix.broken = {}
    for m in MODULES:
        try:
            importlib.import_module("contracts." + m).register(ix)
        except Exception:
            # a contract module that does not load must not take the other properties down with it; the check of every
            # property reports it as a checker failure unless VERIF_SKIP_BROKEN=1 (development)
            ix.broken[m] = traceback.format_exc()[-600:]
            if not os.environ.get("VERIF_SKIP_BROKEN"):
                sys.stderr.write("contract module %s failed to load:\n%s\n" % (m, ix.broken[m]))
