"""registers every sidecar contract (callee contracts of one property are needed by the callers of another)"""
import importlib

MODULES = ["C06", "C01", "C05", "C02", "C07", "C08", "C17", "C09", "C18", "C03", "C16", "C13", "C14", "C15", "P_hist", "P_acc", "P_ctx", "C19"]


def register(ix):
    from pyvc import speclib
    speclib.register(ix)
    from pyvc import lib
    lib.register(ix)
    for m in MODULES:
        importlib.import_module("contracts." + m).register(ix)
