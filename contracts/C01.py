"""C01 -- Sequence and Source are left-to-right composition.  C02 laziness clauses (at_yield / pulled) ride on the same
contracts.  Sidecar contracts of lena/core/{functions,adapters,sequence,source}.py (the repository is not edited).

Element interface (DESIGN 2.3 / 2.4 item 4): a user element `e` denotes  el_run(e, xs)  (stream transformer),
el_call(e, v), el_fill / el_compute (fold + final results).  Framework code is verified against these denotations."""
from pyvc.contracts import Contract, LoopSpec, ClassSpec

FN = "lena/core/functions.py"
AD = "lena/core/adapters.py"
SQ = "lena/core/sequence.py"
SO = "lena/core/source.py"


def register(ix):
    # ------------------------------------------------------------------ flow_to_iter
    ix.add(Contract(
        FN, "flow_to_iter", props=["C01", "C02"],
        cases=[
            Contract(FN, "flow_to_iter", name="flow_to_iter[iterator]",
                     params={"flow": "Iter[V]"}, result="Iter[V]",
                     result_alias="flow",
                     ensures=["pulled(flow) == old(pulled(flow))"]),
            Contract(FN, "flow_to_iter", name="flow_to_iter[list]",
                     params={"flow": "Lst[V]"}, result="Iter[V]",
                     ensures=["pulled(result) == 0", "same(content(result), flow)"]),
        ]))
    # ------------------------------------------------------------------ Run adapter
    ix.add_class(ClassSpec("Run", AD, fields={"_el": "Obj"}))
    ix.add(Contract(
        AD, "Run._call_run", props=["C01", "C02"],
        params={"self": "Self[Run]", "flow": "Iter[V]"}, generator=True, yields="V",
        requires=["pulled(flow) == 0"],
        loops={0: LoopSpec(invariant=[
            "len(out) == _i", "pulled(flow) == _i",
            "all(out[k] == el_call(self._el, content(flow)[k]) for k in range(_i))"])},
        # laziness (C02): when the k-th result is handed over exactly k input values have been pulled
        at_yield=["pulled(flow) == len(out) + 1"],
        ensures=["len(out) == len(content(flow))",
                 "all(out[k] == el_call(self._el, content(flow)[k]) for k in range(len(out)))",
                 "pulled(flow) == len(content(flow))"],
        modifies=["flow"]))
    ix.add(Contract(
        AD, "Run._fc_run", props=["C01"],
        params={"self": "Self[Run]", "flow": "Iter[V]"}, result="Iter[V]",
        requires=["pulled(flow) == 0"],
        loops={0: LoopSpec(invariant=[
            "pulled(flow) == _i",
            "elstate(self._el) == fold_fill(self._el, old(elstate(self._el)), content(flow), _i)"])},
        raises={"LenaStopFill": "?"},
        ensures=["pulled(flow) == len(content(flow))",
                 "elstate(self._el) == fold_fill(self._el, old(elstate(self._el)), content(flow), len(content(flow)))",
                 "pulled(result) == 0",
                 "same(content(result), el_compute(self._el, elstate(self._el)))"],
        modifies=["flow"], ghost={"elstate": True}))
    # ------------------------------------------------------------------ Sequence.run
    ix.add_class(ClassSpec("Sequence", SQ, fields={"_data_seq": "Lst[Obj]"}))
    ix.add(Contract(
        SQ, "Sequence.run", props=["C01", "C02"],
        cases=[
            Contract(SQ, "Sequence.run", name="Sequence.run[iterator flow]",
                     params={"self": "Self[Sequence]", "flow": "Iter[V]"}, result="Iter[V]",
                     requires=["pulled(flow) == 0"],
                     loops={0: LoopSpec(invariant=[
                         "pulled(flow) == 0",
                         "same(content(flow), seq_run(self._data_seq, old(content(flow)), _i))",
                         # laziness (C02): building the chain consumes nothing from the input
                         "old(flow) is flow or pulled(old(flow)) == 0"])},
                     ensures=["pulled(result) == 0",
                              "same(content(result), seq_run(self._data_seq, content(flow), len(self._data_seq)))",
                              "pulled(flow) == 0"]),
            Contract(SQ, "Sequence.run", name="Sequence.run[list flow]",
                     params={"self": "Self[Sequence]", "flow": "Lst[V]"}, result="Iter[V]",
                     # documented: the flow entering the first element always supports next() (elements such as Count or a
                     # negative Slice rely on it), whatever container the caller passed
                     at_call={"run": ["is_iterator(call_args[0])"]},
                     loops={0: LoopSpec(invariant=[
                         "pulled(flow) == 0",
                         "same(content(flow), seq_run(self._data_seq, old(flow), _i))"])},
                     ensures=["pulled(result) == 0",
                              "same(content(result), seq_run(self._data_seq, flow, len(self._data_seq)))"]),
        ]))
    # ------------------------------------------------------------------ Source.__call__
    ix.add_class(ClassSpec("Source_with_tail", SO, fields={"_first": "Obj", "_tail": "Inst[Sequence]"}, alias_of="Source"))
    ix.add_class(ClassSpec("Source_no_tail", SO, fields={"_first": "Obj", "_tail": "Tuple[]"}, alias_of="Source"))
    ix.add_class(ClassSpec("Source_iterable", SO, fields={"_first": "Lst[V]", "_tail": "Inst[Sequence]"}, alias_of="Source"))
    ix.add(Contract(
        SO, "Source.__call__", props=["C01", "C02"],
        cases=[
            Contract(SO, "Source.__call__", name="Source.__call__[callable first, tail]",
                     params={"self": "Self[Source_with_tail]"}, result="Iter[V]",
                     requires=["callable(self._first)"],
                     ensures=["pulled(result) == 0",
                              "same(content(result), seq_run(self._tail._data_seq, el_source(self._first), len(self._tail._data_seq)))"]),
            Contract(SO, "Source.__call__", name="Source.__call__[callable first, no tail]",
                     params={"self": "Self[Source_no_tail]"}, result="Iter[V]",
                     requires=["callable(self._first)"],
                     ensures=["pulled(result) == 0", "same(content(result), el_source(self._first))"]),
            Contract(SO, "Source.__call__", name="Source.__call__[iterable first, tail]",
                     params={"self": "Self[Source_iterable]"}, result="Iter[V]",
                     ensures=["pulled(result) == 0",
                              "same(content(result), seq_run(self._tail._data_seq, self._first, len(self._tail._data_seq)))"]),
        ]))
    # ------------------------------------------------------------------ construction
    LS = "lena/core/lena_sequence.py"
    ix.add_class(ClassSpec("LenaSequence", LS, fields={}))
    ix.add_class(ClassSpec("Sequence0", SQ, fields={"_data_seq": "Lst[Obj]", "_seq": "Lst[Obj]"}, alias_of="Sequence", bases=["LenaSequence"]))
    ix.classes["Sequence"].bases = ["LenaSequence"]
    # assumed here, verified under C13: threads the static context; may store / raise LenaKeyError; touches no data element
    ix.add(Contract(LS, "LenaSequence._set_context", props=[], trusted=True,
                    params={"self": "Self[LenaSequence]", "context": "Any"}, raises={"LenaKeyError": "?"},
                    modifies=["self._static_context", "self._exc"],
                    notes="assumed at the call in LenaSequence.__init__ (static context is the subject of C13)"))
    HAS_RUN = "(has_attr(args[{i}], 'run') and callable_m(args[{i}], 'run'))"
    CONV = "(callable(args[{i}]) or (has_attr(args[{i}], 'fill') and has_attr(args[{i}], 'compute') and " \
           "callable_m(args[{i}], 'fill') and callable_m(args[{i}], 'compute')))"

    def seq_init(n):
        nodata = ["not has_attr(args[%d], '_has_no_data')" % i for i in range(n)]
        ens = ["len(self._data_seq) == %d" % n, "len(self._seq) == %d" % n]
        for i in range(n):
            hr = HAS_RUN.format(i=i)
            ens += ["self._seq[%d] is args[%d]" % (i, i),
                    "%s implies self._data_seq[%d] is args[%d]" % (hr, i, i),
                    "not %s implies is_instance_of(self._data_seq[%d], 'Run') and self._data_seq[%d]._el is args[%d]" % (hr, i, i, i),
                    "not %s and callable(args[%d]) implies self._data_seq[%d].run is class_method(self._data_seq[%d], '_call_run')" % (hr, i, i, i),
                    "not %s and not callable(args[%d]) implies self._data_seq[%d].run is class_method(self._data_seq[%d], '_fc_run')" % (hr, i, i, i)]
        bad = " or ".join("not (%s or %s)" % (HAS_RUN.format(i=i), CONV.format(i=i)) for i in range(n)) or "False"
        return Contract(SQ, "Sequence.__init__", name="Sequence.__init__[%d data args]" % n,
                        params={"self": "Self[Sequence0]", "args": "Tuple[%s]" % ",".join(["Obj"] * n)}, vararg="args",
                        requires=nodata, raises={"LenaTypeError": bad}, ensures=ens,
                        modifies=["self._name", "self._seq", "self._data_seq", "self._static_context", "self._exc"],
                        notes="argument lists of length %d (the per-argument loop is unrolled; every element kind)" % n)
    ix.add(Contract(LS, "LenaSequence.__init__", props=[], inline=True,
                    params={"self": "Self[LenaSequence]", "args": "Any"}))
    ix.add(Contract(SQ, "Sequence.__init__", props=["C01"], cases=[seq_init(0), seq_init(1), seq_init(2),
           Contract(SQ, "Sequence.__init__", name="Sequence.__init__[no-data element dropped]",
                    params={"self": "Self[Sequence0]", "args": "Tuple[Obj,Obj]"}, vararg="args",
                    requires=["has_attr(args[0], '_has_no_data')", "not has_attr(args[1], '_has_no_data')",
                              HAS_RUN.format(i=1)],
                    ensures=["len(self._seq) == 2", "len(self._data_seq) == 1", "self._data_seq[0] is args[1]"],
                    modifies=["self._name", "self._seq", "self._data_seq", "self._static_context", "self._exc"])]))

    # ------------------------------------------------------------------ Source.__init__
    ix.add_class(ClassSpec("Source", SO, fields={}, bases=["LenaSequence"]))
    SRC_MOD = ["self._name", "self._seq", "self._data_seq", "self._static_context", "self._exc", "self._first", "self._tail"]
    ix.add(Contract(SO, "Source.__init__", props=["C01"], cases=[
        # "placing them after the first element of a Source never changes the result": the Source keeps the first
        # element ITSELF (every call starts a new flow from it) and its tail is the Sequence of the other arguments
        Contract(SO, "Source.__init__", name="Source.__init__[callable first, one tail element]",
                 params={"self": "Self[Source]", "args": "Tuple[Obj,Obj]"}, vararg="args",
                 requires=["callable(args[0])", "not has_attr(args[0], '_has_no_data')", "not has_attr(args[1], '_has_no_data')",
                           HAS_RUN.format(i=1)],
                 ensures=["self._first is args[0]", "is_instance_of(self._tail, 'Sequence')",
                          "len(self._tail._data_seq) == 1", "self._tail._data_seq[0] is args[1]"],
                 modifies=SRC_MOD),
        Contract(SO, "Source.__init__", name="Source.__init__[iterable first, one tail element]",
                 params={"self": "Self[Source]", "args": "Tuple[Lst[V],Obj]"}, vararg="args",
                 requires=["not has_attr(args[1], '_has_no_data')", HAS_RUN.format(i=1)],
                 ensures=["self._first is args[0]", "is_instance_of(self._tail, 'Sequence')",
                          "len(self._tail._data_seq) == 1", "self._tail._data_seq[0] is args[1]"],
                 modifies=SRC_MOD),
        Contract(SO, "Source.__init__", name="Source.__init__[no arguments]",
                 params={"self": "Self[Source]", "args": "Tuple[]"}, vararg="args",
                 raises={"LenaTypeError": "True"}),
    ]))
